"""C17 - HTML blocks: verbatim pass-through, img/admonition = directives, GFM tag filter."""

from __future__ import annotations

import ast
import re
import re._parser as sre_parse  # CPython's own regex parser (trusted base), not repository code

from ..corpus import (
    AnchorMissing,
    Corpus,
    FunctionInfo,
    Module,
    Unsupported,
    arg_or_kw,
    dotted,
    kwarg,
    parent,
    short,
    splice,
    unparse,
    walk_local,
)
from ..flow import get_cfg
from ..mutant import Mutant
from ..report import Report
from .common import find_node, find_stmt, rule

PROP = "C17"
READY = False
TECHNIQUE = "path/return classification over the CFG of html_to_nodes, regex-tree language enumeration of the GFM filter, sibling option-spec comparison, and a small taint analysis from HTML attribute values to the option block of run_directive"

META = {
    "explanation": (
        "html_to_nodes may be a thin wrapper (it catches RecursionError) around the function that tokenizes and converts; the rules read "
        "that core function, the wrapper may only delegate its (text, line, renderer) unchanged or pass its own text through, and R2 "
        "requires the GFM filter to have seen whatever either of them emits. "
        "R1 (pass-through and gate): every return of html_to_nodes is either the pass-through constructor applied to the "
        "(optionally GFM-filtered) `text` parameter itself - never a re-rendering of the parsed tree or an edited string - or "
        "lies behind the convertibility gate (a parameterless local closure that returns the pass-through call stands for it); the constructor puts its text parameter unchanged into exactly one "
        "nodes.raw(format='html'). The gate is recognised by what it decides per top-level element (an `if [.. or] not all(...)` "
        "test, or a loop with `continue`/pass-through return; predicates in small helper functions are inlined, the condition is "
        "brought to DNF): each alternative pairs an extension flag with its own tag (html_image/img, html_admonition/div + class "
        "word 'admonition'); each run_directive call (in html_to_nodes or in a helper it calls) runs only for the matching tag. "
        "Every class test is a word test on the white-space-split class list, not a substring test; the fragment is tokenized by "
        "a parser object built (or reset) for that fragment - by a constructor or un-memoised factory on every path to the feed, "
        "whether in tokenize_html or in html_to_nodes itself (html.parser keeps buffered text / CDATA mode between feed() calls) - "
        "and the parser is closed after the feed, so that an unterminated tag/comment at the end of the fragment is part of the "
        "tree and not silently dropped; every end tag the tokenizer is told about either closes an open element or is kept as a node, "
        "and every start tag is kept with its source text (get_starttag_text -> Tree.nest_* -> Element.raw -> render), which the "
        "element classes render instead of re-synthesising it from the decoded attribute list; the directive body is rendered with "
        "source_end_tags=True, Tag.render omits the end tag of an element the source never closes, and the closed flag is unset by "
        "nest_tag, set by the matching end tag in enclose and kept by deepcopy; the places where html.parser (facts re-read from the "
        "stdlib source) drops or rewrites input are covered: `</>` is kept as data by a parse_endtag override, bogus comments "
        "(`<!x>`, `</3>`) keep, render and copy their source text, and an `&#` that stalls goahead() is kept as data, stepped over "
        "and parsing resumed in a loop before close(); both html handlers call html_to_nodes on every path; the html_inline handler "
        "marks its call (inline=True), the mark reaches the gate and every <div> alternative requires it unset, so a lone inline "
        "start tag is never converted to a (content-less) admonition; flattening a <p> child writes the paragraph break before "
        "(skippable only when nothing precedes or a break is there) and after its children; between tokenizing and the gate only nodes whose rendering is white space are discarded "
        "(Element.strip's filter and any filtering comprehension on the way are judged by what fails them), and Element.strip is "
        "applied to the fragment root only, non-recursively: inside a converted element white-space text is content; both html "
        "handlers hand token.content to html_to_nodes and attach all returned nodes. "
        "R2 (GFM filter): the finite language of the filter regex (enumerated from the re._parser tree) is exactly '<' ['/'] tag "
        "for the nine tags of GFM 6.11, case-insensitive with ASCII-only folding (re.IGNORECASE on a str pattern without re.ASCII "
        "also matches U+0130/U+0131/U+017F/U+212A look-alikes that are not on the list), with a tag-name-terminator look-ahead (read as a set of strings) that accepts "
        "every HTML tag-name terminator unconditionally - a terminator accepted only with a continuation, e.g. '/' only as '/>', "
        "is a violation - and no name character; the replacement removes '<'; no count limit; conditional on gfm_only alone; it dominates every use "
        "of the filtered text and every return; when the filtered text is kept in a second variable, the unfiltered parameter is "
        "never handed to the pass-through constructor. "
        "R3: attribute whitelists that feed a directive's option block (followed through helper parameters) are subsets of that "
        "docutils directive's option_spec (read from the docutils sources via the directive registry). "
        "R4 (taint, interprocedural over the module's helpers): an HTML attribute value or non-whitelisted attribute name reaches "
        "the option block of run_directive's content only through a quoting step that carries every value over: "
        "json.dumps(x, ensure_ascii=False) with U+0085/U+2028/U+2029 re-escaped, directly or in a helper that may return the "
        "value unquoted only under a fullmatch with a regex whose language consists of plain scalars the option tokenizer returns "
        "unchanged (helper returns are judged under the branch facts that dominate them). "
        "R5: raw nodes are removed from / replaced in a tree only inside a deep copy made on every path, or by the security "
        "filter of the parsers under a condition that implies raw_enabled is false (read with a true default). "
        "R6: the enable_extensions set html_to_nodes reads is changed in place only between saving a copy and re-assigning that "
        "copy in a finally block (figure-md's temporary html_image). "
        "R7: every call of html_to_nodes gets the GFM filter: it runs inside html_to_nodes (then every caller is covered), or - when it is "
        "a helper outside html_to_nodes that some caller applies - every caller that hands over a token's content applies that helper under "
        "gfm_only on every path to the call; a caller that passes the content as written while another caller filters is a violation "
        "(other shapes: analysis error)."
    ),
    "not_decided": (
        "node-for-node equality with the directive spelling for all attribute values and bodies; what the docutils option "
        "converters do with a value; what html.parser accepts as a top-level element; third-party transforms that delete raw nodes; "
        "writes to the configuration that are not in-place set operations (C13/C15); other html.parser quirks than the three tabled ones "
        "(the table is a reading of the installed stdlib source, not a proof that no further input is dropped); recursion depth on pathologically nested input "
        "(Element.deepcopy/render/strip recurse once per nesting level: ~1200 nested <b> inside a div.admonition exhaust the interpreter stack - a runtime quantity)"
    ),
    "trusted_base": [
        "CPython ast and re._parser",
        "GFM spec 0.29-gfm section 6.11 (Disallowed Raw HTML): title textarea style xmp iframe noembed noframes script plaintext",
        "WHATWG HTML tokenizer: a tag name ends at TAB, LF, FF, (CR), SPACE, '/' or '>'",
        "docutils sources as installed: directives/__init__.py registry, images.py, admonitions.py",
        "hand-probed facts about parsers/options.py: the plain-scalar-safe alphabet [A-Za-z0-9_.%/-] with inner spaces (exhaustive to length 5); "
        "\\uXXXX escapes are decoded one code unit at a time; U+0085/U+2028/U+2029 are line breaks for str.splitlines and the tokenizer",
    ],
    "assumptions": [
        "the `image` and `admonition` directives are the docutils classes (Sphinx does not re-register them)",
        "the first_line argument of run_directive is not parsed by the option mini-language (it is split into arguments)",
        "html.parser.HTMLParser.reset() clears rawdata and the CDATA mode",
        "one definition per flag/local that the gate and the filter condition refer to",
    ],
}

# GFM spec (0.29-gfm) 6.11 Disallowed Raw HTML (extension)
GFM_DISALLOWED = frozenset({"title", "textarea", "style", "xmp", "iframe", "noembed", "noframes", "script", "plaintext"})
# HTML tokenizer "tag name state": the name ends at these (CR is normalised to LF by the input preprocessor)
TAG_NAME_END = frozenset("\t\n\f\r />")
TAG_NAME_CHARS = frozenset("abcdefghijklmnopqrstuvwxyzABCDEFGHIJKLMNOPQRSTUVWXYZ0123456789-_.:")
# extension name -> (tag, required class, directive): what the property calls the recognised convertible forms
CONVERTIBLE = {"html_image": ("img", None, "image"), "html_admonition": ("div", "admonition", "admonition")}


# ---------------------------------------------------------------------------
# shared context


class Ctx:
    def __init__(self, corpus: Corpus):
        self.corpus = corpus
        self.base = corpus.mod("mdit_to_docutils.base")
        fn = corpus.find_function(self.base.resolve("html_to_nodes"))
        if fn is None:
            raise AnchorMissing("html_to_nodes (as imported by mdit_to_docutils.base) not found")
        if len(fn.params) < 3:
            raise Unsupported("html_to_nodes signature is not (text, line, renderer)")
        # the entry point may be a thin wrapper (e.g. catching RecursionError) around the function that does the work:
        # the rules then read the *core* (the function that tokenizes the text); the wrapper gets its own checks
        self.entry: FunctionInfo = fn
        self.entry_text = fn.params[0]
        self.delegate: ast.Call | None = None
        core, names = fn, list(fn.params[:3])

        def tokenizes(f: FunctionInfo) -> bool:
            for c in f.local_nodes():
                if isinstance(c, ast.Call) and dotted(c.func):
                    g = corpus.find_function(f.module.resolve(dotted(c.func)))
                    if g is not None and g.module.name.endswith("parse_html"):
                        return True
                if isinstance(c, ast.Call) and isinstance(c.func, ast.Attribute) and c.func.attr == "feed":
                    return True
            return False

        if not tokenizes(fn):
            cands = []
            for c in fn.local_nodes():
                if isinstance(c, ast.Call) and isinstance(c.func, ast.Name) and c.func.id in fn.module.functions:
                    g = fn.module.functions[c.func.id]
                    pos = [next((i for i, a in enumerate(c.args) if isinstance(a, ast.Name) and a.id == p_), None) for p_ in fn.params[:3]]
                    if None not in pos and not g.is_lambda and all(i < len(g.params) for i in pos) and tokenizes(g):
                        cands.append((c, g, pos))
            if len(cands) != 1:
                raise Unsupported(f"html_to_nodes neither tokenizes the text nor delegates to one function that does ({len(cands)} candidates)")
            self.delegate, core, pos = cands[0]
            names = [core.params[i] for i in pos]
        fn = core
        self.fi: FunctionInfo = fn
        self.mod: Module = fn.module
        self.p_text, self.p_line, self.p_renderer = names
        self.cfg = get_cfg(fn)
        self.renderer_cls = corpus.cls("mdit_to_docutils.base:DocutilsRenderer")
        rd = corpus.lookup_method(self.renderer_cls, "run_directive")
        if rd is None:
            raise AnchorMissing("DocutilsRenderer.run_directive not found")
        self.run_directive = rd
        ps = rd.params[1:] if rd.params and rd.params[0] == "self" else rd.params
        for need in ("name", "first_line", "content"):
            if need not in ps:
                raise Unsupported(f"run_directive has no parameter {need!r}")
        self.rd_idx = {n: ps.index(n) for n in ("name", "first_line", "content")}
        # the attribute of parse_html.Element that holds the attribute mapping
        el = corpus.cls("parsers.parse_html:Element")
        init = el.methods.get("__init__")
        names = []
        if init is not None:
            for n in walk_local(init.node):
                tgt = n.targets[0] if isinstance(n, ast.Assign) else (n.target if isinstance(n, ast.AnnAssign) else None)
                val = getattr(n, "value", None)
                if isinstance(tgt, ast.Attribute) and dotted(tgt.value) == "self" and isinstance(val, ast.Call) and dotted(val.func) == "Attribute":
                    names.append(tgt.attr)
        if len(names) != 1:
            raise Unsupported("Element.__init__ does not store exactly one Attribute(...) mapping")
        self.attrs_name = names[0]

    # -- calls of renderer.run_directive inside html_to_nodes ------------------
    def sinks(self) -> list[tuple[FunctionInfo, ast.Call]]:
        """``<renderer>.run_directive(...)`` calls in html_to_nodes and in the helpers of its module
        (receiver: a parameter of the function the call sits in)."""
        out = []
        for fn in self.mod.functions.values():
            if fn.is_lambda:
                continue
            for n in fn.local_nodes():
                if isinstance(n, ast.Call) and isinstance(n.func, ast.Attribute) and n.func.attr == self.run_directive.name:
                    root = n.func.value
                    if isinstance(root, ast.Name) and root.id in fn.params and (fn is not self.fi or root.id == self.p_renderer):
                        out.append((fn, n))
        out.sort(key=lambda fc: (fc[1].lineno, fc[1].col_offset))
        return out

    def h2n_stmts_of(self, fn: FunctionInfo, call: ast.Call) -> list[ast.stmt]:
        """CFG statements of html_to_nodes at which the sink executes: the call itself, or the call sites of the helper it sits in."""
        if fn is self.fi:
            return [self.cfg.stmt_of(call)]
        out = []
        for n in self.fi.local_nodes():
            if isinstance(n, ast.Call) and isinstance(n.func, ast.Name) and n.func.id == fn.name and fn.parent_func is None and fn.cls is None:
                out.append(self.cfg.stmt_of(n))
        if not out:
            raise Unsupported(f"helper {fn.qualname} calls run_directive but html_to_nodes does not call it directly")
        return out

    def sink_name(self, call: ast.Call) -> str:
        a = arg_or_kw(call, self.rd_idx["name"], "name")
        if not (isinstance(a, ast.Constant) and isinstance(a.value, str)):
            raise Unsupported(f"run_directive name is not a literal: {short(call, 60)}")
        return a.value

    def defs_of(self, name: str) -> list[ast.expr]:
        return self.defs_in(self.fi, name)

    def defs_in(self, fn: FunctionInfo, name: str) -> list[ast.expr]:
        """Values assigned to a local name by plain ``name = value`` statements; Unsupported for other stores."""
        out = []
        for n in fn.local_nodes():
            if isinstance(n, ast.Name) and n.id == name and isinstance(n.ctx, ast.Store):
                p = parent(n)
                if isinstance(p, ast.Assign) and n in p.targets:
                    out.append(p.value)
                elif isinstance(p, ast.AnnAssign) and p.value is not None:
                    out.append(p.value)
                else:
                    out.append(p)  # tuple target, for target, ...: returned as the storing node itself
        return out


def _ctx(corpus: Corpus) -> Ctx:
    return corpus.cache("c17-ctx", lambda: Ctx(corpus))


def _resolves(mod: Module, func: ast.expr, *targets: str) -> bool:
    d = dotted(func)
    return bool(d) and mod.resolve(d) in targets


# ---------------------------------------------------------------------------
# the GFM filter statement (shared by R1 and R2)


class Filter:
    def __init__(self, cx: Ctx, fn: FunctionInfo | None = None, p_text: str | None = None):
        self.stmt: ast.stmt | None = None
        self.fn = fn or cx.fi
        self.p_text = p_text or cx.p_text
        self.cfg = get_cfg(self.fn)
        cands = []
        for n in self.fn.local_nodes():
            if isinstance(n, ast.Call) and isinstance(n.func, ast.Attribute) and n.func.attr in ("sub", "subn"):
                recv = n.func.value
                if isinstance(recv, ast.Name) and recv.id in cx.mod.const_nodes:
                    cv = cx.mod.const_nodes[recv.id]
                    if isinstance(cv, ast.Call) and _resolves(cx.mod, cv.func, "re.compile"):
                        cands.append((n, recv.id, cv))
        if not cands:
            return
        if len(cands) > 1:
            raise Unsupported("more than one regex substitution in html_to_nodes")
        self.call, self.regex_name, self.compile_call = cands[0]
        self.is_subn = self.call.func.attr == "subn"
        self.stmt = self.cfg.stmt_of(self.call)
        self.repl = arg_or_kw(self.call, 0, "repl")
        self.string = arg_or_kw(self.call, 1, "string")
        self.count = arg_or_kw(self.call, 2, "count")
        # target of the substitution result
        st = self.stmt
        self.target: str | None = None
        if isinstance(st, ast.Assign) and len(st.targets) == 1 and st.value is self.call:
            t = st.targets[0]
            if self.is_subn and isinstance(t, ast.Tuple) and t.elts and isinstance(t.elts[0], ast.Name):
                self.target = t.elts[0].id
            elif not self.is_subn and isinstance(t, ast.Name):
                self.target = t.id
        if self.target is None:
            raise Unsupported(f"GFM filter result is not stored by a plain assignment: {short(st, 80)}")
        p = parent(st)
        self.if_stmt = p if isinstance(p, ast.If) and st in p.body else None


def _filter_core(corpus: Corpus) -> Filter:
    """the filter statement inside the core function (may be absent: ``.stmt is None``)"""
    return corpus.cache("c17-filter-core", lambda: Filter(_ctx(corpus)))


def _filter(corpus: Corpus) -> Filter:
    """the GFM filter, wherever it lives: in the core function, else in the wrapper in front of it"""

    def build():
        cx = _ctx(corpus)
        f = _filter_core(corpus)
        if f.stmt is None and cx.entry is not cx.fi:
            g = Filter(cx, cx.entry, cx.entry_text)
            if g.stmt is not None:
                return g
        return f

    return corpus.cache("c17-filter", build)


# ---------------------------------------------------------------------------
# R1 pass-through paths, gate, dispatch, callers


def _raw_maker(cx: Ctx, fn: FunctionInfo, rep: Report) -> int | None:
    """Check a pass-through constructor; return the index of its text parameter."""
    m = fn.module
    raws = [n for n in fn.local_nodes() if isinstance(n, ast.Call) and _resolves(m, n.func, "docutils.nodes.raw")]
    if len(raws) != 1:
        raise Unsupported(f"{fn.qualname}: expected exactly one nodes.raw(...) construction, found {len(raws)}")
    raw = raws[0]
    site = m.site(raw)
    k = f"{fn.fq}|raw node text"
    t = arg_or_kw(raw, 1, "text")
    stores = [n for n in fn.local_nodes() if isinstance(n, ast.Name) and isinstance(n.ctx, ast.Store) and isinstance(t, ast.Name) and n.id == t.id]
    if not (isinstance(t, ast.Name) and t.id in fn.params):
        if t is None or isinstance(t, (ast.Call, ast.BinOp, ast.JoinedStr, ast.Subscript, ast.Constant)):
            rep.violation("C17.R1", k, site, f"the raw node's text is `{short(t, 50) if t is not None else 'missing'}`, not the text handed in: pass-through is no longer verbatim")
            idx = None
            for n in ast.walk(t) if t is not None else []:
                if isinstance(n, ast.Name) and n.id in fn.params:
                    idx = fn.params.index(n.id)
            return idx
        raise Unsupported(f"{fn.qualname}: raw node text `{short(t, 50)}` is not a parameter")
    if stores:
        rep.violation("C17.R1", k, m.site(stores[0]), f"`{t.id}` is rebound in {fn.qualname} before it becomes the raw node's text")
    else:
        rep.ok("C17.R1", k, site, f"nodes.raw(..., {t.id}, ...) with the parameter unchanged")
    f = kwarg(raw, "format")
    k = f"{fn.fq}|raw node format"
    if isinstance(f, ast.Constant) and f.value == "html":
        rep.ok("C17.R1", k, site)
    elif isinstance(f, ast.Constant) or f is None:
        rep.violation("C17.R1", k, site, f"raw node format is {unparse(f) if f is not None else 'missing'}, not 'html': HTML writers will not emit it")
    else:
        raise Unsupported(f"{fn.qualname}: raw format is not a literal")
    # returns: exactly the one raw node
    k = f"{fn.fq}|returns exactly the raw node"
    rets = [n for n in fn.local_nodes() if isinstance(n, ast.Return)]
    if not rets:
        raise Unsupported(f"{fn.qualname} has no return")
    for r in rets:
        v = r.value
        if isinstance(v, ast.List) and len(v.elts) == 1 and _is_the_raw(v.elts[0], raw, fn):
            rep.ok("C17.R1", k, m.site(r))
        elif isinstance(v, ast.List) and any(_is_the_raw(e, raw, fn) for e in v.elts):
            rep.violation("C17.R1", k, m.site(r), f"pass-through returns {len(v.elts)} nodes, not the one raw node")
        elif isinstance(v, ast.List):
            rep.violation("C17.R1", k, m.site(r), "pass-through does not return the raw node it built")
        else:
            raise Unsupported(f"{fn.qualname}: return shape `{short(r, 60)}` not understood")
    for n in fn.local_nodes():
        if isinstance(n, ast.Assign) and isinstance(n.targets[0], ast.Attribute) and n.targets[0].attr in ("source", "line"):
            rep.listed("C17.R1", f"{fn.fq}|stamp {n.targets[0].attr}", m.site(n), unparse(n))
    return fn.params.index(t.id)


def _builds_raw(callee: FunctionInfo) -> bool:
    return any(isinstance(c, ast.Call) and _resolves(callee.module, c.func, "docutils.nodes.raw") for c in callee.local_nodes())


def _forwarder(cx: Ctx, callee: FunctionInfo):
    """A plain function without a nodes.raw of its own whose every return is `[other nodes +] constructor(<one of its parameters>, ...)`
    with that parameter never rebound and not used in the other summands: (constructor, index of the text parameter) - else None."""

    def build():
        if callee.is_lambda or callee.cls is not None or callee.parent_func is not None or _builds_raw(callee):
            return None
        rets = [n for n in callee.local_nodes() if isinstance(n, ast.Return)]
        if not rets:
            return None
        found = set()
        for r in rets:
            if r.value is None:
                return None
            parts = _split_add(r.value)
            hits = []
            for p_ in parts:
                if isinstance(p_, ast.Call) and dotted(p_.func):
                    g = cx.corpus.find_function(callee.module.resolve(dotted(p_.func)))
                    if g is not None and not g.is_lambda and _builds_raw(g):
                        hits.append((p_, g))
            if len(hits) != 1:
                return None
            call, g = hits[0]
            raws = [n for n in g.local_nodes() if isinstance(n, ast.Call) and _resolves(g.module, n.func, "docutils.nodes.raw")]
            t = arg_or_kw(raws[0], 1, "text") if len(raws) == 1 else None
            if not (isinstance(t, ast.Name) and t.id in g.params):
                return None
            a = arg_or_kw(call, g.params.index(t.id), t.id)
            if not (isinstance(a, ast.Name) and a.id in callee.params):
                return None
            if any(isinstance(x, ast.Name) and x.id == a.id for o in parts if o is not call for x in ast.walk(o)):
                return None
            found.add((g.fq, a.id))
        if len(found) != 1:
            return None
        gfq, name = next(iter(found))
        if any(isinstance(n, ast.Name) and n.id == name and isinstance(n.ctx, ast.Store) for n in callee.local_nodes()):
            return None
        g = next(f for f in cx.corpus.all_functions() if f.fq == gfq)
        return g, callee.params.index(name)

    return cx.corpus.cache(f"c17-forwarder|{callee.fq}", build)


def _emits_raw(cx: Ctx, callee: FunctionInfo) -> bool:
    """the callee puts text into a raw node: a pass-through constructor, or a helper that forwards one of its parameters to one"""
    return _builds_raw(callee) or _forwarder(cx, callee) is not None


def _emitted_text_arg(cx: Ctx, call: ast.Call, callee: FunctionInfo | None):
    fw = _forwarder(cx, callee) if callee is not None else None
    if fw is not None:
        return arg_or_kw(call, fw[1], callee.params[fw[1]])
    return call.args[0] if call.args else None


def _is_the_raw(e: ast.expr, raw: ast.Call, fn: FunctionInfo) -> bool:
    if e is raw:
        return True
    if isinstance(e, ast.Name):
        defs = [n for n in fn.local_nodes() if isinstance(n, ast.Assign) and any(isinstance(t, ast.Name) and t.id == e.id for t in n.targets)]
        return len(defs) == 1 and defs[0].value is raw
    return False


def _core_text_params(cx: Ctx) -> dict[str, str]:
    """core parameter -> "text" (the wrapper's text variable, filtered in place or not at all) | "filtered" (a separate
    GFM-filtered copy made by the wrapper) | "unfiltered" (the wrapper's text while a separate filtered copy exists)"""

    def build():
        out = {cx.p_text: "text"}
        if cx.delegate is None:
            return out
        ef = Filter(cx, cx.entry, cx.entry_text)
        fvar = ef.target if ef.stmt is not None else None
        separate = fvar is not None and fvar != cx.entry_text
        for i, a in enumerate(cx.delegate.args):
            if isinstance(a, ast.Name) and i < len(cx.fi.params):
                if a.id == cx.entry_text:
                    out[cx.fi.params[i]] = "unfiltered" if separate else "text"
                elif separate and a.id == fvar:
                    out[cx.fi.params[i]] = "filtered"
        for k_ in cx.delegate.keywords:
            if isinstance(k_.value, ast.Name) and k_.arg in cx.fi.params:
                if k_.value.id == cx.entry_text:
                    out[k_.arg] = "unfiltered" if separate else "text"
                elif separate and k_.value.id == fvar:
                    out[k_.arg] = "filtered"
        return out

    return cx.corpus.cache("c17-core-text-params", build)


def _is_source_text(cx: Ctx, flt: Filter, e: ast.expr, depth: int = 0) -> bool | None:
    """True: the (optionally filtered) text parameter; False: a computed string; None: not understood."""
    if depth > 4:
        return None
    if isinstance(e, ast.Name):
        if e.id == cx.p_text or e.id in _core_text_params(cx):
            return True  # the document's text, as written or as a filtered copy made by the wrapper (which one: R2)
        if e.id in cx.fi.params:
            return False
        defs = cx.defs_of(e.id)
        if not defs:
            return None
        res = []
        for d in defs:
            if flt.stmt is not None and (d is flt.call or d is flt.stmt or (not isinstance(d, ast.expr) or isinstance(d, ast.Tuple)) and _stmt_of_safe(cx, d) is flt.stmt):
                res.append(True)
            elif isinstance(d, ast.expr):
                res.append(_is_source_text(cx, flt, d, depth + 1))
            else:
                res.append(None)
        if all(r is True for r in res):
            return True
        if any(r is False for r in res):
            return False
        return None
    if isinstance(e, ast.IfExp):
        a, b = _is_source_text(cx, flt, e.body, depth + 1), _is_source_text(cx, flt, e.orelse, depth + 1)
        if a is True and b is True:
            return True
        return False if (a is False or b is False) else None
    if flt.stmt is not None and e is flt.call and not flt.is_subn:
        return True
    if isinstance(e, (ast.Call, ast.BinOp, ast.JoinedStr, ast.Subscript, ast.Constant, ast.Attribute)):
        return False
    return None


def _stmt_of_safe(cx: Ctx, n: ast.AST, cfg=None):
    try:
        return (cfg or cx.cfg).stmt_of(n)
    except Unsupported:
        return None


def _where(st: ast.AST) -> str:
    """Line-free description of where a statement sits (innermost enclosing compound statement)."""
    p = parent(st)
    if isinstance(p, ast.If):
        return ("if " if st in p.body else "else of ") + short(p.test, 50)
    if isinstance(p, ast.ExceptHandler):
        return "except " + (short(p.type, 30) if p.type is not None else "")
    if isinstance(p, ast.Try):
        return "try" if st in p.body else ("finally" if st in p.finalbody else "try-else")
    if isinstance(p, (ast.For, ast.While)):
        return "loop " + short(p.iter if isinstance(p, ast.For) else p.test, 40)
    if isinstance(p, ast.With):
        return "with " + short(p.items[0].context_expr, 40)
    return "top level"


class _Subst(ast.NodeTransformer):
    def __init__(self, mapping):
        self.mapping = mapping

    def visit_Name(self, node):
        if isinstance(node.ctx, ast.Load) and node.id in self.mapping:
            return self.mapping[node.id]
        return node


def _body_as_expr(stmts: list[ast.stmt]):
    """``if T: return A`` ... ``return B`` (locals bound once substituted) as one expression, or None."""
    import copy

    stmts = [st for st in stmts if not (isinstance(st, ast.Expr) and isinstance(st.value, ast.Constant))]
    if not stmts:
        return None
    st, rest = stmts[0], stmts[1:]
    if isinstance(st, ast.Return):
        return st.value
    if isinstance(st, ast.If):
        b_ = _body_as_expr(st.body)
        o_ = _body_as_expr(st.orelse) if st.orelse else _body_as_expr(rest)
        if b_ is None or o_ is None:
            return None
        return ast.IfExp(test=st.test, body=b_, orelse=o_)
    if isinstance(st, (ast.Assign, ast.AnnAssign)) and st.value is not None:
        tgt = st.targets[0] if isinstance(st, ast.Assign) and len(st.targets) == 1 else (st.target if isinstance(st, ast.AnnAssign) else None)
        if isinstance(tgt, ast.Name):
            r_ = _body_as_expr(rest)
            if r_ is None:
                return None
            if any(isinstance(x, ast.Name) and x.id == tgt.id and isinstance(x.ctx, ast.Store) for s_ in rest for x in ast.walk(s_)):
                return None
            return _Subst({tgt.id: st.value}).visit(copy.deepcopy(r_))
    return None


def _expand(cx: Ctx, e: ast.expr, depth: int = 0) -> ast.expr:
    """Inline calls of small pure helpers of the module (a chain of ``if T: return A`` and a final ``return B``,
    locals bound once), parameters substituted."""
    import copy

    if depth > 3:
        return e
    if isinstance(e, ast.Call) and isinstance(e.func, ast.Name) and not any(isinstance(a, ast.Starred) for a in e.args):
        fn = cx.mod.functions.get(e.func.id)
        if fn is not None and not fn.is_lambda and fn.cls is None and fn.parent_func is None:
            a = fn.node.args
            body = _body_as_expr(fn.node.body)
            if body is not None and not a.vararg and not a.kwarg:
                names = [x.arg for x in a.posonlyargs + a.args + a.kwonlyargs]
                mapping = dict(zip(names, e.args))
                for kw in e.keywords:
                    if kw.arg in names:
                        mapping[kw.arg] = kw.value
                dn = [x.arg for x in a.posonlyargs + a.args]
                for nm, dv in zip(dn[len(dn) - len(a.defaults):], a.defaults):
                    mapping.setdefault(nm, dv)
                for nm, dv in zip([x.arg for x in a.kwonlyargs], a.kw_defaults):
                    if dv is not None:
                        mapping.setdefault(nm, dv)
                if set(mapping) >= set(names):
                    inl = _Subst(mapping).visit(copy.deepcopy(body))
                    return _expand(cx, inl, depth + 1)
        return e
    if isinstance(e, ast.Name) and isinstance(e.ctx, ast.Load) and e.id not in cx.fi.params:
        # a flag bound once to a boolean combination: `on = not inline and "ext" in cfg.enable_extensions`
        defs = cx.defs_of(e.id)
        if len(defs) == 1 and isinstance(defs[0], (ast.BoolOp, ast.UnaryOp)) and hasattr(defs[0], "_parent"):
            return _expand(cx, defs[0], depth + 1)
        return e
    if isinstance(e, ast.BoolOp):
        return ast.BoolOp(op=e.op, values=[_expand(cx, v, depth) for v in e.values])
    if isinstance(e, ast.UnaryOp) and isinstance(e.op, ast.Not):
        return ast.UnaryOp(op=e.op, operand=_expand(cx, e.operand, depth))
    if isinstance(e, ast.IfExp):
        return ast.IfExp(test=_expand(cx, e.test, depth), body=_expand(cx, e.body, depth), orelse=_expand(cx, e.orelse, depth))
    return e


def _dnf(cx: Ctx, e: ast.expr, neg: bool = False) -> list[list[ast.expr]]:
    """Disjunctive normal form of a condition (negation pushed to the atoms; a negated atom is kept as ``not atom``)."""
    e = _expand(cx, e)

    def cross(parts):
        out = [[]]
        for p_ in parts:
            out = [a + b for a in out for b in p_]
            if len(out) > 64:
                raise Unsupported("gate condition too large")
        return out

    if isinstance(e, ast.UnaryOp) and isinstance(e.op, ast.Not):
        return _dnf(cx, e.operand, not neg)
    if isinstance(e, ast.Constant) and isinstance(e.value, bool):
        return [[]] if (e.value != neg) else []
    if isinstance(e, ast.BoolOp):
        is_or = isinstance(e.op, ast.Or) != neg  # De Morgan
        parts = [_dnf(cx, v, neg) for v in e.values]
        return [c for p_ in parts for c in p_] if is_or else cross(parts)
    if isinstance(e, ast.IfExp):
        # (T and X) or (not T and Y); negated: (T and not X) or (not T and not Y)
        t, nt = _dnf(cx, e.test, False), _dnf(cx, e.test, True)
        return cross([t, _dnf(cx, e.body, neg)]) + cross([nt, _dnf(cx, e.orelse, neg)])
    return [[ast.UnaryOp(op=ast.Not(), operand=e)]] if neg else [[e]]


def _find_gate(cx: Ctx, pt_returns) -> dict:
    from ..flow import facts

    fi, cfg = cx.fi, cx.cfg
    found = []
    # form 1: all()/any() over a generator in an `if` test
    for n in fi.local_nodes():
        if not isinstance(n, ast.If):
            continue
        test = _expand(cx, n.test)
        tests = test.values if isinstance(test, ast.BoolOp) and isinstance(test.op, ast.Or) else [test]
        for t in tests:
            q = t.operand if isinstance(t, ast.UnaryOp) and isinstance(t.op, ast.Not) else t
            q = _expand(cx, q)
            if isinstance(q, ast.Call) and isinstance(q.func, ast.Name) and q.func.id in ("all", "any") and q.args and isinstance(q.args[0], (ast.GeneratorExp, ast.ListComp)):
                if not (isinstance(t, ast.UnaryOp) and n.body and n.body[-1] in pt_returns and not n.orelse):
                    raise Unsupported(f"gate is not `if [... or] not all(...): return <pass-through>`: {short(n.test, 60)}")
                gen = q.args[0]
                if len(gen.generators) != 1 or gen.generators[0].ifs or not isinstance(gen.generators[0].target, ast.Name):
                    raise Unsupported("gate generator filters or nests its iteration")
                found.append({"node": n, "quant": q.func.id, "var": gen.generators[0].target.id, "root": unparse(gen.generators[0].iter), "fedge": ("F", n), "disjuncts": _dnf(cx, gen.elt), "form": "all(...) in an if test"})
    # form 2: a loop over the elements that returns the pass-through unless an element is accepted
    for n in fi.local_nodes():
        if not (isinstance(n, ast.For) and isinstance(n.target, ast.Name) and not n.orelse):
            continue
        inner = [x for st in n.body for x in ast.walk(st) if isinstance(x, ast.stmt)]
        rets = [x for x in inner if isinstance(x, ast.Return)]
        if not rets or not all(r in pt_returns for r in rets):
            continue
        if not all(isinstance(x, (ast.If, ast.Continue, ast.Return, ast.Pass)) or (isinstance(x, ast.Expr) and isinstance(x.value, ast.Constant)) for x in inner):
            raise Unsupported(f"loop with a pass-through return does more than test its elements: for {n.target.id} in {short(n.iter, 30)}")
        # enumerate the paths of one iteration: accepted (back to the loop header) or rejected (pass-through return)
        accepted: list[list[tuple[ast.expr, bool]]] = []
        stack = [(("T", n), [])]
        steps = 0
        while stack:
            node, fs = stack.pop()
            steps += 1
            if steps > 500:
                raise Unsupported("gate loop has too many paths")
            for nx in cfg.succ.get(node, []):
                if nx is n:
                    accepted.append(fs)
                elif isinstance(nx, ast.Return):
                    continue
                elif isinstance(nx, tuple) and nx[0] in ("T", "F") and isinstance(nx[1], ast.If):
                    stack.append((nx, fs + facts(nx[1].test, nx[0] == "T")))
                elif isinstance(nx, ast.stmt) and nx in inner:
                    stack.append((nx, fs))
                else:
                    raise Unsupported(f"gate loop leaves its body in an unexpected way ({type(nx).__name__})")
        if not accepted:
            raise Unsupported("gate loop accepts no element")
        disjuncts = []
        for fs in accepted:
            pos = [t for t, pol in fs if pol]
            if not pos:
                raise Unsupported("gate loop accepts an element on a path with no positive test (only negated conditions)")
            # negative facts only narrow the path (A or (not A and B) == A or B): the positive part over-approximates it
            conj = [[]]
            for t in pos:
                conj = [a + b for a in conj for b in _dnf(cx, t)]
            disjuncts.extend(conj)
        found.append({"node": n, "quant": "all", "var": n.target.id, "root": unparse(n.iter), "fedge": ("F", n), "disjuncts": disjuncts, "form": "loop with continue / pass-through return"})
    if not found:
        raise Unsupported("no convertibility gate (`all(<convertible> for child in root)` or the equivalent loop) found in html_to_nodes")
    if len(found) > 1:
        raise Unsupported("more than one convertibility gate in html_to_nodes")
    return found[0]


def _inline_closure(cx: Ctx, e: ast.expr):
    if not (isinstance(e, ast.Call) and isinstance(e.func, ast.Name) and not e.args and not e.keywords):
        return None
    fn = cx.mod.functions.get(f"{cx.fi.qualname}.{e.func.id}")
    if fn is None or fn.is_lambda or fn.params:
        return None
    if sum(1 for x in cx.fi.node.body for y in ast.walk(x) if isinstance(y, (ast.FunctionDef, ast.AsyncFunctionDef)) and y.name == e.func.id) != 1:
        raise Unsupported(f"local function {e.func.id} is defined more than once")
    body = [st for st in fn.node.body if not (isinstance(st, ast.Expr) and isinstance(st.value, ast.Constant))]
    if len(body) != 1 or not isinstance(body[0], ast.Return) or body[0].value is None:
        return None
    if any(isinstance(x, (ast.Nonlocal, ast.Global)) for x in ast.walk(fn.node)) or any(isinstance(x, ast.Name) and isinstance(x.ctx, ast.Store) for x in ast.walk(body[0])):
        raise Unsupported(f"local function {e.func.id} rebinds variables")
    return body[0].value


def _split_add(e: ast.expr) -> list[ast.expr]:
    """the summands of a list expression: ``a + b`` and ``[x, *b]`` (= ``[x] + b``)"""
    if isinstance(e, ast.BinOp) and isinstance(e.op, ast.Add):
        return _split_add(e.left) + _split_add(e.right)
    if isinstance(e, (ast.List, ast.Tuple)) and any(isinstance(x, ast.Starred) for x in e.elts):
        out: list[ast.expr] = []
        for x in e.elts:
            if isinstance(x, ast.Starred):
                out.extend(_split_add(x.value))
            else:
                out.append(ast.List(elts=[x], ctx=ast.Load()))
        return out
    return [e]


def _ext_of_flag(cx: Ctx, e: ast.expr) -> str | None:
    """``"html_image" in renderer.md_config.enable_extensions`` (inline or through one local) -> "html_image"."""
    if isinstance(e, ast.Name):
        defs = cx.defs_of(e.id)
        if len(defs) == 1 and isinstance(defs[0], ast.expr):
            return _ext_of_flag(cx, defs[0])
        return None
    if isinstance(e, ast.Compare) and len(e.ops) == 1 and isinstance(e.ops[0], ast.In) and isinstance(e.left, ast.Constant) and isinstance(e.left.value, str):
        d = dotted(e.comparators[0]) or ""
        if d.split(".")[0] == cx.p_renderer and d.endswith(".enable_extensions"):
            return e.left.value
    return None


def _name_test(e: ast.expr, var: str | None = None) -> tuple[str, str] | None:
    """``child.name == "img"`` -> ("child", "img")"""
    if isinstance(e, ast.Compare) and len(e.ops) == 1 and isinstance(e.ops[0], ast.Eq):
        a, b = e.left, e.comparators[0]
        if isinstance(a, ast.Constant):
            a, b = b, a
        if isinstance(a, ast.Attribute) and a.attr == "name" and isinstance(a.value, ast.Name) and isinstance(b, ast.Constant) and isinstance(b.value, str):
            if var is None or a.value.id == var:
                return a.value.id, b.value
    return None


@rule("C17.R1")
def r1_pass_through(corpus: Corpus, rep: Report, tier: str):
    rep.rule("C17.R1", "non-converting paths return the unmodified source text as one raw html node; conversion only behind the all(img|div.admonition & extension) gate; handlers pass token.content and attach every node")
    cx = _ctx(corpus)
    flt = _filter_core(corpus)
    fi, m, cfg = cx.fi, cx.mod, cx.cfg
    rep.saw_function(fi.fq)
    # (a0) a wrapper in front of the core function only delegates or passes its own text through unchanged
    if cx.entry is not fi:
        ent = cx.entry
        rep.saw_function(ent.fq)
        eflt = Filter(cx, ent, cx.entry_text)
        ecfg = get_cfg(ent)
        for n in ent.local_nodes():
            if isinstance(n, ast.Name) and n.id == cx.entry_text and isinstance(n.ctx, ast.Store):
                st = ecfg.stmt_of(n)
                k = f"{ent.fq}|store to {cx.entry_text}|{short(st, 80)}"
                if eflt.stmt is not None and st is eflt.stmt:
                    rep.ok("C17.R1", k, m.site(st), "the GFM filter (judged by R2)")
                else:
                    rep.violation("C17.R1", k, m.site(st), f"`{short(st, 70)}` changes the source text in the wrapper: neither the conversion nor the pass-through sees exactly the document's HTML")
        for r in sorted((n for n in ent.local_nodes() if isinstance(n, ast.Return)), key=lambda n: n.lineno):
            k = f"{ent.fq}|return|{short(r, 100)}|{_where(r)}"
            parts = _split_add(r.value) if r.value is not None else []
            if len(parts) == 1 and parts[0] is cx.delegate:
                rep.ok("C17.R1", k, m.site(r), f"delegates (text, line, renderer) to {fi.name}")
                continue
            pts = []
            for p_ in parts:
                if isinstance(p_, ast.Call) and dotted(p_.func) and p_ is not cx.delegate:
                    callee = corpus.find_function(m.resolve(dotted(p_.func)))
                    if callee is not None and _emits_raw(cx, callee):
                        pts.append(p_)
            if not pts and not any(p_ is cx.delegate for p_ in parts):
                rep.violation("C17.R1", k, m.site(r), f"`{short(r, 60)}` ({_where(r)}) in the wrapper returns without the raw node: on this path the HTML is dropped from the document instead of passing through (e.g. when the warning that accompanies it is suppressed)")
                continue
            if len(pts) != 1 or any(p_ is cx.delegate for p_ in parts):
                raise Unsupported(f"wrapper return not understood: {short(r, 70)}")
            a0 = _emitted_text_arg(cx, pts[0], corpus.find_function(m.resolve(dotted(pts[0].func))))
            efl = Filter(cx, ent, cx.entry_text)
            efvar = efl.target if efl.stmt is not None else None
            if isinstance(a0, ast.Name) and (a0.id == cx.entry_text or (efvar is not None and a0.id == efvar and all((isinstance(d, ast.Name) and d.id == cx.entry_text) or d is efl.call or (isinstance(d, ast.Tuple) and _stmt_of_safe(cx, d, efl.cfg) is efl.stmt) for d in cx.defs_in(ent, efvar)))):
                rep.ok("C17.R1", k, m.site(r), f"pass-through of `{a0.id}`")
            elif isinstance(a0, (ast.Call, ast.BinOp, ast.JoinedStr, ast.Subscript, ast.Constant, ast.Attribute)):
                rep.violation("C17.R1", k, m.site(r), f"the wrapper passes `{short(a0, 40)}` through instead of its source text parameter `{cx.entry_text}`")
            else:
                raise Unsupported(f"wrapper pass-through argument not understood: {short(r, 70)}")
    # (a) stores to the text parameter: only the GFM filter
    for n in fi.local_nodes():
        if isinstance(n, ast.Name) and n.id == cx.p_text and isinstance(n.ctx, ast.Store):
            st = cfg.stmt_of(n)
            k = f"{fi.fq}|store to {cx.p_text}|{short(st, 80)}"
            if flt.stmt is not None and st is flt.stmt:
                rep.ok("C17.R1", k, m.site(st), "the GFM filter (judged by R2)")
            else:
                rep.violation("C17.R1", k, m.site(st), f"`{short(st, 70)}` changes the source text before pass-through: the raw node no longer holds exactly the document's HTML")
    # (b) returns
    makers: dict[str, int | None] = {}
    returns = sorted((n for n in fi.local_nodes() if isinstance(n, ast.Return)), key=lambda r: r.lineno)
    pt_returns, other_returns = [], []
    for r in returns:
        if r.value is None:
            raise Unsupported("bare return in html_to_nodes")
        parts = []
        for p0 in _split_add(r.value):
            # a parameterless local closure `def _default(): return default_html(text, ...)` stands for its return value
            # (free variables are read when it is called, i.e. at this return)
            inl = _inline_closure(cx, p0)
            parts.extend(_split_add(inl) if inl is not None else [p0])
        pt_calls = []
        for p_ in parts:
            if isinstance(p_, ast.Call) and dotted(p_.func):
                callee = corpus.find_function(m.resolve(dotted(p_.func)))
                if callee is not None and _emits_raw(cx, callee):
                    fw = _forwarder(cx, callee)
                    if fw is not None:
                        # a helper that returns [its own nodes +] constructor(<its text parameter>, ...): the constructor is judged once,
                        # the helper stands for it with its own text parameter
                        if fw[0].fq not in makers:
                            rep.saw_function(fw[0].fq)
                            makers[fw[0].fq] = _raw_maker(cx, fw[0], rep)
                        if callee.fq not in makers:
                            rep.saw_function(callee.fq)
                            makers[callee.fq] = fw[1] if makers[fw[0].fq] is not None else None
                    if callee.fq not in makers:
                        rep.saw_function(callee.fq)
                        makers[callee.fq] = _raw_maker(cx, callee, rep)
                    pt_calls.append((p_, callee))
        if not pt_calls:
            other_returns.append(r)
            continue
        pt_returns.append(r)
        k = f"{fi.fq}|return|{short(r, 100)}|{_where(r)}"
        if len(pt_calls) > 1:
            rep.violation("C17.R1", k, m.site(r), "the source text is passed through more than once")
            continue
        call, callee = pt_calls[0]
        idx = makers[callee.fq]
        if idx is None:
            continue  # already reported in the constructor
        arg = arg_or_kw(call, idx, callee.params[idx])
        if arg is None:
            raise Unsupported(f"pass-through call without text argument: {short(call, 60)}")
        verdict = _is_source_text(cx, flt, arg)
        if verdict is True:
            others = [p_ for p_ in parts if p_ is not call]
            if any(isinstance(x, ast.Name) and x.id == cx.p_text for o in others for x in ast.walk(o)):
                rep.violation("C17.R1", k, m.site(r), "the source text also flows into a second node of the pass-through result")
            else:
                rep.ok("C17.R1", k, m.site(r), f"{callee.name}({unparse(arg)}, ...)")
        elif verdict is False:
            rep.violation("C17.R1", k, m.site(r), f"pass-through of `{short(arg, 50)}` instead of the source text parameter `{cx.p_text}`: a re-rendered or edited string is not exactly the document's HTML")
        else:
            raise Unsupported(f"cannot decide whether `{short(arg, 50)}` is the source text")
    if not makers:
        raise Unsupported("no pass-through constructor (function building nodes.raw) is returned by html_to_nodes")
    # (c) the gate: `if [.. or] not all(P(child) for child in root): return <pass-through>` or the same as a loop
    # (`for child in root: if P1: continue; if P2: continue; return <pass-through>`); P may live in a one-expression helper
    gate = _find_gate(cx, pt_returns)
    var, root_expr, fedge, gsite = gate["var"], gate["root"], gate["fedge"], m.site(gate["node"])
    k = f"{fi.fq}|gate|quantifier"
    if gate["quant"] == "all":
        rep.ok("C17.R1", k, gsite, f"every {var} in {root_expr} ({gate['form']})")
    else:
        rep.violation("C17.R1", k, gsite, "conversion starts when *any* top-level element is convertible: the other elements are fed to the admonition conversion instead of passing through")
    seen_tags = {}
    for conj in gate["disjuncts"]:
        d = conj[0] if len(conj) == 1 else ast.BoolOp(op=ast.And(), values=list(conj) or [ast.Constant(value=True)])
        ext = tag = cls = None
        negs: set[str] = set()
        for c in conj:
            if isinstance(c, ast.UnaryOp) and isinstance(c.op, ast.Not):
                if isinstance(c.operand, ast.Name):
                    negs.add(c.operand.id)
                continue  # a negated condition only narrows the alternative
            e_ = _ext_of_flag(cx, c)
            nt = _name_test(c, var)
            if e_ is not None and ext is None:
                ext = e_
            elif nt is not None and tag is None:
                tag = nt[1]
            elif isinstance(c, ast.Compare) and len(c.ops) == 1 and isinstance(c.ops[0], ast.In) and isinstance(c.left, ast.Constant) and isinstance(c.left.value, str) and cls is None and _class_expr_kind(cx, c.comparators[0], var) is not None:
                cls = c.left.value  # whether it is a word test is judged below (class tests)
            else:
                raise Unsupported(f"gate conjunct not understood: {short(c, 60)}")
        if tag is None:
            raise Unsupported(f"gate alternative without a (positive) tag-name test: {short(d, 60) if conj else 'always true'}")
        seen_tags[tag] = (ext, cls)
        gate.setdefault("negated", {}).setdefault(tag, []).append(negs)
        k = f"{fi.fq}|gate|<{tag}>"
        want = [(e_, v) for e_, v in CONVERTIBLE.items() if v[0] == tag]
        if not want:
            rep.violation("C17.R1", k, gsite, f"<{tag}> is not a convertible form, it must pass through as raw HTML")
        elif ext is None:
            rep.violation("C17.R1", k, gsite, f"<{tag}> is converted whether or not {want[0][0]} is enabled: with the extension off it must pass through as raw HTML")
        elif ext != want[0][0]:
            rep.violation("C17.R1", k, gsite, f"<{tag}> conversion is switched by {ext!r}, not by {want[0][0]!r}")
        elif cls != want[0][1][1]:
            rep.violation("C17.R1", k, gsite, f"<{tag}> is converted {'without requiring' if cls is None else 'requiring'} class {(want[0][1][1] or cls)!r}: " + ("every <div> becomes an admonition instead of passing through" if cls is None else "not the recognised form"))
        else:
            rep.ok("C17.R1", k, gsite, f"{ext} and {var}.name == {tag!r}" + (f" and {cls!r} in classes" if cls else ""))
    # non-pass-through returns and conversions lie behind the gate
    for r in other_returns:
        k = f"{fi.fq}|return|{short(r, 100)}|{_where(r)}"
        if cfg.dominates(fedge, r):
            rep.ok("C17.R1", k, m.site(r), "conversion/error result, only reachable when every top-level element is convertible")
        else:
            rep.violation("C17.R1", k, m.site(r), f"`{short(r, 70)}` returns without the raw node on a path that has not established that every top-level element is convertible: the HTML is dropped")
    # (d) dispatch: each directive only for its own tag, and iteration over the gated root
    sinks = cx.sinks()
    for sfn, call in sinks:
        name = cx.sink_name(call)
        want = [v for v in CONVERTIBLE.values() if v[2] == name]
        site = m.site(call)
        if not want:
              rep.violation("C17.R1", f"{fi.fq}|dispatch|{name}", site, f"HTML is converted to the {name!r} directive, which is not one of the recognised conversions")
              continue
        for st in cx.h2n_stmts_of(sfn, call):
            k = f"{fi.fq}|dispatch|{name}"
            tag = want[0][0]
            if not cfg.dominates(fedge, st):
                rep.violation("C17.R1", k, site, f"run_directive({name!r}) is reachable without passing the convertibility gate")
                continue
            loop = cfg.loops.get(st)
            while loop is not None and not (isinstance(loop, ast.For) and unparse(loop.iter) == root_expr):
                loop = cfg.loops.get(loop)
            if loop is None or not isinstance(loop.target, ast.Name):
                raise Unsupported(f"run_directive({name!r}) is not inside a loop over the gated elements `{root_expr}`")
            lv = loop.target.id
            gs = [( _name_test(t), pol) for t, pol in cfg.guards(st)]
            gs = [(nt, pol) for nt, pol in gs if nt is not None and nt[0] == lv]
            others = {v[0] for v in CONVERTIBLE.values()} - {tag}
            pos = any(pol and nt[1] == tag for nt, pol in gs)
            neg = others and all(any((not pol) and nt[1] == o for nt, pol in gs) for o in others)
            if pos or neg:
                rep.ok("C17.R1", k, site, f"only for <{tag}> children")
            elif any(pol and nt[1] != tag for nt, pol in gs) or any((not pol) and nt[1] == tag for nt, pol in gs):
                rep.violation("C17.R1", k, site, f"run_directive({name!r}) runs for a tag other than <{tag}>")
            else:
                raise Unsupported(f"cannot see which tag run_directive({name!r}) is restricted to")
    # (d2) every class test is a word test on the class list, not a substring test on the attribute text
    n_cls = 0
    for fn_ in [f_ for f_ in cx.mod.functions.values() if not f_.is_lambda]:
        for c in fn_.local_nodes():
            if isinstance(c, ast.Compare) and len(c.ops) == 1 and isinstance(c.ops[0], (ast.In, ast.NotIn)) and isinstance(c.left, ast.Constant) and isinstance(c.left.value, str):
                kind = _class_expr_kind(cx, c.comparators[0], None, fn_)
                if kind is None:
                    continue
                n_cls += 1
                k = f"{fn_.fq}|class test|{short(c, 70)}"
                if kind[0] == "tokens":
                    rep.ok("C17.R1", k, m.site(c), kind[1])
                elif kind[0] == "badsplit":
                    rep.violation("C17.R1", k, m.site(c), f"`{short(c, 60)}` tests class names that {kind[1]}: HTML separates class names by any ASCII white space, so `<div class=\"{c.left.value}\\ttip\">` (TAB, new line or form feed between the names) is one glued name, is not recognised as class {c.left.value!r} and passes through as raw HTML instead of being converted like the directive")
                else:
                    rep.violation("C17.R1", k, m.site(c), f"`{short(c, 60)}` is a substring test on {kind[1]}: class=\"{c.left.value}-x\" / \"my{c.left.value}\" count as class {c.left.value!r}, so HTML that is not the recognised form is converted (or its first child taken as the title) instead of passing through")
    if n_cls < 1:
        raise Unsupported("no class membership test found in the html_to_nodes module")
    # (d3) the fragment is tokenized by a parser that carries no state from earlier fragments
    _fresh_tokenizer(cx, rep)
    # (d4) between tokenizing and the gate nothing but white-space text is discarded; inner white space is kept
    _pre_gate_tree(cx, rep, gate)
    # (e) callers
    dotted_h2n = f"{cx.entry.module.name}.{cx.entry.qualname}"
    callers = []
    for f in corpus.all_functions():
        if f.is_lambda or f.fq in (fi.fq, cx.entry.fq):
            continue
        for c in f.local_nodes():
            if isinstance(c, ast.Call) and dotted(c.func) and f.module.resolve(dotted(c.func)) == dotted_h2n:
                callers.append((f, c))
    direct = set()
    for f, c in callers:
        rep.saw_call(f.module.site(c))
        k = f"{f.fq}|html_to_nodes text argument"
        a = c.args[0] if c.args else kwarg(c, cx.p_text)
        if isinstance(a, ast.Attribute) and a.attr == "content" and isinstance(a.value, ast.Name) and a.value.id in f.params:
            rep.ok("C17.R1", k, f.module.site(c), unparse(a))
        elif a is not None and isinstance(a, (ast.Call, ast.BinOp, ast.JoinedStr, ast.Subscript, ast.Attribute)):
            rep.violation("C17.R1", k, f.module.site(c), f"html_to_nodes is given `{short(a, 50)}`, not the token's content: the raw node cannot hold exactly the source text")
            continue
        else:
            raise Unsupported(f"html_to_nodes text argument not understood: {short(c, 60)}")
        k = f"{f.fq}|html_to_nodes result attached"
        if _attached_whole(f, c):
            rep.ok("C17.R1", k, f.module.site(c))
            direct.add(f.name)
        else:
            raise Unsupported(f"{f.qualname}: cannot see the node list of html_to_nodes being attached with extend/+=")
    for h in ("render_html_block", "render_html_inline"):
        meth = corpus.lookup_method(cx.renderer_cls, h)
        k = f"{cx.renderer_cls.fq}.{h}|routes to html_to_nodes"
        if meth is None:
            rep.violation("C17.R1", k, cx.base.site(cx.renderer_cls.node), f"no handler {h}: such tokens are not rendered as HTML")
            continue
        if meth.name in direct and meth.cls is not None:
            # on every path: a short-cut that emits the token itself bypasses the conversion gate and the GFM filter
            mcfg = get_cfg(meth)
            cstmts = [mcfg.stmt_of(c) for f_, c in callers if f_.fq == meth.fq]
            if mcfg.paths_avoiding("ENTRY", "EXIT", lambda x: any(x is cs for cs in cstmts)):
                rep.violation("C17.R1", k, meth.site(), f"{h} reaches its end on a path that does not call html_to_nodes: tokens taking that short-cut are emitted (or dropped) without the convertibility gate and without the GFM disallowed-tag filter, which lives in html_to_nodes")
            else:
                rep.ok("C17.R1", k, meth.site(), "calls html_to_nodes on every path")
            continue
        ok = False
        body = [s for s in meth.node.body if not (isinstance(s, ast.Expr) and isinstance(s.value, ast.Constant))]
        if len(body) == 1 and isinstance(body[0], (ast.Expr, ast.Return)) and isinstance(body[0].value, ast.Call):
            c = body[0].value
            tok = meth.params[1] if len(meth.params) > 1 else None
            if isinstance(c.func, ast.Attribute) and dotted(c.func.value) == "self" and c.func.attr in direct and len(c.args) == 1 and isinstance(c.args[0], ast.Name) and c.args[0].id == tok:
                ok = True
        if ok:
            rep.ok("C17.R1", k, meth.site(), f"delegates its token to {unparse(body[0].value.func)}")
        else:
            rep.violation("C17.R1", k, meth.site(), f"{h} does not hand its token to html_to_nodes (directly or via the block handler): the HTML does not reach the output as the raw node")
    # (f) an html_inline token is a single tag: it can never be a (content-carrying) admonition block
    _inline_not_admonition(cx, rep, gate, callers)
    # (g) flattening a <p> child separates its text from what precedes and from what follows
    _paragraph_flattening(cx, rep)
    rep.expect_min("C17.R1", 16, "5 pass-through returns, 2 conversion returns, 3 constructor facts, 3 gate facts, 2 dispatches, 4 caller facts on the pinned tree")


def _inline_not_admonition(cx: Ctx, rep: Report, gate: dict, callers) -> None:
    """`a <div class="admonition">text</div> b`: markdown-it hands the start tag alone to the html_inline handler. Converted as a
    block it can only fail ('Content block expected') and leaves an unbalanced `</div>`; with the admonition alternative
    switched off for inline tokens the tag stays raw HTML. Obligation: the handler marks the call as inline, the mark reaches
    the function holding the gate, and every <div> alternative of the gate requires the mark to be unset."""
    adm_tag = CONVERTIBLE["html_admonition"][0]
    meth = cx.corpus.lookup_method(cx.renderer_cls, "render_html_inline")
    k = f"{cx.renderer_cls.fq}.render_html_inline|an inline tag is never converted to an admonition"
    if meth is None:
        return  # reported by the routing check
    site = meth.site()
    alts = gate.get("negated", {}).get(adm_tag)
    if not alts:
        return  # no admonition alternative at all (reported elsewhere if that is wrong)
    core_marks = set.intersection(*[set(a) for a in alts]) & set(cx.fi.params)
    why = None
    mark = None
    if not core_marks:
        why = f"no <{adm_tag}> alternative of the gate depends on an 'inline' parameter of {cx.fi.name}"
    else:
        # which entry parameter feeds the core mark
        entry_marks = set()
        for cm in core_marks:
            if cx.delegate is None:
                entry_marks.add(cm)
            else:
                idx = cx.fi.params.index(cm)
                arg = cx.delegate.args[idx] if idx < len(cx.delegate.args) else next((k_.value for k_ in cx.delegate.keywords if k_.arg == cm), None)
                if isinstance(arg, ast.Name) and arg.id in cx.entry.params:
                    entry_marks.add(arg.id)
        if not entry_marks:
            why = f"the wrapper does not forward an 'inline' parameter to {cx.fi.name}"
        else:
            calls = [c for f, c in callers if f.fq == meth.fq]
            if not calls:
                why = "the handler does not call html_to_nodes itself (it goes through the block handler), so the call cannot be marked as inline"
            for c in calls:
                passed = False
                for em in entry_marks:
                    idx = cx.entry.params.index(em)
                    arg = c.args[idx] if idx < len(c.args) else next((k_.value for k_ in c.keywords if k_.arg == em), None)
                    if isinstance(arg, ast.Constant) and arg.value is True:
                        passed, mark = True, em
                    elif arg is not None and not isinstance(arg, ast.Constant):
                        raise Unsupported(f"render_html_inline passes a non-literal `{em}`: {short(c, 60)}")
                if not passed:
                    why = why or f"`{short(c, 60)}` does not pass {sorted(entry_marks)[0]}=True"
    if why is None:
        rep.ok("C17.R1", k, site, f"{mark}=True -> `not {sorted(core_marks)[0]}` in every <{adm_tag}> alternative")
    else:
        rep.violation("C17.R1", k, site, f"{why}: `a <div class=\"admonition\">text</div> b` (also in a list item or table cell) hands the start tag alone to the block conversion, which replaces it by the error 'Content block expected for the \"admonition\" directive' and leaves an unbalanced raw `</div>`; without the extension the same tag is plain raw HTML")


def _paragraph_flattening(cx: Ctx, rep: Report) -> None:
    """`Some text<p>More</p>` inside the admonition: the children of a <p> are spliced into the Markdown body; the paragraph break
    must be written on both sides, else 'Some text' runs into 'More' (one paragraph 'Some textMore')."""
    found = 0
    for fn in [f for f in cx.mod.functions.values() if not f.is_lambda]:
        for iff in fn.local_nodes():
            if not (isinstance(iff, ast.If) and _name_test(iff.test) is not None and _name_test(iff.test)[1] == "p"):
                continue
            var = _name_test(iff.test)[0]
            ext = None
            for i, st in enumerate(iff.body):
                if isinstance(st, ast.Expr) and isinstance(st.value, ast.Call) and isinstance(st.value.func, ast.Attribute) and st.value.func.attr == "extend" and isinstance(st.value.func.value, ast.Name) and st.value.args and unparse(st.value.args[0]).startswith(f"{var}."):
                    ext = (i, st, st.value.func.value.id)
            if ext is None:
                continue
            found += 1
            i, st, lst = ext

            def is_sep(x) -> bool:
                return isinstance(x, ast.Expr) and isinstance(x.value, ast.Call) and isinstance(x.value.func, ast.Attribute) and x.value.func.attr == "append" and unparse(x.value.func.value) == lst and any(isinstance(c, ast.Constant) and isinstance(c.value, str) and "\n\n" in c.value for c in ast.walk(x.value))

            after = any(is_sep(x) for x in iff.body[i + 1 :])
            before_plain = any(is_sep(x) for x in iff.body[:i])
            before_cond = None
            for x in iff.body[:i]:
                if isinstance(x, ast.If) and not x.orelse and any(is_sep(y) for y in x.body):
                    before_cond = x
            k = f"{fn.fq}|<p> flattening|separated from what follows"
            (rep.ok if after else rep.violation)("C17.R1", k, fn.module.site(st), *([] if after else ["the children of a <p> are spliced into the body without a paragraph break after them: `<p>a</p>b` becomes one paragraph `ab`"]))
            k = f"{fn.fq}|<p> flattening|separated from what precedes"
            if before_plain:
                rep.ok("C17.R1", k, fn.module.site(st))
            elif before_cond is not None:
                # the break may be skipped only when nothing precedes or a break is already there: the test may only look at the list
                names = {n.id for n in ast.walk(before_cond.test) if isinstance(n, ast.Name)}
                foreign = names - {lst, "isinstance", "len"} - set(cx.mod.imports) - set(cx.mod.classes)
                if foreign:
                    rep.violation("C17.R1", k, fn.module.site(before_cond), f"the paragraph break before a <p> also depends on {sorted(foreign)} (`{short(before_cond.test, 60)}`): when that is false, text before the <p> runs into its first word (`Some text<p>More</p>` -> `Some textMore`)")
                else:
                    rep.ok("C17.R1", k, fn.module.site(before_cond), "skipped only when nothing precedes or a break is already there")
            else:
                rep.violation("C17.R1", k, fn.module.site(st), "the children of a <p> are spliced into the body with a paragraph break after them only: whatever precedes the <p> runs into its first word (`Some text<p>More text</p>` gives the single paragraph `Some textMore text`, `<b>Warning:</b><p>do not</p>` likewise)")
    if found == 0:
        raise Unsupported("no <p> flattening (`if child.name == 'p': body.extend(child.children)`) found in the html_to_nodes module")


def _class_expr_kind(cx: Ctx, e: ast.expr, var: str | None, fn: FunctionInfo | None = None):
    """Is ``e`` derived from an element's class attribute?  ("tokens", how) - a list of class names;
    ("text", how) - the attribute text (``in`` is then a substring test); None - not a class expression."""
    an = cx.attrs_name
    if isinstance(e, ast.Name) and fn is not None and e.id not in fn.params:
        # a local bound once: `classes = element.attrs.classes`
        stores = [x for x in fn.local_nodes() if isinstance(x, ast.Name) and x.id == e.id and isinstance(x.ctx, ast.Store)]
        if len(stores) == 1 and isinstance(parent(stores[0]), (ast.Assign, ast.AnnAssign)) and getattr(parent(stores[0]), "value", None) is not None:
            return _class_expr_kind(cx, parent(stores[0]).value, var, None)
        return None

    def is_attrs(x):
        return isinstance(x, ast.Attribute) and x.attr == an and (var is None or (isinstance(x.value, ast.Name) and x.value.id == var))

    # X.attrs.classes -> what the property returns
    if isinstance(e, ast.Attribute) and is_attrs(e.value):
        ci = cx.corpus.cls("parsers.parse_html:Attribute")
        prop = ci.methods.get(e.attr)
        if prop is None or "property" not in prop.decorators():
            return None
        rets = [n for n in prop.local_nodes() if isinstance(n, ast.Return) and n.value is not None]
        if len(rets) != 1:
            raise Unsupported(f"Attribute.{e.attr} has {len(rets)} returns")
        v = rets[0].value
        if isinstance(v, (ast.ListComp, ast.GeneratorExp)) and len(v.generators) == 1 and isinstance(v.elt, ast.Name) and isinstance(v.generators[0].target, ast.Name) and v.elt.id == v.generators[0].target.id and all(unparse(c_) == v.elt.id for c_ in v.generators[0].ifs):
            v = v.generators[0].iter  # `[n for n in <split> if n]`: empty strings dropped, the tokens are those of the split
        inner = _self_class_text(v.func.value) if isinstance(v, ast.Call) and isinstance(v.func, ast.Attribute) else None
        if isinstance(v, ast.Call) and isinstance(v.func, ast.Attribute) and v.func.attr == "split" and not v.args and not v.keywords and inner:
            return ("tokens", f"Attribute.{e.attr} = self['class'].split()")
        if _self_class_text(v):
            return ("text", f"Attribute.{e.attr}, which returns the attribute text unsplit")
        if isinstance(v, ast.Call) and isinstance(v.func, ast.Attribute) and v.func.attr == "split" and inner:
            return ("badsplit", f"Attribute.{e.attr} splits on {short(v.args[0], 20) if v.args else '?'} only, not on any white space")
        if e.attr == "classes":
            raise Unsupported(f"Attribute.classes returns `{short(v, 50)}`")
        return None
    # X.attrs["class"] / X.attrs.get("class")
    if isinstance(e, ast.Subscript) and is_attrs(e.value) and isinstance(e.slice, ast.Constant) and e.slice.value == "class":
        return ("text", f"the class attribute text `{short(e, 40)}`")
    if isinstance(e, ast.Call) and isinstance(e.func, ast.Attribute) and e.func.attr == "get" and is_attrs(e.func.value) and e.args and isinstance(e.args[0], ast.Constant) and e.args[0].value == "class":
        return ("text", f"the class attribute text `{short(e, 40)}`")
    # <text>.split()
    if isinstance(e, ast.Call) and isinstance(e.func, ast.Attribute) and e.func.attr == "split" and not e.args and not e.keywords:
        inner = _class_expr_kind(cx, e.func.value, var)
        if inner is not None and inner[0] == "text":
            return ("tokens", f"{short(e, 40)}")
    if isinstance(e, ast.Call) and isinstance(e.func, ast.Name) and e.func.id in ("set", "list", "tuple", "frozenset") and len(e.args) == 1:
        inner = _class_expr_kind(cx, e.args[0], var)
        if inner is not None and inner[0] == "tokens":
            return inner
    if isinstance(e, ast.Call) and isinstance(e.func, ast.Name) and e.func.id == "str" and len(e.args) == 1:
        inner = _class_expr_kind(cx, e.args[0], var)
        if inner is not None:
            return ("text", f"str() of {inner[1]}")
    return None


def _self_class_text(v) -> bool:
    """``self["class"]`` / ``self.get("class", ...)``"""
    if isinstance(v, ast.Subscript) and dotted(v.value) == "self" and isinstance(v.slice, ast.Constant) and v.slice.value == "class":
        return True
    return isinstance(v, ast.Call) and isinstance(v.func, ast.Attribute) and v.func.attr == "get" and dotted(v.func.value) == "self" and bool(v.args) and isinstance(v.args[0], ast.Constant) and v.args[0].value == "class"


def _parse_html_class_of(cx: Ctx, mod: Module, e: ast.expr, fn: FunctionInfo | None):
    """The parse_html class an expression is an instance of: a constructor call, or a name bound to one (local or module level)."""
    if isinstance(e, ast.Call) and dotted(e.func):
        ci = cx.corpus.find_class(mod.resolve(dotted(e.func)))
        if ci is not None and ci.module.name.endswith("parse_html"):
            return ci
        return None
    if isinstance(e, ast.Name):
        vals = []
        if fn is not None:
            vals = [parent(x).value for x in fn.local_nodes() if isinstance(x, ast.Name) and x.id == e.id and isinstance(x.ctx, ast.Store) and isinstance(parent(x), (ast.Assign, ast.AnnAssign)) and getattr(parent(x), "value", None) is not None]
        if not vals and e.id in mod.const_nodes:
            vals = [mod.const_nodes[e.id]]
        for v in vals:
            ci = _parse_html_class_of(cx, mod, v, None)
            if ci is not None:
                return ci
    return None


def _is_tokenizer_call(cx: Ctx, c: ast.AST) -> bool:
    """``tokenize_html(text, ...)`` (a parse_html function given the text) or ``<HtmlToAst object>.feed(text)``"""
    if not isinstance(c, ast.Call) or not any(isinstance(x, ast.Name) and x.id == cx.p_text for a in c.args for x in ast.walk(a)):
        return False
    if dotted(c.func):
        fn = cx.corpus.find_function(cx.mod.resolve(dotted(c.func)))
        if fn is not None and fn.module.name.endswith("parse_html") and fn.cls is None:
            return True
    if isinstance(c.func, ast.Attribute) and c.func.attr == "feed":
        return _parse_html_class_of(cx, cx.mod, c.func.value, cx.fi) is not None
    return False


def _pre_gate_tree(cx: Ctx, rep: Report, gate: dict) -> None:
    """The elements the gate quantifies over are all top-level nodes of the tokenized fragment except white-space text:
    anything else that is dropped first (a blank comment, ``<?>``, text, because the collection was filtered) would let
    `<!-- --><img ...>` / `<img ...> text` be converted and the dropped part be lost instead of the block passing through."""
    fi, m = cx.fi, cx.mod
    el = cx.corpus.cls("parsers.parse_html:Element")
    root = gate["root"]
    if not root.isidentifier():
        raise Unsupported(f"the gated collection `{root}` is not a local name")
    seen: set[str] = set()
    root_names: set[str] = set()

    def follow(name: str) -> int:
        """judge what is dropped on the way from the tokenizer to ``name``; returns the number of tokenizer calls found"""
        if name in seen:
            return 0
        seen.add(name)
        root_names.add(name)
        defs = cx.defs_of(name)
        if not defs or not all(isinstance(d, ast.expr) for d in defs):
            raise Unsupported(f"the gated collection `{name}` is not a plainly assigned local")
        bases = 0
        for d in defs:
            e = d
            # list(...)/tuple(...) wrappers
            while isinstance(e, ast.Call) and isinstance(e.func, ast.Name) and e.func.id in ("list", "tuple") and len(e.args) == 1:
                e = e.args[0]
            if isinstance(e, (ast.ListComp, ast.GeneratorExp)):
                if len(e.generators) != 1 or not isinstance(e.generators[0].target, ast.Name) or not isinstance(e.generators[0].iter, ast.Name):
                    raise Unsupported(f"`{name}` is built by a comprehension the rule does not model: {short(e, 60)}")
                var = e.generators[0].target.id
                if not (isinstance(e.elt, ast.Name) and e.elt.id == var):
                    raise Unsupported(f"`{name}`: the comprehension rewrites its elements: {short(e, 60)}")
                k = f"{fi.fq}|{name} = {short(e, 70)}|discards only white-space text"
                if e.generators[0].ifs:
                    cond = e.generators[0].ifs[0] if len(e.generators[0].ifs) == 1 else ast.BoolOp(op=ast.And(), values=list(e.generators[0].ifs))
                    _judge_drop_filter(cx, rep, cond, var, k, m.site(e), m, f"`{name}`")
                bases += follow(e.generators[0].iter.id)
                continue
            while isinstance(e, ast.Call) and isinstance(e.func, ast.Attribute) and not _is_tokenizer_call(cx, e):
                meth = cx.corpus.lookup_method(el, e.func.attr)
                if e.func.attr != "strip" or meth is None:
                    raise Unsupported(f"cannot tell whether `.{e.func.attr}(...)` keeps every top-level node of the fragment")
                _judge_element_strip(cx, rep, meth)
                e = e.func.value
            if _is_tokenizer_call(cx, e):
                bases += 1
            elif isinstance(e, ast.Name) and e.id == name and e is not d:
                pass  # `root = root.strip(...)` as a second step
            elif isinstance(e, ast.Name) and e.id != name:
                bases += follow(e.id)
            else:
                raise Unsupported(f"`{name}` is not the tokenized text (optionally stripped): {short(d, 60)}")
        return bases

    bases = follow(root)
    if bases != 1:
        raise Unsupported(f"`{root}` is tokenized {bases} times")
    _strip_levels(cx, rep, root_names)


def _strip_levels(cx: Ctx, rep: Report, root_names: set[str]) -> None:
    """Element.strip may drop white-space text between the top-level nodes of the fragment (non-recursively);
    inside a converted element white-space text is content: `<b>a</b> <i>b</i>` must not become `<b>a</b><i>b</i>`."""
    el = cx.corpus.cls("parsers.parse_html:Element")
    meth = cx.corpus.lookup_method(el, "strip")
    if meth is None:
        raise AnchorMissing("Element.strip not found")
    funcs = [f for f in cx.mod.functions.values() if not f.is_lambda]
    memo: dict[int, tuple | None] = {}

    def level(e: ast.expr, fn: FunctionInfo, depth: int = 0):
        """("elem", d): an element d levels below the fragment root (the root itself: 0); ("list", d): a list of such; None: not a tree value"""
        if depth > 10:
            return None
        if id(e) in memo:
            return memo[id(e)]
        memo[id(e)] = None
        r = None
        if _is_tokenizer_call(cx, e):
            r = ("elem", 0)
        elif isinstance(e, ast.Name):
            if fn is cx.fi and e.id in root_names:
                r = ("elem", 0)
            elif e.id in fn.params and not any(isinstance(x, ast.Name) and x.id == e.id and isinstance(x.ctx, ast.Store) for x in fn.local_nodes()):
                # a helper's parameter: what the callers in this module pass
                idx = fn.params.index(e.id)
                cands = []
                for g in funcs:
                    for c in g.local_nodes():
                        if isinstance(c, ast.Call) and isinstance(c.func, ast.Name) and c.func.id == fn.name and fn.cls is None:
                            arg = c.args[idx] if idx < len(c.args) else next((k_.value for k_ in c.keywords if k_.arg == e.id), None)
                            if arg is not None:
                                cands.append(level(arg, g, depth + 1))
                cands = [c for c in cands if c is not None]
                if cands:
                    r = max(cands, key=lambda t: t[1])
            else:
                cands = []
                for x in fn.local_nodes():
                    if isinstance(x, ast.Name) and x.id == e.id and isinstance(x.ctx, ast.Store):
                        p_ = parent(x)
                        if isinstance(p_, (ast.For, ast.comprehension)) and p_.target is x:
                            src = level(p_.iter, fn, depth + 1)
                            if src is not None:
                                cands.append(("elem", src[1] + 1) if src[0] == "elem" else ("elem", src[1]))
                        elif isinstance(p_, (ast.Assign, ast.AnnAssign)) and getattr(p_, "value", None) is not None:
                            src = level(p_.value, fn, depth + 1)
                            if src is not None:
                                cands.append(src)
                if cands:
                    r = max(cands, key=lambda t: t[1])
        elif isinstance(e, ast.Attribute) and e.attr == "children":
            src = level(e.value, fn, depth + 1)
            r = ("list", src[1] + 1) if src is not None and src[0] == "elem" else None
        elif isinstance(e, ast.Subscript) or (isinstance(e, ast.Call) and isinstance(e.func, ast.Attribute) and e.func.attr == "pop"):
            base = e.value if isinstance(e, ast.Subscript) else e.func.value
            src = level(base, fn, depth + 1)
            if src is not None and not (isinstance(e, ast.Subscript) and isinstance(e.slice, ast.Slice)):
                r = ("elem", src[1] + 1) if src[0] == "elem" else ("elem", src[1])
            elif src is not None:
                r = src
        elif isinstance(e, ast.Call) and isinstance(e.func, ast.Attribute) and e.func.attr in ("strip", "deepcopy"):
            src = level(e.func.value, fn, depth + 1)
            r = src if src is not None and src[0] == "elem" else None
        elif isinstance(e, (ast.ListComp, ast.GeneratorExp)) and len(e.generators) == 1:
            src = level(e.generators[0].iter, fn, depth + 1)
            if src is not None:
                r = ("list", src[1] + 1) if src[0] == "elem" else src
        elif isinstance(e, ast.Call) and isinstance(e.func, ast.Name) and e.func.id in ("list", "tuple", "reversed", "sorted") and len(e.args) == 1:
            src = level(e.args[0], fn, depth + 1)
            if src is not None:
                r = ("list", src[1] + 1) if src[0] == "elem" else src
        memo[id(e)] = r
        return r

    for fn in funcs:
        for n in fn.local_nodes():
            if not (isinstance(n, ast.Call) and isinstance(n.func, ast.Attribute) and n.func.attr == "strip"):
                continue
            lv = level(n.func.value, fn)
            if lv is None or lv[0] != "elem":
                continue  # str.strip
            d = lv[1]
            ps = meth.params[1:]
            r = arg_or_kw(n, ps.index("recurse"), "recurse") if "recurse" in ps else None
            if r is None and meth.node.args.defaults:
                a = meth.node.args
                r = dict(zip([x.arg for x in a.args][-len(a.defaults):], a.defaults)).get("recurse")
            what = "the fragment root" if d == 0 else ("a converted top-level element" if d == 1 else f"an element {d} levels below the fragment root")
            k = f"{cx.mod.name}|Element.strip on {what}|inner white space kept"
            site = fn.module.site(n)
            if r is not None and not isinstance(r, ast.Constant):
                raise Unsupported(f"recurse argument of `{short(n, 50)}` is not a literal")
            if r is not None and r.value:
                rep.violation("C17.R1", k + "|recursive", site, f"`{short(n, 50)}` strips recursively: white-space text between inline elements inside the admonition body (`<b>a</b> <i>b</i>`) is removed before the body is rendered back to Markdown, so the inner content is not carried over unchanged")
            elif d == 0:
                rep.ok("C17.R1", k, site, "white space between the top-level nodes of the fragment, not recursive")
            else:
                rep.violation("C17.R1", k, site, f"`{short(n, 50)}` (in {fn.qualname}) drops the white-space-only text nodes among the children of {what}: a blank that is the only thing between two inline elements / references (`<b>a</b> <i>b</i>`) disappears from the Markdown body handed to the directive (`<b>a</b><i>b</i>`), so the inner content is not carried over unchanged")
    _end_tags_from_source(cx, rep, level, funcs)


def _end_tags_from_source(cx: Ctx, rep: Report, level, funcs) -> None:
    """The body handed to the directive is rendered from the parsed tree: an element whose end tag is missing in the source
    (`use <b> for bold`, `<foo@example.com>`, `<li>one<li>two`) must not get an invented end tag."""
    m = cx.mod
    ph = cx.corpus.mod("parsers.parse_html")
    # (1) every rendering of tree values in the conversion asks for source end tags only
    opt = None
    n_r = 0
    for fn in funcs:
        for n in fn.local_nodes():
            if isinstance(n, ast.Call) and isinstance(n.func, ast.Attribute) and n.func.attr == "render" and level(n.func.value, fn) is not None:
                n_r += 1
                kws = [k_ for k_ in n.keywords if k_.arg is not None and isinstance(k_.value, ast.Constant) and k_.value.value is True]
                st = get_cfg(fn).stmt_of(n)
                k = f"{m.name}|{short(n.func.value, 30)}.render(...)|{_where(st)}|only end tags present in the source"
                if kws:
                    opt = opt or kws[0].arg
                    rep.ok("C17.R1", k, fn.module.site(n), f"{kws[0].arg}=True")
                elif any(k_.arg is None for k_ in n.keywords):
                    raise Unsupported(f"render called with **kwargs in {fn.qualname}")
                else:
                    rep.violation("C17.R1", k, fn.module.site(n), f"`{short(n, 50)}` renders the parsed body with the default end-tag policy: every element the source never closes gets an invented end tag (`use <b> for bold` gains `</b>`, `mail <foo@example.com>` a second bogus link, `<li>one<li>two` gains `</li></li>`), so the inner Markdown is not carried over unchanged")
    if n_r == 0:
        raise Unsupported("no rendering of the parsed tree found in the html_to_nodes module")
    if opt is None:
        return  # all render calls already reported
    # (2) the element class built for a start tag honours the option: no end tag when the option is on and the element was not closed
    tree = ph.classes.get("Tree")
    nest_tag = None
    tag_cls = None
    if tree is not None:
        for meth in tree.methods.values():
            for c in meth.local_nodes():
                if isinstance(c, ast.Call) and isinstance(c.func, ast.Name) and c.func.id in ph.classes:
                    ci = ph.classes[c.func.id]
                    r_ = cx.corpus.lookup_method(ci, "render")
                    if r_ is not None and any(isinstance(x, (ast.JoinedStr, ast.Constant)) and "</" in unparse(x) for x in r_.local_nodes()):
                        nest_tag, tag_cls = meth, ci
    if tag_cls is None:
        raise Unsupported("no element class that renders an end tag is constructed by Tree")
    rnd = cx.corpus.lookup_method(tag_cls, "render")
    ends = [x for x in rnd.local_nodes() if isinstance(x, ast.JoinedStr) and unparse(x).startswith(("f'</", 'f"</'))]
    if len(ends) != 1:
        raise Unsupported(f"{tag_cls.name}.render: expected one end-tag f-string, found {len(ends)}")
    end = ends[0]
    k = f"{rnd.fq}|end tag only if closed in the source when {opt} is set"
    site = ph.site(end)
    cond = None
    endx: ast.AST = end
    while isinstance(parent(endx), ast.BoolOp) and isinstance(parent(endx).op, ast.Or):
        endx = parent(endx)  # `self.raw_end or f"</{self.name}>"`: the end tag as written, else synthesised - an end tag either way
    p_ = parent(endx)
    if isinstance(p_, ast.IfExp) and (p_.body is endx or p_.orelse is endx):
        cond = p_.test if p_.body is endx else ast.UnaryOp(op=ast.Not(), operand=p_.test)
    if cond is None:
        rep.violation("C17.R1", k, site, f"{tag_cls.name}.render adds `</name>` unconditionally: with {opt}=True elements the source never closes still get an end tag")
        return

    def resolve(e):
        if isinstance(e, ast.UnaryOp) and isinstance(e.op, ast.Not):
            return ast.UnaryOp(op=ast.Not(), operand=resolve(e.operand))
        if isinstance(e, ast.BoolOp):
            return ast.BoolOp(op=e.op, values=[resolve(v) for v in e.values])
        if isinstance(e, ast.Name):
            defs = [n for n in rnd.local_nodes() if isinstance(n, ast.Assign) and len(n.targets) == 1 and isinstance(n.targets[0], ast.Name) and n.targets[0].id == e.id]
            if len(defs) == 1:
                return resolve(defs[0].value)
        return e

    cases = _dnf(cx, resolve(cond))
    closed_attr = None
    bad_case = None
    for case in cases:
        falsified = False
        for lit in case:
            neg = isinstance(lit, ast.UnaryOp) and isinstance(lit.op, ast.Not)
            atom = lit.operand if neg else lit
            if neg and any(isinstance(x, ast.Constant) and x.value == opt for x in ast.walk(atom)):
                falsified = True  # `not kwargs.get(opt)`: false when the option is on
            if not neg and isinstance(atom, ast.Attribute) and dotted(atom.value) == "self":
                closed_attr = closed_attr or atom.attr
                falsified = True  # `self.closed`: false for an element that was not closed
        if not falsified:
            bad_case = case
    if bad_case is not None or closed_attr is None:
        rep.violation("C17.R1", k, site, f"{tag_cls.name}.render adds `</name>` under `{short(cond, 60)}`, which can hold although {opt} is set and the element was never closed in the source")
        return
    rep.ok("C17.R1", k, site, f"emitted iff not {opt} or self.{closed_attr}")
    # children are rendered with the same options
    rec = [c for c in rnd.local_nodes() if isinstance(c, ast.Call) and isinstance(c.func, ast.Attribute) and c.func.attr == "render" and not (isinstance(c.func.value, ast.Name) and c.func.value.id == "self")]
    k = f"{rnd.fq}|options reach the children"
    if rec and all(any(k_.arg is None for k_ in c.keywords) or any(k_.arg == opt for k_ in c.keywords) for c in rec):
        rep.ok("C17.R1", k, ph.site(rec[0]), "**kwargs forwarded")
    elif rec:
        rep.violation("C17.R1", k, ph.site(rec[0]), f"{tag_cls.name}.render does not pass {opt} on to its children: nested unclosed elements get invented end tags")
    else:
        raise Unsupported(f"{tag_cls.name}.render does not render its children")
    # (3) the flag is maintained: unset when the start tag is nested, set by the matching end tag, kept by deepcopy
    def sets(fn_, value_pred, extra=lambda st: True):
        return [n for n in fn_.local_nodes() if isinstance(n, ast.Assign) and len(n.targets) == 1 and isinstance(n.targets[0], ast.Attribute) and n.targets[0].attr == closed_attr and value_pred(n.value) and extra(n)]

    k = f"{nest_tag.fq}|a start tag opens an unclosed element"
    if sets(nest_tag, lambda v: isinstance(v, ast.Constant) and v.value is False):
        rep.ok("C17.R1", k, nest_tag.site())
    else:
        init = cx.corpus.lookup_method(tag_cls, "__init__")
        default_false = init is not None and sets(init, lambda v: isinstance(v, ast.Constant) and v.value is False)
        (rep.ok if default_false else rep.violation)("C17.R1", k, nest_tag.site(), *([] if default_false else [f"{nest_tag.qualname} does not mark the new element as not closed ({closed_attr} = False): every parsed element counts as closed and gets an end tag even when the source has none"]))
    enc = tree.methods.get("enclose")
    k = f"{tree.fq}.enclose|the matching end tag closes the element"
    if enc is None:
        raise AnchorMissing("Tree.enclose not found")
    ecfg = get_cfg(enc)
    closers = sets(enc, lambda v: isinstance(v, ast.Constant) and v.value is True)
    def name_matched(c: ast.Assign) -> bool:
        """the element whose flag is set has the end tag's name: by a dominating `X.name == name` test, or because X was
        selected by a generator/comprehension whose filter holds that test (``next((e for e in ... if e.name == name), None)``)"""
        from ..flow import facts

        def is_name_eq(t, var: str | None) -> bool:
            return isinstance(t, ast.Compare) and len(t.ops) == 1 and isinstance(t.ops[0], ast.Eq) and any(isinstance(x, ast.Attribute) and x.attr == "name" and (var is None or (isinstance(x.value, ast.Name) and x.value.id == var)) for x in ast.walk(t))

        obj = c.targets[0].value
        if any(pol and is_name_eq(t, obj.id if isinstance(obj, ast.Name) else None) for t, pol in ecfg.guards(c)):
            return True
        if not isinstance(obj, ast.Name):
            return False
        stores = [x for x in enc.local_nodes() if isinstance(x, ast.Name) and x.id == obj.id and isinstance(x.ctx, ast.Store)]
        if len(stores) != 1:
            return False
        st = stores[0]
        p_ = parent(st)
        idx = None
        if isinstance(p_, ast.Tuple) and isinstance(parent(p_), ast.Assign):
            idx, asg = p_.elts.index(st), parent(p_)
        elif isinstance(p_, ast.Assign):
            asg = p_
        else:
            return False
        v = asg.value
        if isinstance(v, ast.Call) and isinstance(v.func, ast.Name) and v.func.id == "next" and v.args:
            v = v.args[0]
        if not isinstance(v, (ast.GeneratorExp, ast.ListComp)) or len(v.generators) != 1:
            return False
        elt = v.elt
        if idx is not None:
            if not (isinstance(elt, ast.Tuple) and idx < len(elt.elts)):
                return False
            elt = elt.elts[idx]
        if not isinstance(elt, ast.Name):
            return False
        conds = [f_ for cnd in v.generators[0].ifs for f_ in facts(cnd, True)]
        return any(pol and is_name_eq(t, elt.id) for t, pol in conds)

    good = [c for c in closers if name_matched(c)]
    if good:
        rep.ok("C17.R1", k, ph.site(good[0]))
    else:
        rep.violation("C17.R1", k, enc.site(), f"no `{closed_attr} = True` under the name match in Tree.enclose: elements that ARE closed in the source lose their end tag in the admonition body")
    dc = cx.corpus.lookup_method(tag_cls, "deepcopy")
    k = f"{dc.fq if dc else tag_cls.fq}|copies keep the closed flag"
    if dc is not None and sets(dc, lambda v: isinstance(v, ast.Attribute) and v.attr == closed_attr and dotted(v.value) == "self"):
        rep.ok("C17.R1", k, dc.site())
    else:
        rep.violation("C17.R1", k, dc.site() if dc else ph.site(tag_cls.node), f"deepcopy does not copy `{closed_attr}`: html_to_nodes renders the body from `child.strip()` (a deep copy), whose elements then all count as closed again")


def _judge_element_strip(cx: Ctx, rep: Report, meth: FunctionInfo) -> None:
    pm = meth.module
    comps = [n for n in meth.local_nodes() if isinstance(n, (ast.ListComp, ast.GeneratorExp)) and n.generators and n.generators[0].ifs]
    if not comps:
        # the same filter written as a loop: `for v in <children>: if D: continue; kept.append(v)` or `for v in ..: if K: kept.append(v)`
        loops = []
        for lp in meth.local_nodes():
            if isinstance(lp, ast.For) and isinstance(lp.target, ast.Name) and not lp.orelse:
                v = lp.target.id
                apps = [n for n in ast.walk(lp) if isinstance(n, ast.Call) and isinstance(n.func, ast.Attribute) and n.func.attr == "append" and len(n.args) == 1 and isinstance(n.args[0], ast.Name) and n.args[0].id == v]
                if apps:
                    loops.append((lp, v, apps))
        if len(loops) == 1 and len(loops[0][2]) == 1:
            lp, v, (app,) = loops[0]
            body = lp.body
            keep = None
            if len(body) == 2 and isinstance(body[0], ast.If) and not body[0].orelse and len(body[0].body) == 1 and isinstance(body[0].body[0], ast.Continue) and isinstance(body[1], ast.Expr) and body[1].value is app:
                keep = ast.UnaryOp(op=ast.Not(), operand=body[0].test)
            elif len(body) == 1 and isinstance(body[0], ast.If) and not body[0].orelse and len(body[0].body) == 1 and isinstance(body[0].body[0], ast.Expr) and body[0].body[0].value is app:
                keep = body[0].test
            if keep is None:
                raise Unsupported(f"{meth.qualname}: filtering loop over the children not understood")
            _judge_drop_filter(cx, rep, keep, v, f"{meth.fq}|discards only white-space text", pm.site(body[0].test), pm, "strip()")
            return
    if len(comps) != 1 or len(comps[0].generators) != 1 or len(comps[0].generators[0].ifs) != 1 or not isinstance(comps[0].generators[0].target, ast.Name):
        raise Unsupported(f"{meth.qualname}: expected one filtering comprehension over the children")
    comp = comps[0]
    var = comp.generators[0].target.id
    if not (isinstance(comp.elt, ast.Name) and comp.elt.id == var):
        raise Unsupported(f"{meth.qualname}: the filtering comprehension rewrites its elements")
    cond = comp.generators[0].ifs[0]
    _judge_drop_filter(cx, rep, cond, var, f"{meth.fq}|discards only white-space text", pm.site(cond), pm, "strip()")


def _judge_drop_filter(cx: Ctx, rep: Report, cond: ast.expr, var: str, k: str, site: str, pm: Module, who: str) -> None:
    """``[e for e in nodes if cond]``: what fails ``cond`` is dropped; it must be blank text only
    (a class whose rendering is its data verbatim, and a blank test on that data)."""
    if any(i.rule == "C17.R1" and i.key == k for i in rep.items):
        return
    ph = cx.corpus.mod("parsers.parse_html")
    if isinstance(cond, ast.UnaryOp) and isinstance(cond.op, ast.Not):
        dropped = cond.operand
        conj = dropped.values if isinstance(dropped, ast.BoolOp) and isinstance(dropped.op, ast.And) else [dropped]
        negated_atoms: list[ast.expr] = []
    else:
        # `if e.name` / `if isinstance(e, Tag)` ...: dropped = not cond
        conj = []
        negated_atoms = cond.values if isinstance(cond, ast.BoolOp) and isinstance(cond.op, ast.Or) else [cond]
    classes: list[str] | None = None
    blank = False
    everything_but: list[str] = []
    for c in conj:
        if isinstance(c, ast.Call) and dotted(c.func) == "isinstance" and len(c.args) == 2 and isinstance(c.args[0], ast.Name) and c.args[0].id == var:
            t = c.args[1]
            names = [dotted(x) for x in (t.elts if isinstance(t, ast.Tuple) else [t])]
            if any(n is None for n in names):
                raise Unsupported(f"{who}: isinstance target not understood")
            classes = (classes or []) + names
        elif unparse(c) in (f"{var}.data.strip() == ''", f"not {var}.data.strip()", f"{var}.data.isspace()", f"'' == {var}.data.strip()", f"len({var}.data.strip()) == 0"):
            blank = True
        elif isinstance(c, ast.UnaryOp) and isinstance(c.op, ast.Not):
            negated_atoms.append(c.operand)
        else:
            raise Unsupported(f"{who}: drop condition not understood: {short(c, 60)}")
    for atom in negated_atoms:
        # dropped when the atom is false
        if unparse(atom) == f"{var}.name":
            # terminal nodes are constructed with the empty name: not e.name == isinstance(e, TerminalElement)
            te = ph.classes.get("TerminalElement")
            init = te.methods.get("__init__") if te is not None else None
            ok_fact = init is not None and any(isinstance(c_, ast.Call) and unparse(c_.func) == "super().__init__" and c_.args and isinstance(c_.args[0], ast.Constant) and c_.args[0].value == "" for c_ in init.local_nodes())
            if not ok_fact:
                raise Unsupported("TerminalElement.__init__ no longer passes the empty name to Element.__init__")
            classes = (classes or []) + ["TerminalElement"]
        elif isinstance(atom, ast.Call) and dotted(atom.func) == "isinstance" and len(atom.args) == 2 and isinstance(atom.args[0], ast.Name) and atom.args[0].id == var:
            everything_but.append(unparse(atom.args[1]))
        elif unparse(atom) in (f"{var}.data.strip()", f"not {var}.data.isspace()"):
            blank = True
        else:
            raise Unsupported(f"{who}: keep condition not understood: {short(atom, 60)}")
    if everything_but:
        rep.violation("C17.R1", k, site, f"{who} keeps only {', '.join(everything_but)} nodes: text, comments and references next to a convertible element are dropped, so `<img ...> text` is converted and the rest is lost instead of the block passing through as raw HTML")
        return
    if not classes:
        raise Unsupported(f"{who}: drop condition has no class test")
    if not blank:
        rep.violation("C17.R1", k, site, f"{who} discards every {'/'.join(classes)} node, blank or not: text, comments or references next to a convertible element (`<img ...> text`, `<img ...><!-- x -->`) are lost and the block is converted instead of passing through as raw HTML")
        return
    bad = []
    for cname in classes:
        ci = cx.corpus.find_class(pm.resolve(cname)) or ph.classes.get(cname)
        if ci is None:
            raise Unsupported(f"{who}: class {cname} not found in the package")
        for c_ in [ci] + cx.corpus.subclasses(ci):
            r = cx.corpus.lookup_method(c_, "render")
            rets = [n for n in r.local_nodes() if isinstance(n, ast.Return)] if r is not None else []
            verbatim = r is not None and len(rets) == 1 and unparse(rets[0].value) == "self.data"
            if not verbatim:
                how = short(rets[0].value, 30) if len(rets) == 1 else "not its data verbatim"
                bad.append(f"{c_.name} (renders {how})")
    if bad:
        rep.violation("C17.R1", k, site, f"{who} also discards blank nodes whose rendering is not white space: {', '.join(bad)}. `<!-- --><img src=a.png>` loses the comment and is converted to an image instead of the whole block passing through as raw HTML")
    else:
        rep.ok("C17.R1", k, site, f"dropped: blank {'/'.join(classes)} (rendered verbatim, i.e. white space)")


def _tokenizer_faithful(cx: Ctx, rep: Report) -> None:
    """What the tokenizer is told about must end up in the tree: an end tag either closes an open element or is kept as a
    node (else `<img ...>\\n</section>` looks like a lone <img> and the stray end tag vanishes), and a start tag is kept with
    its source text (else the admonition body is rebuilt from html.parser's decoded attribute list: quotes, character
    references and `<https://...>` autolinks are rewritten)."""
    from ..flow import facts

    ph = cx.corpus.mod("parsers.parse_html")
    cands = [c_ for c_ in ph.classes.values() if any(b_.endswith("HTMLParser") for b_ in cx.corpus.external_bases(c_))]
    if len(cands) != 1:
        raise Unsupported(f"expected one HTMLParser subclass in parse_html, found {len(cands)}")
    ci = cands[0]
    # ---- end tags ----
    he = ci.methods.get("handle_endtag")
    if he is None:
        rep.violation("C17.R1", f"{ci.fq}.handle_endtag|every end tag closes an element or leaves a node", ph.site(ci.node), "end tags are not handled at all")
    else:
        cfg = get_cfg(he)
        name_p = he.params[1] if len(he.params) > 1 else None
        paths: list[tuple[list, list]] = []
        stack = [("ENTRY", [], [])]
        steps = 0
        while stack:
            node, fs, sts = stack.pop()
            steps += 1
            if steps > 400:
                raise Unsupported("handle_endtag has too many paths")
            for nx in cfg.succ.get(node, []):
                if nx == "EXIT":
                    paths.append((fs, sts))
                elif nx == "RAISE":
                    continue
                elif isinstance(nx, tuple) and nx[0] in ("T", "F") and isinstance(nx[1], ast.If):
                    stack.append((nx, fs + [(nx[1].test, nx[0] == "T")], sts))
                elif isinstance(nx, tuple):
                    raise Unsupported("handle_endtag uses try/loops")
                elif isinstance(nx, (ast.While, ast.For, ast.Try)):
                    raise Unsupported("handle_endtag uses try/loops")
                else:
                    stack.append((nx, fs, sts + [nx]))
        seen_cases = set()
        for fs, sts in paths:
            nests = any(isinstance(c, ast.Call) and isinstance(c.func, ast.Attribute) and c.func.attr.startswith("nest_") for st in sts if not isinstance(st, ast.If) for c in ast.walk(st))
            lits = [t if pol else ast.UnaryOp(op=ast.Not(), operand=t) for t, pol in fs]
            cases = _dnf(cx, ast.BoolOp(op=ast.And(), values=lits)) if lits else [[]]
            for case in cases:
                closes = any(not (isinstance(l, ast.UnaryOp) and isinstance(l.op, ast.Not)) and isinstance(l, ast.Call) and isinstance(l.func, ast.Attribute) and l.func.attr == "enclose" for l in case)
                desc = " and ".join(sorted(_lit_text(l) for l in case)) or "always"
                if desc in seen_cases:
                    continue
                seen_cases.add(desc)
                k = f"{he.fq}|every end tag closes an element or leaves a node|when {desc}"
                if nests or closes:
                    rep.ok("C17.R1", k, he.site(), "kept as a node" if nests else "closes the open element")
                else:
                    rep.violation("C17.R1", k, he.site(), f"when `{desc}` the end tag `</{name_p}>` neither closes an open element nor is kept in the tree: it vanishes from the fragment, so `<img src=\"a.png\">\\n</br>` looks like a lone <img>, is converted to an image and the end tag is lost instead of the block passing through as raw HTML with exactly its source text")
    # ---- start tags keep their source text ----
    tree = ph.classes.get("Tree")
    for cb in ("handle_starttag", "handle_startendtag"):
        f = ci.methods.get(cb)
        k = f"{ci.fq}.{cb}|start tag kept with its source text"
        if f is None:
            raise Unsupported(f"{ci.name} does not override {cb}")
        nests = [c for c in f.local_nodes() if isinstance(c, ast.Call) and isinstance(c.func, ast.Attribute) and c.func.attr.startswith("nest_")]
        if not nests:
            raise Unsupported(f"{ci.name}.{cb} nests nothing")
        bad = None
        for c in nests:
            idx = next((i for i, a in enumerate(c.args) if unparse(a) == "self.get_starttag_text()"), None)
            kwn = next((k_.arg for k_ in c.keywords if unparse(k_.value) == "self.get_starttag_text()"), None)
            if idx is None and kwn is None:
                bad = f"`{short(c, 60)}` does not hand over the tag's source text (self.get_starttag_text())"
                break
            nm = tree.methods.get(c.func.attr) if tree is not None else None
            if nm is None:
                raise Unsupported(f"Tree.{c.func.attr} not found")
            par = kwn or (nm.params[idx + 1] if idx + 1 < len(nm.params) else None)
            ctor = next((x for x in nm.local_nodes() if isinstance(x, ast.Call) and isinstance(x.func, ast.Name) and x.func.id in ph.classes), None)
            if ctor is None or par is None:
                raise Unsupported(f"Tree.{nm.name}: constructor call not found")
            j = next((i for i, a in enumerate(ctor.args) if isinstance(a, ast.Name) and a.id == par), None)
            kj = next((k_.arg for k_ in ctor.keywords if isinstance(k_.value, ast.Name) and k_.value.id == par), None)
            if j is None and kj is None:
                bad = f"Tree.{nm.name} does not pass `{par}` on to {ctor.func.id}(...)"
                break
            ecls = ph.classes[ctor.func.id]
            init = cx.corpus.lookup_method(ecls, "__init__")
            q = kj or (init.params[j + 1] if init is not None and j + 1 < len(init.params) else None)
            attr = None
            if init is not None and q is not None:
                for st in init.local_nodes():
                    if isinstance(st, ast.Assign) and isinstance(st.targets[0], ast.Attribute) and dotted(st.targets[0].value) == "self" and isinstance(st.value, ast.Name) and st.value.id == q:
                        attr = st.targets[0].attr
            if attr is None:
                bad = f"{ecls.name}.__init__ does not store the source text of the tag"
                break
            rnd = cx.corpus.lookup_method(ecls, "render")
            uses = False
            for r_ in [n for n in rnd.local_nodes() if isinstance(n, ast.Return)] if rnd is not None else []:
                first = _split_add(r_.value)[0] if r_.value is not None else None
                if isinstance(first, ast.Call) and isinstance(first.func, ast.Attribute) and dotted(first.func.value) == "self":
                    hm = cx.corpus.lookup_method(ecls, first.func.attr)
                    if hm is not None:
                        hcfg = get_cfg(hm)
                        for hr in [n for n in hm.local_nodes() if isinstance(n, ast.Return)]:
                            if unparse(hr.value) == f"self.{attr}" and any(pol and unparse(t) == f"self.{attr} is not None" for t, pol in hcfg.guards(hr)):
                                uses = True
                            if unparse(hr.value) == f"self.{attr}" and not hcfg.guards(hr):
                                uses = True
            if not uses:
                bad = f"{ecls.name}.render does not start with the stored source text (self.{attr}) of the tag"
                break
        if bad is None:
            rep.ok("C17.R1", k, f.site(), "get_starttag_text() -> Tree.nest_* -> Element.raw -> render")
        else:
            rep.violation("C17.R1", k, f.site(), f"{bad}: the start tag is rebuilt from html.parser's decoded name/attribute list when the admonition body is rendered back, so `<span title='say \"hi\"'>` becomes `<span title=\"say \"hi\"\">`, `&amp;` in attribute values is decoded and the autolink `<https://example.com>` becomes `<https: example.com>`: the inner Markdown is not carried over unchanged")


def _parser_quirks_covered(cx: Ctx, rep: Report) -> None:
    """Places where html.parser (facts re-read from the stdlib source) drops or rewrites input that may be Markdown text of an
    admonition body, each with the cooperation the tokenizer class owes:
      * ``</>`` is skipped without any callback -> parse_endtag must keep it as data and step over it;
      * ``<!x>`` / ``</3>`` are reported through handle_comment without their delimiters -> the node must keep the source text,
        the comment class must render it, and copies must keep it (html_to_nodes renders deep copies);
      * an ``&#`` that does not start a character reference stalls goahead() (``break``) and close() then reports the whole rest,
        tags included, as data -> feed() must keep the ``&#`` as data, advance and resume until nothing changes."""
    ph = cx.corpus.mod("parsers.parse_html")
    cands = [c_ for c_ in ph.classes.values() if any(b_.endswith("HTMLParser") for b_ in cx.corpus.external_bases(c_))]
    if len(cands) != 1:
        raise Unsupported("expected one HTMLParser subclass in parse_html")
    ci = cands[0]
    std = cx.corpus.sibling("stdlib:html/parser.py")
    rep.saw_sibling(std.rel)
    hp = std.classes.get("HTMLParser")
    if hp is None:
        raise AnchorMissing("HTMLParser not found in the stdlib html/parser.py")

    def has_const(fn_node, value) -> bool:
        return any(isinstance(x, ast.Constant) and x.value == value for x in ast.walk(fn_node))

    # ---- </> ----
    k = f"{ci.fq}.parse_endtag|an end tag without a name (`</>`) is kept as text"
    std_pe = hp.methods.get("parse_endtag")
    skips = std_pe is not None and has_const(std_pe.node, "</>")
    pe = ci.methods.get("parse_endtag")
    if not skips:
        rep.ok("C17.R1", k, std.site(std_pe.node) if std_pe else std.rel, "this html.parser does not special-case `</>`")
    elif pe is None:
        rep.violation("C17.R1", k, ph.site(ci.node), f"html.parser skips `</>` without any callback and {ci.name} does not override parse_endtag: '`<>x</>`' in an admonition body loses its `</>`, and `<img src=a>\\n</>` is converted to the image alone")
    else:
        cfg = get_cfg(pe)
        good = False
        for c in pe.local_nodes():
            if isinstance(c, ast.Call) and isinstance(c.func, ast.Attribute) and c.func.attr in ("handle_data",) or (isinstance(c, ast.Call) and isinstance(c.func, ast.Attribute) and c.func.attr.startswith("nest_")):
                if any(isinstance(a, ast.Constant) and a.value == "</>" for a in ast.walk(c)):
                    st = cfg.stmt_of(c)
                    guarded = any(pol and any(isinstance(x, ast.Constant) and x.value == "</>" for x in ast.walk(t)) for t, pol in cfg.guards(st))
                    stepped = any(isinstance(r, ast.Return) and isinstance(r.value, ast.BinOp) and isinstance(r.value.op, ast.Add) and isinstance(r.value.right, ast.Constant) and r.value.right.value == 3 and cfg.dominates(st, r) for r in pe.local_nodes())
                    good = guarded and stepped
        if good:
            rep.ok("C17.R1", k, pe.site(), "kept as data, input advanced by 3")
        else:
            rep.violation("C17.R1", k, pe.site(), f"{ci.name}.parse_endtag does not keep `</>` as data and step over it (html.parser itself skips it without a callback): '`<>x</>`' in an admonition body loses its `</>`, `<img src=a>\\n</>` is converted to the image alone")
    # ---- bogus comments ----
    std_bc = hp.methods.get("parse_bogus_comment")
    strips = std_bc is not None and any(isinstance(c, ast.Call) and isinstance(c.func, ast.Attribute) and c.func.attr == "handle_comment" for c in ast.walk(std_bc.node))
    k1 = f"{ci.fq}.parse_bogus_comment|`<!x>` / `</3>` keep their source text"
    bc = ci.methods.get("parse_bogus_comment")
    attr = None
    if not strips:
        rep.ok("C17.R1", k1, std.rel, "this html.parser does not report bogus comments through handle_comment")
    else:
        if bc is not None:
            for st in bc.local_nodes():
                if isinstance(st, ast.Assign) and isinstance(st.targets[0], ast.Attribute) and isinstance(st.value, ast.Subscript) and dotted(st.value.value) == "self.rawdata" and isinstance(st.value.slice, ast.Slice):
                    sl = st.value.slice
                    if isinstance(sl.lower, ast.Name) and sl.lower.id == bc.params[1] and isinstance(sl.upper, ast.Name):
                        attr = st.targets[0].attr
        if attr is None:
            rep.violation("C17.R1", k1, (bc.site() if bc else ph.site(ci.node)), f"html.parser reports `<!foo>` and `</3>` as comments without their delimiters and {ci.name} does not store the source text on the node: the admonition body 'a <!foo> b' is rendered back as the invisible comment 'a <!--foo--> b'")
        else:
            rep.ok("C17.R1", k1, bc.site(), f"node.{attr} = self.rawdata[i:j]")
            hc = ci.methods.get("handle_comment")
            ccls = None
            if hc is not None:
                for c in hc.local_nodes():
                    if isinstance(c, ast.Call) and isinstance(c.func, ast.Attribute) and c.func.attr.startswith("nest_"):
                        for a in c.args:
                            if isinstance(a, ast.Name) and a.id in ph.classes:
                                ccls = ph.classes[a.id]
            if ccls is None:
                raise Unsupported(f"{ci.name}.handle_comment: node class not found")
            rnd = cx.corpus.lookup_method(ccls, "render")
            k2 = f"{ccls.fq}.render|a comment with source text renders that text"
            rets = [r for r in rnd.local_nodes() if isinstance(r, ast.Return)] if rnd else []
            uses = bool(rets) and all(isinstance(r.value, ast.BoolOp) and isinstance(r.value.op, ast.Or) and unparse(r.value.values[0]) == f"self.{attr}" or (isinstance(r.value, ast.IfExp) and unparse(r.value.body) == f"self.{attr}" and f"self.{attr}" in unparse(r.value.test)) or unparse(r.value) == f"self.{attr}" for r in rets)
            if not uses and rnd is not None:
                rcfg = get_cfg(rnd)
                uses = any(unparse(r.value) == f"self.{attr}" and rcfg.guards(r) for r in rets) and len(rets) >= 2
            if uses:
                rep.ok("C17.R1", k2, rnd.site())
            else:
                rep.violation("C17.R1", k2, rnd.site() if rnd else ph.site(ccls.node), f"{ccls.name}.render rebuilds `<!--...-->` even when the node carries its source text (self.{attr}): 'a <!foo> b' becomes the invisible comment 'a <!--foo--> b' in the admonition body")
            dc = cx.corpus.lookup_method(ccls, "deepcopy")
            k3 = f"{dc.fq if dc else ccls.fq}|copies keep the source text"
            keeps = dc is not None and (any(isinstance(st, ast.Assign) and isinstance(st.targets[0], ast.Attribute) and st.targets[0].attr == attr and unparse(st.value) == f"self.{attr}" for st in dc.local_nodes()) or any(isinstance(c, ast.Call) and any(unparse(a) == f"self.{attr}" for a in list(c.args) + [k_.value for k_ in c.keywords]) for c in dc.local_nodes()))
            if keeps:
                rep.ok("C17.R1", k3, dc.site())
            else:
                rep.violation("C17.R1", k3, dc.site() if dc else ph.site(ccls.node), f"deepcopy of {ccls.name} does not copy `{attr}`: html_to_nodes renders the admonition body from `child.strip()` (a deep copy), whose bogus comments fall back to `<!--...-->`")
    # ---- "&#" stall ----
    ga = hp.methods.get("goahead")
    stalls = False
    if ga is not None:
        for n in ast.walk(ga.node):
            if isinstance(n, ast.If) and any(isinstance(x, ast.Constant) and x.value == "&#" for x in ast.walk(n.test)):
                stalls = any(isinstance(x, ast.Break) for x in ast.walk(n))
    k = f"{ci.fq}.feed|a stalled `&#` is kept as text and parsing resumes"
    fm = ci.methods.get("feed")
    if not stalls:
        rep.ok("C17.R1", k, std.rel, "this html.parser does not stall at `&#`")
    elif fm is None:
        rep.violation("C17.R1", k, ph.site(ci.node), "html.parser stops at an `&#` that is no character reference and feed() is not overridden")
    else:
        fcfg = get_cfg(fm)
        verdict = None
        # the loop may sit in feed() itself or in a method of the class that feed() calls (before close)
        hosts: list[tuple[FunctionInfo, ast.stmt | None]] = [(fm, None)]
        for c in fm.local_nodes():
            if isinstance(c, ast.Call) and isinstance(c.func, ast.Attribute) and dotted(c.func.value) == "self":
                hm = cx.corpus.lookup_method(ci, c.func.attr)
                if hm is not None and hm.module is ph and hm is not fm:
                    hosts.append((hm, fcfg.stmt_of(c)))
        for host, call_st in hosts:
          for w in host.local_nodes():
            if not isinstance(w, (ast.While, ast.For)):
                continue
            inner = [x for st in w.body for x in ast.walk(st)]
            tests = [x for x in inner if isinstance(x, ast.If) and any(isinstance(c, ast.Constant) and c.value == "&#" for c in ast.walk(x.test))]
            if not tests:
                continue
            t = tests[0]
            body = [x for st in t.body for x in ast.walk(st)]
            keeps = any(isinstance(c, ast.Call) and isinstance(c.func, ast.Attribute) and (c.func.attr == "handle_data" or c.func.attr.startswith("nest_")) and any(isinstance(a, ast.Constant) and a.value == "&#" for a in ast.walk(c)) for c in body)
            advances = any(isinstance(st, ast.Assign) and unparse(st.targets[0]) == "self.rawdata" and isinstance(st.value, ast.Subscript) and isinstance(st.value.slice, ast.Slice) and isinstance(st.value.slice.lower, ast.Constant) and st.value.slice.lower.value == 2 for st in body)
            resumes = [c for c in inner if isinstance(c, ast.Call) and unparse(c.func) in ("super().feed", "self.goahead", "HTMLParser.feed")]
            hcfg = get_cfg(host)
            resumes_all = bool(resumes) and any(hcfg.stmt_of(c) in w.body for c in resumes)
            closes = [c for c in fm.local_nodes() if isinstance(c, ast.Call) and unparse(c.func) in ("self.close", "super().close")]
            anchor = w if host is fm else call_st
            before_close = bool(closes) and all(fcfg.dominates(anchor, fcfg.stmt_of(c)) for c in closes)
            # progress detection: the loop ends only when a whole round (step over + resumed parse) left the buffer unchanged,
            # i.e. the snapshot compared with self.rawdata is taken before the step and not overwritten afterwards
            progress = True
            if isinstance(w, ast.While) and isinstance(w.test, ast.Compare) and len(w.test.ops) == 1 and isinstance(w.test.ops[0], ast.NotEq):
                sides = [w.test.left, w.test.comparators[0]]
                snap = next((x.id for x in sides if isinstance(x, ast.Name)), None)
                if snap is not None and any(unparse(x) == "self.rawdata" for x in sides):
                    adv = [st for st in body if isinstance(st, ast.Assign) and any(unparse(t_) == "self.rawdata" for t_ in st.targets)]
                    stores = [x for x in inner if isinstance(x, ast.Name) and x.id == snap and isinstance(x.ctx, ast.Store)]
                    taken = [x for x in stores if isinstance(parent(x), ast.Assign) and unparse(parent(x).value) == "self.rawdata" and parent(x) in w.body]
                    late = [x for x in stores if x not in taken]
                    progress = bool(taken) and not late and all(hcfg.dominates(parent(taken[0]), hcfg.stmt_of(a_)) for a_ in adv)
            missing = [nm for nm, ok_ in (("the `&#` is kept as data", keeps), ("the input is advanced past it", advances), ("parsing is resumed on every round of the loop", resumes_all), ("the loop runs before close()", before_close), ("the loop goes on while a round made progress (the buffer snapshot compared in its condition is overwritten after stepping over the `&#`, so a round that only steps - `&#&# </div>` - ends the loop and close() reports the rest, tags included, as text)", progress)) if not ok_]
            verdict = missing
        if verdict is None:
            rep.violation("C17.R1", k, fm.site(), f"html.parser stops for good at an `&#` that does not start a character reference and close() then reports the whole rest - tags included - as data; {ci.name}.feed has no resume loop for it: '<div class=\"admonition\">\\nA &# B\\n</div>' yields the admonition plus a stray raw `</div>`, and a title `R&#D` loses title and body")
        elif verdict:
            rep.violation("C17.R1", k, fm.site(), f"the resume loop for a stalled `&#` in {ci.name}.feed is incomplete ({'; '.join('not: ' + x for x in verdict)}): after `A &# B` the closing tags of the admonition are still reported as text")
        else:
            rep.ok("C17.R1", k, fm.site(), "kept as data, advanced by 2, re-fed in a loop before close()")


def _lit_text(l: ast.expr) -> str:
    neg = isinstance(l, ast.UnaryOp) and isinstance(l.op, ast.Not)
    a = l.operand if neg else l
    if isinstance(a, ast.Compare) and len(a.ops) == 1 and isinstance(a.ops[0], (ast.In, ast.NotIn)) and neg:
        flipped = ast.Compare(left=a.left, ops=[ast.NotIn() if isinstance(a.ops[0], ast.In) else ast.In()], comparators=a.comparators)
        return unparse(flipped)
    return ("not " if neg else "") + unparse(a)


def _whole_fragment_consumed(cx: Ctx, rep: Report, tk: FunctionInfo, feed: ast.Call) -> None:
    """html.parser keeps an unterminated tag / comment / reference at the end of the input in ``rawdata`` until close()
    is called; without it that tail is in no node of the tree, so `<img src=a>\\n<b` looks like a lone <img>, is converted,
    and the `<b` is dropped instead of the block passing through."""
    tm = tk.module
    recv = feed.func.value
    ci = _parse_html_class_of(cx, tm, recv, tk)
    if ci is None:
        # a cached / looked-up object: the one parse_html class that is an html.parser.HTMLParser
        ph = cx.corpus.mod("parsers.parse_html")
        cands = [c_ for c_ in ph.classes.values() if any(b_.endswith("HTMLParser") for b_ in cx.corpus.external_bases(c_))]
        ci = cands[0] if len(cands) == 1 else None
    k_fn = None
    closers: list[tuple[FunctionInfo, ast.AST]] = []
    # (a) the caller closes the parser it fed
    cfg = get_cfg(tk)
    for c in tk.local_nodes():
        if isinstance(c, ast.Call) and isinstance(c.func, ast.Attribute) and c.func.attr == "close" and unparse(c.func.value) == unparse(recv):
            try:
                if cfg.dominates(cfg.stmt_of(feed), cfg.stmt_of(c)) or cfg.stmt_of(c) is cfg.stmt_of(feed):
                    closers.append((tk, c))
            except Unsupported:
                pass
    # (b) the class's own feed() override closes after delegating to HTMLParser.feed
    fm = cx.corpus.lookup_method(ci, "feed") if ci is not None else None
    if fm is not None:
        k_fn = fm
        sup = [c for c in fm.local_nodes() if isinstance(c, ast.Call) and unparse(c.func) in ("super().feed", "HTMLParser.feed")]
        fcfg = get_cfg(fm)
        for c in fm.local_nodes():
            if isinstance(c, ast.Call) and unparse(c.func) in ("self.close", "super().close", "self.goahead") and sup:
                if unparse(c.func) == "self.goahead" and not (c.args and isinstance(c.args[0], ast.Constant) and c.args[0].value):
                    continue
                # every path from each delegated feed to the normal exit passes the close (feeds may sit in a resume loop)
                if all(fcfg.postdominates(fcfg.stmt_of(c), fcfg.stmt_of(s_)) and fcfg.stmt_of(c) is not fcfg.stmt_of(s_) for s_ in sup):
                    closers.append((fm, c))
    owner = k_fn or tk
    k = f"{owner.fq}|whole fragment tokenized (close after feed)"
    if closers:
        rep.ok("C17.R1", k, closers[0][0].module.site(closers[0][1]), f"{short(closers[0][1], 30)} flushes what the parser still buffers")
    elif ci is None:
        raise Unsupported(f"{tk.qualname}: cannot tell which parser class `{short(recv, 30)}` is")
    else:
        where = fm if fm is not None else tk
        rep.violation(
            "C17.R1",
            k,
            where.module.site(feed if where is tk else where.node),
            f"the fragment is fed to {ci.name} but the parser is never closed: html.parser keeps an unterminated tag, comment or reference at the end of "
            "the input in its buffer, so that tail is in no node of the tree. `<img src=\"a\">\\n<b` then looks like a lone <img>: it is converted to an image and "
            "the `<b` is silently dropped, although the block is not one of the convertible forms and must pass through as raw HTML with exactly its source text",
        )


def _fresh_tokenizer(cx: Ctx, rep: Report) -> None:
    """The tree html_to_nodes converts comes from a parser object built for this fragment (or reset before it is fed):
    html.parser.HTMLParser keeps ``rawdata`` and its CDATA mode (after ``<script>``/``<style>``) between feed() calls."""
    fi, m = cx.fi, cx.mod
    toks = [c for c in fi.local_nodes() if _is_tokenizer_call(cx, c)]
    if len(toks) != 1:
        raise Unsupported(f"expected one call of the HTML tokenizer on the text in html_to_nodes, found {len(toks)}")
    if isinstance(toks[0].func, ast.Attribute) and toks[0].func.attr == "feed" and _parse_html_class_of(cx, m, toks[0].func.value, fi) is not None:
        tk, feed = fi, toks[0]  # html_to_nodes feeds a parser object itself
    else:
        tk = cx.corpus.find_function(m.resolve(dotted(toks[0].func)))
        feeds = [c for c in tk.local_nodes() if isinstance(c, ast.Call) and isinstance(c.func, ast.Attribute) and c.func.attr == "feed"]
        if len(feeds) != 1:
            raise Unsupported(f"{tk.qualname}: expected one .feed(...) call, found {len(feeds)}")
        feed = feeds[0]
    rep.saw_function(tk.fq)
    tm = tk.module
    recv = feed.func.value
    _whole_fragment_consumed(cx, rep, tk, feed)
    _tokenizer_faithful(cx, rep)
    _parser_quirks_covered(cx, rep)
    k = f"{tk.fq}|parser state is per fragment"
    site = tm.site(feed)

    def is_ctor(v, depth: int = 0) -> bool:
        """a constructor call, or a call of an un-memoised package factory whose every result is one"""
        if not (isinstance(v, ast.Call) and dotted(v.func)):
            return False
        if cx.corpus.find_class(tm.resolve(dotted(v.func))) is not None:
            return True
        fac = cx.corpus.find_function(tm.resolve(dotted(v.func)))
        if fac is None or fac.is_lambda or depth > 1 or fac.module is not tm or fac.decorators():
            return False
        rets = [n for n in fac.local_nodes() if isinstance(n, ast.Return)]
        return bool(rets) and all(r.value is not None and is_ctor(r.value, depth + 1) for r in rets)

    def memoised(v) -> str | None:
        """name of the memoising decorator when ``v`` calls a cached package factory"""
        if isinstance(v, ast.Call) and dotted(v.func):
            fac = cx.corpus.find_function(tm.resolve(dotted(v.func)))
            if fac is not None and not fac.is_lambda:
                for d_ in fac.decorators():
                    if d_.split(".")[-1] in ("lru_cache", "cache", "cached", "memoize", "memoized"):
                        return f"@{d_} {fac.name}"
        return None

    cfg = get_cfg(tk)
    fst = cfg.stmt_of(feed)
    if is_ctor(recv):
        rep.ok("C17.R1", k, site, "parser constructed in the call")
        return
    resets = [c for c in tk.local_nodes() if isinstance(c, ast.Call) and isinstance(c.func, ast.Attribute) and c.func.attr == "reset" and unparse(c.func.value) == unparse(recv)]
    if any(cfg.dominates(cfg.stmt_of(r), fst) and cfg.stmt_of(r) is not fst for r in resets):
        rep.ok("C17.R1", k, site, "parser reset() before every feed")
        return
    if isinstance(recv, ast.Name):
        stores = [x for x in tk.local_nodes() if isinstance(x, ast.Name) and x.id == recv.id and isinstance(x.ctx, ast.Store)]
        vals = [parent(x).value for x in stores if isinstance(parent(x), (ast.Assign, ast.AnnAssign)) and getattr(parent(x), "value", None) is not None]
        if stores and len(vals) == len(stores) and all(is_ctor(v) for v in vals):
            # every definition is a fresh construction; it must happen on every call (not under a cache-miss test)
            if any(cfg.dominates(cfg.stmt_of(x), fst) for x in stores):
                rep.ok("C17.R1", k, site, f"{recv.id} = {short(vals[0], 50)} on every path to the feed")
                return
        if not stores and (recv.id in tm.const_nodes or recv.id not in tk.params):
            rep.violation("C17.R1", k, site, f"`{recv.id}` is one parser object shared by all calls: an earlier fragment that leaves html.parser in CDATA mode or with buffered text (an inline `<script>`, an unfinished tag) makes later <img>/<div class=admonition> fragments tokenize to nothing, so they are not converted")
            return
        globs = {nm for n in tk.local_nodes() if isinstance(n, ast.Global) for nm in n.names} | set(tm.const_nodes)
        if any(memoised(v) for v in vals) or any(isinstance(v, ast.Name) and v.id in globs and v.id not in tk.params for v in vals) or any(isinstance(v, (ast.Subscript, ast.Attribute)) or (isinstance(v, ast.Call) and isinstance(v.func, ast.Attribute) and v.func.attr in ("get", "setdefault", "pop")) for v in vals) or (stores and not any(cfg.dominates(cfg.stmt_of(x), fst) for x in stores)):
            rep.violation("C17.R1", k, site, f"`{recv.id}` can be a parser object kept from an earlier call (`{short(vals[0], 40) if vals else '?'}`) and is fed without reset(): html.parser state (CDATA mode after `<script>`, buffered text) leaks into this fragment, so a later <img>/<div class=admonition> is not converted")
            return
        raise Unsupported(f"{tk.qualname}: cannot see where `{recv.id}` comes from")
    if isinstance(recv, ast.Call) and not memoised(recv) and not (isinstance(recv.func, ast.Attribute) and recv.func.attr in ("get", "setdefault", "pop")):
        raise Unsupported(f"{tk.qualname}: cannot tell whether `{short(recv, 40)}` builds a new parser for every call")
    if isinstance(recv, (ast.Subscript, ast.Attribute, ast.Call)):
        rep.violation("C17.R1", k, site, f"`{short(recv, 40)}` is a stored parser object fed without reset(): html.parser state (CDATA mode after `<script>`, buffered text) leaks from earlier fragments, so a later <img>/<div class=admonition> is not converted")
        return
    raise Unsupported(f"{tk.qualname}: receiver of feed() not understood: {short(recv, 40)}")


def _attached_whole(f: FunctionInfo, call: ast.Call) -> bool:
    def is_cur(e):
        return (dotted(e) or "").endswith("current_node")

    p = parent(call)
    names = set()
    if isinstance(p, ast.Assign) and len(p.targets) == 1 and isinstance(p.targets[0], ast.Name):
        names.add(p.targets[0].id)
    for n in f.local_nodes():
        if isinstance(n, ast.Call) and isinstance(n.func, ast.Attribute) and n.func.attr == "extend" and is_cur(n.func.value) and len(n.args) == 1:
            a = n.args[0]
            if a is call or (isinstance(a, ast.Name) and a.id in names):
                return True
        if isinstance(n, ast.AugAssign) and isinstance(n.op, ast.Add) and is_cur(n.target):
            a = n.value
            if a is call or (isinstance(a, ast.Name) and a.id in names):
                return True
    return False


# ---------------------------------------------------------------------------
# R2 GFM filter: regex tree -> finite language; flags; look-ahead; replacement; dominance

_C = sre_parse  # opcodes live in re._constants, re-exported by re._parser


def _charset(items) -> set[str]:
    """ASCII members of an IN item list."""
    out: set[str] = set()
    negate = False
    for op, av in items:
        if op is _C.NEGATE:
            negate = True
        elif op is _C.LITERAL:
            out.add(chr(av))
        elif op is _C.RANGE:
            out.update(chr(c) for c in range(av[0], min(av[1], 127) + 1))
        elif op is _C.CATEGORY:
            name = str(av)
            table = {
                "CATEGORY_SPACE": set(" \t\n\r\f\v"),
                "CATEGORY_DIGIT": set("0123456789"),
                "CATEGORY_WORD": set("abcdefghijklmnopqrstuvwxyzABCDEFGHIJKLMNOPQRSTUVWXYZ0123456789_"),
            }
            neg_table = {"CATEGORY_NOT_SPACE": "CATEGORY_SPACE", "CATEGORY_NOT_DIGIT": "CATEGORY_DIGIT", "CATEGORY_NOT_WORD": "CATEGORY_WORD"}
            if name in table:
                out |= table[name]
            elif name in neg_table:
                out |= {chr(c) for c in range(128)} - table[neg_table[name]]
            else:
                raise Unsupported(f"regex category {name}")
        else:
            raise Unsupported(f"regex set item {op}")
    if negate:
        out = {chr(c) for c in range(128)} - out
    return out


def _lang(items, limit: int = 2000) -> set[str]:
    """Finite language of a (sub)pattern; Unsupported when not finite/small."""
    res = {""}
    for op, av in items:
        if op is _C.LITERAL:
            part = {chr(av)}
        elif op is _C.IN:
            part = _charset(av)
            if len(part) > 16:
                raise Unsupported("large character class inside the tag alternation")
        elif op is _C.SUBPATTERN:
            part = _lang(av[3], limit)
        elif op is _C.BRANCH:
            part = set()
            for alt in av[1]:
                part |= _lang(alt, limit)
        elif op in (_C.MAX_REPEAT, _C.MIN_REPEAT):
            lo, hi, sub = av
            if hi > 3:
                raise Unsupported("unbounded repeat in the GFM filter regex")
            one = _lang(sub, limit)
            part = set()
            cur = {""}
            for i in range(hi + 1):
                if i >= lo:
                    part |= cur
                cur = {a + b for a in cur for b in one}
        else:
            raise Unsupported(f"regex construct {op} in the GFM filter")
        res = {a + b for a in res for b in part}
        if len(res) > limit:
            raise Unsupported("GFM filter language too large to enumerate")
    return res


def _lookahead_set(av) -> tuple[set[str], set[str], bool]:
    """(characters accepted directly after the tag name, longer look-ahead strings, end-of-input accepted)"""
    direction, sub = av
    if direction != 1:
        raise Unsupported("look-behind at the end of the GFM filter regex")
    items = list(sub)
    alts = [items]
    if len(items) == 1 and items[0][0] is _C.BRANCH:
        alts = [list(a) for a in items[0][1][1]]
    chars: set[str] = set()
    longer: set[str] = set()
    at_end = False
    for alt in alts:
        if len(alt) == 1 and alt[0][0] is _C.AT and str(alt[0][1]) in ("AT_END", "AT_END_STRING"):
            at_end = True
            continue
        if len(alt) == 1 and alt[0][0] is _C.IN:
            chars |= _charset(alt[0][1])  # may be large (e.g. a negated class): judged as a set
            continue
        for s_ in _lang(alt):
            if len(s_) == 1:
                chars.add(s_)
            elif s_:
                longer.add(s_)
            else:
                raise Unsupported("look-ahead alternative that matches the empty string")
    return chars, longer, at_end


def _regex_flags(mod: Module, compile_call: ast.Call) -> int:
    f = arg_or_kw(compile_call, 1, "flags")
    if f is None:
        return 0

    def ev(e) -> int:
        if isinstance(e, ast.BinOp) and isinstance(e.op, ast.BitOr):
            return ev(e.left) | ev(e.right)
        d = dotted(e)
        if d:
            r = mod.resolve(d)
            if r.startswith("re.") and isinstance(getattr(re, r[3:], None), re.RegexFlag):
                return int(getattr(re, r[3:]))
        if isinstance(e, ast.Constant) and isinstance(e.value, int):
            return e.value
        raise Unsupported(f"regex flags `{short(e, 40)}`")

    return ev(f)


def _match_whole(e: ast.expr, p: str) -> bool:
    """``m.group(0)`` / ``m.group()`` / ``m[0]``"""
    if isinstance(e, ast.Call) and isinstance(e.func, ast.Attribute) and e.func.attr == "group" and isinstance(e.func.value, ast.Name) and e.func.value.id == p:
        return not e.args or (len(e.args) == 1 and isinstance(e.args[0], ast.Constant) and e.args[0].value == 0)
    if isinstance(e, ast.Subscript) and isinstance(e.value, ast.Name) and e.value.id == p and isinstance(e.slice, ast.Constant) and e.slice.value == 0:
        return True
    return False


def _repl_neutralises(repl: ast.expr | None) -> tuple[bool, str]:
    if repl is None:
        raise Unsupported("GFM substitution without replacement argument")
    if isinstance(repl, ast.Lambda) and len(repl.args.args) == 1:
        p = repl.args.args[0].arg
        b = repl.body
        if isinstance(b, ast.Call) and isinstance(b.func, ast.Attribute) and b.func.attr == "replace" and _match_whole(b.func.value, p) and len(b.args) == 2 and all(isinstance(a, ast.Constant) and isinstance(a.value, str) for a in b.args):
            old, new = b.args[0].value, b.args[1].value
            if old != "<":
                return False, f"the replacement rewrites {old!r}, not the '<' that opens the tag"
            if "<" in new:
                return False, f"the replacement text {new!r} still contains '<': the tag is still opened"
            return True, f"'<' -> {new!r}"
        if isinstance(b, ast.BinOp) and isinstance(b.op, ast.Add) and isinstance(b.left, ast.Constant) and isinstance(b.left.value, str) and isinstance(b.right, ast.Subscript) and _match_whole(b.right.value, p) and isinstance(b.right.slice, ast.Slice) and isinstance(b.right.slice.lower, ast.Constant) and b.right.slice.lower.value == 1 and b.right.slice.upper is None:
            if "<" in b.left.value:
                return False, f"the replacement prefix {b.left.value!r} still contains '<'"
            return True, f"'<' -> {b.left.value!r}"
        raise Unsupported(f"replacement lambda not understood: {short(repl, 70)}")
    if isinstance(repl, ast.Constant) and isinstance(repl.value, str):
        rest = re.sub(r"\\g<[^>]*>", "", repl.value)
        if "<" in rest:
            return False, f"the replacement template {repl.value!r} still contains '<'"
        return True, f"template {repl.value!r}"
    raise Unsupported(f"replacement not understood: {short(repl, 70)}")


@rule("C17.R2")
def r2_gfm_filter(corpus: Corpus, rep: Report, tier: str):
    rep.rule("C17.R2", "GFM tag filter: language = '<' ['/'] nine spec tags, case-insensitive, name-terminator look-ahead, '<' neutralised, under gfm_only alone, before every use of the text")
    cx = _ctx(corpus)
    flt = _filter(corpus)
    fi, m, cfg = flt.fn, flt.fn.module, flt.cfg
    p_text = flt.p_text
    p_renderer = cx.p_renderer if fi is cx.fi else (cx.entry.params[2] if len(cx.entry.params) > 2 else None)
    if flt.stmt is None:
        raise AnchorMissing("no substitution with a module-level compiled regex in html_to_nodes (the GFM tag filter)")
    rx_site = m.site(flt.compile_call)
    pat = m.eval_const(flt.compile_call.args[0]) if flt.compile_call.args else None
    if not isinstance(pat, str):
        raise Unsupported("GFM filter pattern is not a string literal")
    flags = _regex_flags(m, flt.compile_call)
    tree = sre_parse.parse(pat, flags)
    flags |= tree.state.flags
    if flags & re.VERBOSE and not (tree.state.flags & re.VERBOSE):
        tree = sre_parse.parse(pat, flags)
    items = list(tree)
    look = None
    if items and items[-1][0] is _C.ASSERT:
        look = items.pop()
    elif items and items[-1][0] is _C.ASSERT_NOT:
        raise Unsupported("negative look-ahead terminator in the GFM filter regex")
    lang = {s.lower() for s in _lang(items)}
    pre = f"{m.name}:{flt.regex_name}"
    # tags
    if not all(s.startswith("<") for s in lang):
        rep.violation("C17.R2", f"{pre}|starts at '<'", rx_site, "some match of the filter does not start with '<'")
        tags_open, tags_close = set(), set()
    else:
        rep.ok("C17.R2", f"{pre}|starts at '<'", rx_site)
        tags_close = {s[2:] for s in lang if s.startswith("</")}
        tags_open = {s[1:] for s in lang if not s.startswith("</")}
    k = f"{pre}|tag set"
    tags = tags_open | tags_close
    missing, extra = GFM_DISALLOWED - tags, tags - GFM_DISALLOWED
    if missing or extra:
        rep.violation("C17.R2", k, rx_site, "filter tags differ from the GFM disallowed-raw-HTML list: " + "; ".join(x for x in (f"not neutralised: {sorted(missing)}" if missing else "", f"neutralised but allowed by GFM: {sorted(extra)}" if extra else "") if x))
    else:
        rep.ok("C17.R2", k, rx_site, ", ".join(sorted(tags)))
    k = f"{pre}|opening and closing form"
    if tags_open != tags_close:
        rep.violation("C17.R2", k, rx_site, f"'/' is not optional for {sorted(tags_open ^ tags_close)}: GFM filters both <tag and </tag")
    else:
        rep.ok("C17.R2", k, rx_site)
    k = f"{pre}|case-insensitive"
    fold = sorted({c for t_ in tags for c in t_ if c in "iIsSkK"})
    if flags & re.IGNORECASE and not (flags & re.ASCII) and fold:
        rep.violation("C17.R2", k, rx_site, f"IGNORECASE on a str pattern without re.ASCII uses Unicode case folding: {fold!r} in the tag names also match U+0130/U+0131 (dotted/dotless i), U+017F (long s) and U+212A (Kelvin sign), so `<tıtle>`, `<scrıpt>`, `<noframeſ>` - names that are not on the GFM list - are rewritten to `&lt;...`")
    elif flags & re.IGNORECASE:
        rep.ok("C17.R2", k, rx_site, "ASCII-only case folding")
    else:
        rep.violation("C17.R2", k, rx_site, "without IGNORECASE `<SCRIPT>` / `<Script>` are not neutralised (HTML tag names are case-insensitive)")
    k = f"{pre}|tag-name terminator"
    if look is None:
        rep.violation("C17.R2", k, rx_site, "no look-ahead after the tag name: `<titles>` / `<style-x>` (other elements) are rewritten too")
    else:
        chars, longer, at_end = _lookahead_set(look[1])
        miss = TAG_NAME_END - chars
        namec = (chars | {s_[0] for s_ in longer}) & TAG_NAME_CHARS
        cond = sorted(s_ for s_ in longer if s_[0] in miss)
        if miss and cond and not (miss - {s_[0] for s_ in cond}):
            rep.violation("C17.R2", k, rx_site, f"a disallowed tag whose name is followed by {sorted(miss)!r} is only neutralised when the text continues with {cond!r}: the HTML tokenizer ends the tag name at that character whatever follows (`<script/src=x>` is a script start tag, the stray '/' is ignored), so such occurrences still open the element")
        elif miss:
            rep.violation("C17.R2", k, rx_site, f"a disallowed tag whose name is followed by {sorted(miss)!r} is not neutralised although it opens the element")
        elif namec:
            rep.violation("C17.R2", k, rx_site, f"look-ahead accepts tag-name characters {sorted(namec)!r}: longer (allowed) tag names are rewritten")
        else:
            rep.ok("C17.R2", k, rx_site, "look-ahead ⊇ {TAB LF FF CR SPACE / >}, no name character" + (", or end of input" if at_end else ""))
    # replacement
    k = f"{fi.fq}|replacement neutralises '<'"
    ok, why = _repl_neutralises(flt.repl)
    (rep.ok if ok else rep.violation)("C17.R2", k, m.site(flt.call), why)
    k = f"{fi.fq}|every occurrence"
    if flt.count is None or (isinstance(flt.count, ast.Constant) and flt.count.value == 0):
        rep.ok("C17.R2", k, m.site(flt.call), "no count limit")
    else:
        rep.violation("C17.R2", k, m.site(flt.call), f"count={unparse(flt.count)}: only the first occurrence(s) are neutralised")
    # subject and target
    k = f"{fi.fq}|filters the source text in place"
    fvar = flt.target  # the variable that holds the filtered text
    if isinstance(flt.string, ast.Name) and flt.string.id == p_text and flt.target == p_text:
        rep.ok("C17.R2", k, m.site(flt.stmt))
    elif isinstance(flt.string, ast.Name) and flt.string.id in (p_text, fvar):
        # `raw_text = text; if gfm_only: raw_text = RE.sub(.., text)`: the filtered copy is a second variable
        others = [d for d in cx.defs_in(fi, fvar) if not (d is flt.call or (isinstance(d, ast.Tuple) and _stmt_of_safe(cx, d, flt.cfg) is flt.stmt))]
        if not others or not all(isinstance(d, ast.Name) and d.id == p_text for d in others):
            raise Unsupported(f"`{fvar}` (the filtered text) has definitions other than `{p_text}` and the filter")
        rep.ok("C17.R2", k, m.site(flt.stmt), f"filtered copy kept in `{fvar}`")
    else:
        rep.violation("C17.R2", k, m.site(flt.stmt), f"the filter is applied to `{short(flt.string, 40) if flt.string is not None else '?'}`, not to the text that is passed on")
    # guard
    k = f"{fi.fq}|conditional on gfm_only alone"
    if flt.if_stmt is None:
        gs = cfg.guards(flt.stmt)
        if gs:
            raise Unsupported("GFM filter is guarded in an idiom other than `if <renderer>.md_config.gfm_only:`")
        rep.violation("C17.R2", k, m.site(flt.stmt), "the tag filter runs unconditionally: outside GFM mode the raw node no longer holds exactly the source text")
        return
    t = flt.if_stmt.test
    d = dotted(t) or ""
    if isinstance(t, ast.Name):
        defs = cx.defs_in(fi, t.id)
        d = dotted(defs[0]) or "" if len(defs) == 1 and isinstance(defs[0], ast.expr) else ""
    encl = parent(flt.if_stmt)
    outer = []
    while encl is not None and encl is not fi.node:
        if isinstance(encl, ast.If):
            outer.append(encl)
        elif isinstance(encl, ast.stmt):
            raise Unsupported(f"GFM filter nested in `{short(encl, 40)}`")
        encl = parent(encl)
    if d.split(".")[0] == p_renderer and d.endswith(".gfm_only") and not outer and not flt.if_stmt.orelse:
        rep.ok("C17.R2", k, m.site(flt.if_stmt), d)
    elif any((dotted(x) or "").endswith(".gfm_only") for x in ast.walk(t)) or outer:
        rep.violation("C17.R2", k, m.site(flt.if_stmt), f"the filter depends on more than gfm_only (`{short(t, 60)}`" + (f", nested under `{short(outer[0].test, 40)}`" if outer else "") + "): in GFM mode some configurations leave disallowed tags in place")
        return
    else:
        raise Unsupported(f"filter condition `{short(t, 60)}` is not the gfm_only setting")
    # dominance: every use of the text and every return is after the filter (on the gfm path)
    fedge = ("F", flt.if_stmt)
    points: dict[ast.stmt, str] = {}
    unfiltered_emitted: list[ast.Name] = []
    for n in fi.local_nodes():
        if isinstance(n, ast.Name) and n.id == fvar and isinstance(n.ctx, ast.Load):
            st = cfg.stmt_of(n)
            if st is not flt.stmt:
                points.setdefault(st, "use of the text")
        elif isinstance(n, ast.Return):
            points.setdefault(cfg.stmt_of(n), "return")
        if fvar != p_text and isinstance(n, ast.Name) and n.id == p_text and isinstance(n.ctx, ast.Load):
            # the unfiltered parameter may feed the filter, the initial copy and the tokenizer, but must not be emitted
            p_ = parent(n)
            if isinstance(p_, ast.Call) and n in p_.args and dotted(p_.func) and not _is_tokenizer_call(cx, p_) and p_ is not flt.call and p_ is not cx.delegate:
                callee = corpus.find_function(m.resolve(dotted(p_.func)))
                if callee is not None and _emits_raw(cx, callee):
                    unfiltered_emitted.append(n)
                elif callee is None or not callee.module.name.endswith("parse_html"):
                    raise Unsupported(f"cannot tell whether `{short(p_, 50)}` emits the unfiltered text")
    for n in unfiltered_emitted:
        st = cfg.stmt_of(n)
        k = f"{fi.fq}|unfiltered text emitted|{short(st, 90)}|{_where(st)}"
        rep.violation("C17.R2", k, m.site(st), f"`{short(parent(n), 60)}` passes the unfiltered `{p_text}` through although the GFM-filtered copy is `{fvar}`: in gfm_only mode disallowed tags reach the output on this path ({_where(st)})")
    for st, kind in sorted(points.items(), key=lambda kv: kv[0].lineno):
        hdr = st.test if isinstance(st, (ast.If, ast.While)) else st
        k = f"{fi.fq}|filter precedes|{short(hdr, 90)}|{_where(st)}"
        if cfg.paths_avoiding("ENTRY", st, lambda x: x is flt.stmt or x == fedge):
            if isinstance(st, (ast.If, ast.While)) or any(isinstance(x, ast.Name) and x.id == p_text for t_, _ in cfg.guards(st) for x in ast.walk(t_)):
                # e.g. `if not text: return ...` ahead of the filter: whether a text with disallowed tags can take this path depends on values
                rep.error("C17.R2", f"`{short(hdr, 60)}` ({_where(st)}) precedes the GFM filter under a condition on the text itself: cannot decide statically whether filtered and unfiltered text differ there")
                continue
            rep.violation("C17.R2", k, m.site(st), f"`{short(hdr, 60)}` ({kind}) is reachable in GFM mode without the tag filter having run: disallowed tags reach the output on that path")
        else:
            rep.ok("C17.R2", k, m.site(st), kind)
    # a separate filtered copy made by the wrapper: the core must emit that copy, never the text as written
    if cx.entry is not cx.fi and fi is cx.entry and fvar != p_text:
        roles = _core_text_params(cx)
        core, cm = cx.fi, cx.fi.module
        has_filtered = any(v == "filtered" for v in roles.values())
        for r in sorted((n for n in core.local_nodes() if isinstance(n, ast.Return) and n.value is not None), key=lambda n: n.lineno):
            for part in [q for p0 in _split_add(r.value) for q in (_split_add(_inline_closure(cx, p0)) if _inline_closure(cx, p0) is not None else [p0])]:
                if not (isinstance(part, ast.Call) and dotted(part.func)):
                    continue
                callee = corpus.find_function(cm.resolve(dotted(part.func)))
                if callee is None or not _emits_raw(cx, callee):
                    continue
                a0 = _emitted_text_arg(cx, part, callee)
                k = f"{core.fq}|emits the filtered copy|{short(r, 90)}|{_where(r)}"
                role = roles.get(a0.id) if isinstance(a0, ast.Name) else None
                if role == "filtered":
                    rep.ok("C17.R2", k, cm.site(r), f"`{a0.id}` is the wrapper's `{fvar}`")
                elif role in ("unfiltered", "text") or not has_filtered:
                    rep.violation("C17.R2", k, cm.site(r), f"`{short(part, 60)}` ({_where(r)}) passes `{short(a0, 20) if a0 is not None else '?'}` through - the text as written - although the wrapper keeps the GFM-filtered text in a separate copy (`{fvar}`): in gfm_only mode disallowed tags such as <script> reach the output unfiltered on this path" + ("" if has_filtered else f"; the filtered copy is not even handed to {core.name}"))
                else:
                    raise Unsupported(f"cannot tell which text `{short(part, 50)}` emits")
    # the wrapper in front of the core function must not emit text the filter has not seen
    if cx.entry is not cx.fi and fi is cx.fi:
        ecfg = get_cfg(cx.entry)
        for r in sorted((n for n in cx.entry.local_nodes() if isinstance(n, ast.Return) and n.value is not None), key=lambda n: n.lineno):
            emits = False
            for part in _split_add(r.value):
                if isinstance(part, ast.Call) and part is not cx.delegate and dotted(part.func):
                    callee = corpus.find_function(cx.entry.module.resolve(dotted(part.func)))
                    if callee is not None and _emits_raw(cx, callee) and any(isinstance(x, ast.Name) and x.id == cx.entry_text for a_ in part.args for x in ast.walk(a_)):
                        emits = True
            k = f"{cx.entry.fq}|filter precedes|{short(r, 90)}|{_where(r)}"
            if emits:
                rep.violation("C17.R2", k, m.site(r), f"`{short(r, 70)}` ({_where(r)}) in the wrapper passes its own `{cx.entry_text}` through, but the GFM filter runs inside {cx.fi.name} on that function's copy: in gfm_only mode the fragment reaches the output unfiltered on this path (e.g. a deeply nested block that exhausts the recursion limit while an HTML extension is enabled), so disallowed tags such as <script> stay live")
            else:
                rep.ok("C17.R2", k, m.site(r), "delegates to the filtering function")
    rep.expect_min("C17.R2", 10, "9 filter facts + the uses/returns of html_to_nodes on the pinned tree")



# ---------------------------------------------------------------------------
# taint evaluation (R3 collects the whitelists it meets, R4 judges the kinds)

CLEAN, QUOTED, RAW = 0, 1, 2
_OPTION_NAME = re.compile(r"^[A-Za-z][A-Za-z0-9_-]*$")
_STR_KEEP = {"strip", "rstrip", "lstrip", "lower", "upper", "casefold", "expandtabs", "title", "capitalize", "swapcase", "removeprefix", "removesuffix", "ljust", "rjust", "center", "zfill"}
_SEQ_KEEP = {"sorted", "list", "tuple", "reversed", "set", "frozenset", "iter", "enumerate_values"}
_BUILTINS = set(dir(__import__("builtins")))
_CLEAN_BUILTINS = {"len", "int", "float", "bool", "isinstance", "any", "all", "range", "id", "hash", "callable"}


class V:
    """Abstract value: ``kind`` of the string content (join over everything inside), element structure, provenance."""

    __slots__ = ("kind", "elem", "tup", "is_map", "leaves", "wl", "const")

    def __init__(self, kind=CLEAN, elem=None, tup=None, is_map=False, leaves=(), wl=frozenset(), const=None):
        self.kind, self.elem, self.tup, self.is_map = kind, elem, tup, is_map
        self.const = const  # (module, name) when the value is a reference to a module-level constant
        self.leaves = tuple(leaves)  # (node, description) where an unquoted attribute string enters
        self.wl = frozenset(wl)  # names of whitelist constants that filtered attribute names on the way

    def with_(self, **kw):
        d = {a: getattr(self, a) for a in self.__slots__}
        d.update(kw)
        return V(**d)


def vjoin(*vs: V) -> V:
    vs = [v for v in vs if v is not None]
    if not vs:
        return V()
    leaves = []
    for v in vs:
        for l in v.leaves:
            if l not in leaves:
                leaves.append(l)
    return V(max(v.kind for v in vs), None, None, False, leaves, frozenset().union(*(v.wl for v in vs)))


class Taint:
    def __init__(self, cx: Ctx, fi: FunctionInfo | None = None, param_env: dict | None = None, depth: int = 0):
        self.cx = cx
        self.param_env = param_env or {}
        self.depth = depth
        self.fi = fi or cx.fi
        self.mod = self.fi.module
        self.cfg = get_cfg(self.fi)
        self._names: dict = {}
        self._busy: set = set()

    # -- sources ---------------------------------------------------------------
    def is_attrs(self, e: ast.expr) -> bool:
        return isinstance(e, ast.Attribute) and e.attr == self.cx.attrs_name

    def raw(self, node: ast.AST, what: str) -> V:
        return V(RAW, leaves=[(node, what)])

    def attrs_map(self, node) -> V:
        return V(RAW, is_map=True, leaves=[(node, "HTML attribute mapping")])

    # -- names -----------------------------------------------------------------------
    def name(self, n: ast.Name, env: dict) -> V:
        """Value of a local at this use: join over the definitions that reach the use (CFG reaching definitions)."""
        if n.id in env:
            return env[n.id]
        if n.id in self.fi.params and not any(isinstance(x, ast.Name) and x.id == n.id and isinstance(x.ctx, ast.Store) for x in self.fi.local_nodes()):
            return self.param_env.get(n.id, V())
        cfg = self.cfg
        stores = [x for x in self.fi.local_nodes() if isinstance(x, ast.Name) and x.id == n.id and isinstance(x.ctx, ast.Store) and not isinstance(parent(x), ast.comprehension)]
        if not stores:
            if n.id in self.mod.const_nodes and n.id not in self.fi.params:
                return V(const=(self.mod, n.id))
            if n.id in self.fi.params or n.id in self.mod.functions or n.id in self.mod.classes or n.id in self.mod.imports or n.id in _BUILTINS:
                return V()
            # a comprehension variable used outside env (should not happen) or an unknown global
            raise Unsupported(f"name `{n.id}` has no definition the taint evaluation can see")
        try:
            use = cfg.stmt_of(n)
        except Unsupported:
            raise Unsupported(f"use of `{n.id}` outside the CFG")
        key = (n.id, id(use))
        if key in self._names:
            return self._names[key]
        if key in self._busy:
            return V()
        self._busy.add(key)
        def_stmts = {id(cfg.stmt_of(x)): cfg.stmt_of(x) for x in stores}
        vals = []
        for st in stores:
            dst = cfg.stmt_of(st)
            others = {i for i in def_stmts if i != id(dst) and i != id(use)}
            avoid = lambda x, others=others: id(x) in others
            if dst is use:
                reaches = any(id(s_) not in others and cfg.paths_avoiding(s_, use, avoid) for s_ in cfg.succ.get(use, []))
                # `x = f(x)`: the right-hand side sees the *other* definitions; the statement's own store only via a loop
            else:
                reaches = cfg.paths_avoiding(dst, use, avoid)
            if not reaches:
                continue
            vals.append(self.stored_value(st))
        if n.id in self.fi.params and cfg.paths_avoiding("ENTRY", use, lambda x: id(x) in def_stmts and x is not use):
            vals.append(self.param_env.get(n.id, V()))
        # in-place growth of a local container (flow-insensitive): lines.append(f"...") / .extend / .insert / .add
        for c in self.fi.local_nodes():
            if isinstance(c, ast.Call) and isinstance(c.func, ast.Attribute) and isinstance(c.func.value, ast.Name) and c.func.value.id == n.id and c.args:
                if c.func.attr in ("append", "add", "appendleft"):
                    el = self.ev(c.args[0], {})
                elif c.func.attr == "insert" and len(c.args) == 2:
                    el = self.ev(c.args[1], {})
                elif c.func.attr in ("extend", "update", "extendleft"):
                    el = self.elem_of(self.ev(c.args[0], {}), c.args[0])
                else:
                    continue
                if el.kind != CLEAN or el.wl:
                    vals.append(V(el.kind, elem=el, leaves=el.leaves, wl=el.wl))
        self._busy.discard(key)
        if not vals:
            v = V()
        elif len(vals) == 1:
            v = vals[0]
        else:
            j = vjoin(*vals)
            elems = [x.elem for x in vals if x.elem is not None]
            v = j.with_(elem=vjoin(*elems) if elems else None, is_map=any(x.is_map for x in vals))
        if v.kind != CLEAN and not v.is_map and v.elem is None:
            # statement-level whitelist guard: `if k in OPTION_KEYS: ... k ...`
            envg = {n.id: v}
            wl: set[str] = set()
            for t, pol in cfg.guards(use):
                if pol:
                    self.refine(t, envg, wl)
                elif isinstance(t, ast.Compare) and len(t.ops) == 1 and isinstance(t.ops[0], ast.NotIn):
                    # `if k not in OPTION_KEYS: continue`
                    self.refine(ast.Compare(left=t.left, ops=[ast.In()], comparators=t.comparators), envg, wl)
            v = envg[n.id]
        self._names[key] = v
        return v

    def stored_value(self, st: ast.Name) -> V:
        p = parent(st)
        if isinstance(p, (ast.Assign, ast.AnnAssign)) and p.value is not None:
            return self.ev(p.value, {})
        if isinstance(p, ast.AugAssign):
            prev = ast.Name(id=st.id, ctx=ast.Load())
            prev._parent = p  # type: ignore[attr-defined]
            return vjoin(self.ev(p.value, {}), self.name(prev, {}))
        if isinstance(p, ast.For) and p.target is st:
            return self.elem_of(self.ev(p.iter, {}), p.iter)
        if isinstance(p, ast.Tuple) and isinstance(parent(p), (ast.Assign, ast.For)):
            pp = parent(p)
            src = self.ev(pp.value, {}) if isinstance(pp, ast.Assign) else self.elem_of(self.ev(pp.iter, {}), pp.iter)
            idx = p.elts.index(st)
            return src.tup[idx] if src.tup and idx < len(src.tup) else src.with_(elem=None, tup=None, is_map=False)
        if isinstance(p, ast.NamedExpr):
            return self.ev(p.value, {})
        raise Unsupported(f"store to `{st.id}` in an idiom the taint evaluation does not model: {short(p, 60)}")

    def elem_of(self, v: V, node) -> V:
        if v.is_map:
            return self.raw(node, "attribute name").with_(wl=v.wl)
        if v.elem is not None:
            return v.elem
        if v.tup:
            return vjoin(*v.tup)
        return v.with_(elem=None, tup=None, is_map=False)

    # -- expressions ----------------------------------------------------------------
    def ev(self, e: ast.expr, env: dict) -> V:
        cx = self.cx
        if isinstance(e, ast.Constant):
            return V()
        if isinstance(e, ast.Name):
            return self.name(e, env)
        if isinstance(e, ast.JoinedStr):
            parts = []
            for p in e.values:
                if isinstance(p, ast.FormattedValue):
                    v = self.ev(p.value, env)
                    if v.kind == RAW and len(v.leaves) == 1 and v.leaves[0][0] is p.value:
                        v = v.with_(leaves=[(p, v.leaves[0][1])])
                    elif v.kind == RAW and isinstance(p.value, ast.Name):
                        v = v.with_(leaves=[(p, v.leaves[0][1] if v.leaves else "attribute string")])
                    parts.append(v)
            return vjoin(*parts)
        if self.is_attrs(e):
            return self.attrs_map(e)
        if isinstance(e, ast.Attribute):
            base = self.ev(e.value, env)
            if base.is_map:
                return V(RAW, elem=self.raw(e, f"attribute value ({e.attr})"), leaves=[(e, f"attribute value ({e.attr})")])
            return base.with_(is_map=False)
        if isinstance(e, ast.Subscript):
            base = self.ev(e.value, env)
            if base.is_map:
                return self.raw(e, "attribute value")
            if base.tup and isinstance(e.slice, ast.Constant) and isinstance(e.slice.value, int) and -len(base.tup) <= e.slice.value < len(base.tup):
                return base.tup[e.slice.value]
            if base.elem is not None and not isinstance(e.slice, ast.Slice):
                return base.elem
            return base
        if isinstance(e, ast.BinOp) and isinstance(e.op, (ast.Add, ast.Mod, ast.Mult)):
            return vjoin(self.ev(e.left, env), self.ev(e.right, env))
        if isinstance(e, ast.IfExp):
            return vjoin(self.ev(e.body, env), self.ev(e.orelse, env))
        if isinstance(e, ast.BoolOp):
            return vjoin(*(self.ev(v, env) for v in e.values))
        if isinstance(e, (ast.Compare, ast.UnaryOp)):
            return V()
        if isinstance(e, (ast.List, ast.Tuple, ast.Set)):
            vs = [self.ev(x.value if isinstance(x, ast.Starred) else x, env) for x in e.elts]
            j = vjoin(*vs)
            return j.with_(tup=vs if isinstance(e, ast.Tuple) else None, elem=vjoin(*vs) if vs else None)
        if isinstance(e, (ast.GeneratorExp, ast.ListComp, ast.SetComp)):
            env2 = dict(env)
            wl: set[str] = set()
            for comp in e.generators:
                it = self.ev(comp.iter, env2)
                el = self.elem_of(it, comp.iter)
                self.bind(comp.target, el, env2)
                for cond in comp.ifs:
                    self.refine(cond, env2, wl)
            v = self.ev(e.elt, env2)
            v = v.with_(wl=v.wl | wl)
            return v.with_(elem=v.with_(elem=None), tup=None)
        if isinstance(e, ast.Call):
            return self.call(e, env)
        if isinstance(e, ast.NamedExpr):
            return self.ev(e.value, env)
        # anything else: only acceptable when it cannot carry an attribute string
        bound = {a.arg for x in ast.walk(e) if isinstance(x, ast.Lambda) for a in x.args.args + x.args.kwonlyargs + x.args.posonlyargs}
        bound |= {t.id for x in ast.walk(e) if isinstance(x, ast.comprehension) for t in ast.walk(x.target) if isinstance(t, ast.Name)}
        for n in ast.walk(e):
            if self.is_attrs(n) or (isinstance(n, ast.Name) and n.id not in bound and isinstance(n.ctx, ast.Load) and self.name(n, env).kind != CLEAN):
                raise Unsupported(f"expression form not modelled by the taint evaluation: {short(e, 60)}")
        return V()

    def bind(self, target, v: V, env: dict) -> None:
        if isinstance(target, ast.Name):
            env[target.id] = v
        elif isinstance(target, (ast.Tuple, ast.List)):
            for i, t in enumerate(target.elts):
                self.bind(t, v.tup[i] if v.tup and i < len(v.tup) else v.with_(tup=None, elem=None, is_map=False), env)
        else:
            raise Unsupported(f"comprehension target {short(target, 30)}")

    def refine(self, cond: ast.expr, env: dict, wl: set[str]) -> None:
        """``k in WHITELIST`` with a module constant of plain option names makes ``k`` clean."""
        if isinstance(cond, ast.BoolOp) and isinstance(cond.op, ast.And):
            for c in cond.values:
                self.refine(c, env, wl)
            return
        if isinstance(cond, ast.Compare) and len(cond.ops) == 1 and isinstance(cond.ops[0], ast.In) and isinstance(cond.left, ast.Name) and cond.left.id in env:
            comp = cond.comparators[0]
            vals = None
            cname = None
            cref = None
            if isinstance(comp, ast.Name):
                if comp.id in self.mod.const_nodes and comp.id not in self.fi.params and comp.id not in env:
                    cref = (self.mod, comp.id)
                else:
                    try:
                        cref = self.name(comp, env).const
                    except Unsupported:
                        cref = None
            if cref is not None:
                cname = cref[1]
                vals = cref[0].eval_const(cref[0].const_nodes[cname])
            elif isinstance(comp, (ast.Set, ast.Tuple, ast.List)):
                cname = unparse(comp)
                vals = self.mod.eval_const(comp)
            if vals is not None and isinstance(vals, (set, frozenset, tuple, list)) and all(isinstance(x, str) and _OPTION_NAME.match(x) for x in vals):
                old = env[cond.left.id]
                env[cond.left.id] = V(CLEAN, wl=old.wl | {cname})
                wl.add(cname)

    def call(self, e: ast.Call, env: dict) -> V:
        f = e.func
        args = [a.value if isinstance(a, ast.Starred) else a for a in e.args] + [k.value for k in e.keywords]
        d = dotted(f)
        # sanitisers
        sv = self.sanitiser_verdict(e)
        if sv is not None:
            inner = vjoin(*(self.ev(a, env) for a in args[:1]))
            if inner.kind == CLEAN:
                return V(wl=inner.wl)
            if sv[0] == "quoted":
                return V(QUOTED, wl=inner.wl)
            return V(RAW, leaves=[(e, "attribute value (lossy quoting)|" + sv[1])], wl=inner.wl)
        if isinstance(f, ast.Attribute):
            recv = self.ev(f.value, env)
            if recv.is_map:
                if f.attr == "items":
                    k = self.raw(e, "attribute name")
                    v = self.raw(e, "attribute value")
                    return V(RAW, elem=V(RAW, tup=[k, v], leaves=k.leaves), leaves=[(e, "attribute items")])
                if f.attr == "values":
                    return V(RAW, elem=self.raw(e, "attribute value"), leaves=[(e, "attribute values")])
                if f.attr == "keys":
                    return V(RAW, elem=self.raw(e, "attribute name"), leaves=[(e, "attribute names")])
                if f.attr in ("get", "pop", "setdefault"):
                    return self.raw(e, "attribute value")
                if f.attr == "copy":
                    return recv
                raise Unsupported(f"method {f.attr} of the attribute mapping")
            argv = [self.ev(a, env) for a in args]
            if f.attr == "join" and len(args) == 1:
                it = argv[0]
                return vjoin(recv.with_(elem=None, tup=None), self.elem_of(it, args[0]).with_(wl=it.wl | self.elem_of(it, args[0]).wl))
            if f.attr in _STR_KEEP:
                return vjoin(recv, *argv).with_()
            if f.attr == "replace" and len(args) == 2:
                if recv.kind == QUOTED:
                    consts = [a.value for a in args if isinstance(a, ast.Constant) and isinstance(a.value, str)]
                    if len(consts) != 2 or any(c in consts[0] for c in "\"\\'") :
                        raise Unsupported(f"replace on a quoted value may break the quoting: {short(e, 60)}")
                return vjoin(recv, *argv)
            if f.attr in ("format", "format_map"):
                return vjoin(recv, *argv)
            if f.attr in ("split", "splitlines", "rsplit", "partition", "rpartition"):
                j = vjoin(recv, *argv)
                return j.with_(elem=j)
            if f.attr in ("encode", "decode"):
                return vjoin(recv)
            if f.attr in ("startswith", "endswith", "isdigit", "isalpha", "isspace", "count", "find", "index"):
                return V()
            j = vjoin(recv, *argv)
            if j.kind == CLEAN:
                return V(wl=j.wl)
            raise Unsupported(f"cannot decide whether `{short(e, 60)}` keeps, quotes or removes the attribute string")
        argv = [self.ev(a, env) for a in args]
        if d in _SEQ_KEEP and argv:
            return argv[0]
        if d in ("str", "repr", "format", "ascii"):
            return vjoin(*argv).with_()  # repr/ascii quoting is Python's, not the option language's
        if d in ("dict",) and argv:
            return argv[0]
        if d in ("zip", "enumerate", "map", "filter"):
            j = vjoin(*argv)
            if j.kind == CLEAN:
                return V()
            raise Unsupported(f"{d}() over attribute strings is not modelled")
        if d in _CLEAN_BUILTINS:
            return V()
        # a function of the package: evaluate what it returns for these arguments (the attribute mapping may be read inside)
        callee = self.cx.corpus.find_function(self.mod.resolve(d)) if d else None
        if callee is not None and not callee.is_lambda and callee.cls is None and callee.parent_func is None and not any(isinstance(a, ast.Starred) for a in e.args) and callee.fq != self.fi.fq:
            if any(v.kind == RAW and not v.is_map and v.elem is None and v.tup is None for v in argv):
                raise Unsupported(f"cannot decide whether `{short(e, 60)}` keeps, quotes or removes the attribute string")
            if self.depth >= 3:
                raise Unsupported(f"helper chain too deep at `{short(e, 40)}`")
            a = callee.node.args
            names = [x.arg for x in a.posonlyargs + a.args]
            penv = {}
            for nm, arg in zip(names, e.args):
                penv[nm] = self.ev(arg, env)
            for kw in e.keywords:
                if kw.arg is not None:
                    penv[kw.arg] = self.ev(kw.value, env)
            sub = Taint(self.cx, callee, penv, self.depth + 1)
            rets = [n for n in callee.local_nodes() if isinstance(n, ast.Return) and n.value is not None]
            vals = [sub.ev(r.value, {}) for r in rets]
            if not vals:
                return V()
            if len(vals) == 1:
                return vals[0]
            j = vjoin(*vals)
            elems = [x.elem for x in vals if x.elem is not None]
            return j.with_(elem=vjoin(*elems) if elems else None)
        j = vjoin(*argv)
        if j.kind == CLEAN:
            return V(wl=j.wl)
        raise Unsupported(f"cannot decide whether `{short(e, 60)}` keeps, quotes or removes the attribute string")

    # -- sanitiser recognition -------------------------------------------------------
    def sanitiser_verdict(self, e: ast.Call):
        """None: not a sanitiser shape (caller decides);  ("quoted", ""): the result is a double-quoted scalar that the
        option tokenizer reads back as exactly the argument;  ("lossy", why): recognised, but some values do not survive."""
        d = dotted(e.func)
        if not d:
            return None
        r = self.mod.resolve(d)
        if r == "json.dumps":
            if not e.args:
                return None
            return _json_quote_verdict(e, self.mod, None)
        fn = self.cx.corpus.find_function(r)
        if fn is None or fn.is_lambda or not fn.params:
            return None
        return self.cx.corpus.cache(("c17-sanitiser", fn.fq), lambda: _helper_verdict(fn))

    def is_quoting_call(self, e: ast.Call) -> bool:
        v = self.sanitiser_verdict(e)
        return v is not None and v[0] == "quoted"


# line breaks of str.splitlines()/the option tokenizer that JSON leaves unescaped with ensure_ascii=False,
# and the double-quoted escapes that restore them
_RAW_BREAKS = {"\x85": {"\\N", "\\x85", "\\u0085"}, "\u2028": {"\\L", "\\u2028"}, "\u2029": {"\\P", "\\u2029"}}


def _json_quote_verdict(v: ast.expr, mod: Module, par: str | None):
    """``json.dumps(x[, ensure_ascii=False])[.replace(c, esc)...]`` -> verdict (see sanitiser_verdict); None if another shape."""
    repl: dict[str, str] = {}
    while isinstance(v, ast.Call) and isinstance(v.func, ast.Attribute) and v.func.attr == "replace":
        cs = [a.value for a in v.args if isinstance(a, ast.Constant) and isinstance(a.value, str)]
        if len(cs) != 2 or len(v.args) != 2 or v.keywords:
            return None
        if cs[0] not in _RAW_BREAKS:
            return None  # rewrites something else inside the quoted text: not modelled
        repl[cs[0]] = cs[1]
        v = v.func.value
    if not (isinstance(v, ast.Call) and dotted(v.func) and mod.resolve(dotted(v.func)) == "json.dumps" and v.args):
        return None
    if par is not None and not (isinstance(v.args[0], ast.Name) and v.args[0].id == par):
        return None
    ensure_ascii = True
    for k in v.keywords:
        if k.arg == "ensure_ascii" and isinstance(k.value, ast.Constant):
            ensure_ascii = bool(k.value.value)
        elif k.arg in ("separators", "indent", "sort_keys", "allow_nan", "check_circular"):
            continue  # no effect on a str argument
        else:
            return None
    if len(v.args) > 1:
        return None
    if ensure_ascii:
        return ("lossy", "json.dumps with ensure_ascii (the default) writes characters outside the BMP as two \\uD83D\\uDE00-style surrogate escapes, which the option tokenizer decodes one by one: an emoji in alt text comes back as two lone surrogates")
    for ch, escs in _RAW_BREAKS.items():
        if ch not in repl:
            return ("lossy", f"U+{ord(ch):04X} is left raw inside the quotes: str.splitlines() and the option tokenizer treat it as a line break, so the value is cut or the rest of it is read as another option")
        if repl[ch] not in escs:
            return ("lossy", f"U+{ord(ch):04X} is replaced by {repl[ch]!r}, which the tokenizer does not read back as that character")
    return ("quoted", "")


def _fullmatch_regex(t: ast.expr, fn: FunctionInfo, par: str):
    """``RE.fullmatch(par)`` / ``re.fullmatch(P, par)`` -> (pattern, flags) or None"""
    if not isinstance(t, ast.Call) or not isinstance(t.func, ast.Attribute) or t.func.attr != "fullmatch":
        return None
    recv = t.func.value
    pat_call = subj = None
    if isinstance(recv, ast.Name) and recv.id in fn.module.const_nodes:
        cv = fn.module.const_nodes[recv.id]
        if isinstance(cv, ast.Call) and _resolves(fn.module, cv.func, "re.compile") and len(t.args) == 1 and cv.args:
            pat_call, subj = cv, t.args[0]
            flags = _regex_flags(fn.module, cv)
    elif dotted(recv) and fn.module.resolve(dotted(recv)) == "re" and len(t.args) >= 2:
        pat_call, subj = t, t.args[1]
        flags = _regex_flags(fn.module, ast.Call(func=t.func, args=[t.args[0]] + t.args[2:], keywords=t.keywords))
    if pat_call is None or not (isinstance(subj, ast.Name) and subj.id == par):
        return None
    try:
        pat = fn.module.eval_const(pat_call.args[0])
    except Unsupported:
        return None
    return (pat, flags) if isinstance(pat, str) else None


def _helper_verdict(fn: FunctionInfo):
    """A package function of one value: leading None/empty normalisation, then any number of
    ``if SAFE.fullmatch(p): return p`` and a final JSON-quoted return (or the same as a conditional expression)."""
    body = [st for st in fn.node.body if not (isinstance(st, ast.Expr) and isinstance(st.value, ast.Constant))]
    par = fn.params[0]

    def plain_const(c) -> bool:
        return isinstance(c, ast.Constant) and isinstance(c.value, str) and (c.value == "" or _plain_scalar_safe(re.escape(c.value), 0)[0] is True)

    def normalises(st) -> bool:
        """``p = p or ""`` / ``if p is None: p = ""`` / ``if not p: p = ""``: None/empty becomes a harmless constant,
        every other value is kept (and is then subject to the quoting below)."""
        if isinstance(st, ast.Assign) and len(st.targets) == 1 and isinstance(st.targets[0], ast.Name) and st.targets[0].id == par:
            v = st.value
            if isinstance(v, ast.BoolOp) and isinstance(v.op, ast.Or) and len(v.values) == 2 and isinstance(v.values[0], ast.Name) and v.values[0].id == par and plain_const(v.values[1]):
                return True
            if isinstance(v, ast.IfExp) and isinstance(v.body, ast.Name) and v.body.id == par and plain_const(v.orelse):
                t = v.test
                return (isinstance(t, ast.Name) and t.id == par) or unparse(t) == f"{par} is not None"
            return False
        if isinstance(st, ast.If) and not st.orelse and len(st.body) == 1 and unparse(st.test) in (f"{par} is None", f"not {par}"):
            b = st.body[0]
            return isinstance(b, ast.Assign) and len(b.targets) == 1 and isinstance(b.targets[0], ast.Name) and b.targets[0].id == par and plain_const(b.value)
        return False

    while body and normalises(body[0]):
        body = body[1:]
    if not body or any(isinstance(x, ast.Name) and x.id == par and isinstance(x.ctx, ast.Store) for st in body for x in ast.walk(st)):
        return None

    from ..flow import facts

    cfg = get_cfg(fn)

    def single_def(name: str):
        defs = [n for n in fn.local_nodes() if isinstance(n, ast.Assign) and len(n.targets) == 1 and isinstance(n.targets[0], ast.Name) and n.targets[0].id == name]
        stores = [n for n in fn.local_nodes() if isinstance(n, ast.Name) and n.id == name and isinstance(n.ctx, ast.Store)]
        return defs[0].value if len(defs) == 1 and len(stores) == 1 else None

    def resolve(e):
        """a local bound once (``m = RE.fullmatch(value)``, ``quoted = json.dumps(...)``) stands for its value"""
        seen = 0
        while isinstance(e, ast.Name) and e.id != par and seen < 3:
            v = single_def(e.id)
            if v is None:
                break
            e, seen = v, seen + 1
        return e

    def unquoted_under(fs):
        """verdict for returning the parameter itself on a path where the facts ``fs`` hold"""
        unknown = False
        for t, pol in fs:
            t = resolve(t)
            if isinstance(t, ast.Compare) and len(t.ops) == 1 and isinstance(t.ops[0], (ast.Is, ast.IsNot)) and isinstance(t.comparators[0], ast.Constant) and t.comparators[0].value is None:
                # `m is not None` / `m is None`
                pol = pol if isinstance(t.ops[0], ast.IsNot) else not pol
                t = resolve(t.left)
            rx = _fullmatch_regex(t, fn, par)
            if rx is None:
                if any(isinstance(x, ast.Call) for x in ast.walk(t)):
                    unknown = True  # some other test on the value: cannot tell what it admits
                continue
            if not pol:
                continue  # the value did NOT match: says nothing in favour of returning it raw
            ok, why = _plain_scalar_safe(*rx)
            if ok is None:
                return None
            return ("quoted", "") if ok else ("lossy", f"values matching {rx[0]!r} are passed on unquoted, but {why}")
        if unknown:
            return None
        return ("lossy", "the value is returned unquoted" + (" whenever it is non-empty" if fs else ""))

    def value(v, fs):
        v = resolve(v)
        if isinstance(v, ast.Name) and v.id == par:
            return unquoted_under(fs)
        if isinstance(v, ast.IfExp):
            a = value(v.body, fs + facts(v.test, True))
            b_ = value(v.orelse, fs + facts(v.test, False))
            if a is None or b_ is None:
                return None
            return a if a[0] == "lossy" else b_
        return _json_quote_verdict(v, fn.module, par)

    rets = [n for n in fn.local_nodes() if isinstance(n, ast.Return)]
    if not rets or any(r.value is None for r in rets) or any(p_ is not None and not isinstance(p_, ast.Return) for p_ in [x for x in cfg.pred.get("EXIT", []) if not isinstance(x, tuple)]):
        return None
    verdicts = []
    for r in rets:
        if not cfg.is_reachable(r):
            continue
        verdicts.append(value(r.value, cfg.guards(r)))
    if not verdicts or any(v is None for v in verdicts):
        return None
    for v in verdicts:
        if v[0] == "lossy":
            return v
    return ("quoted", "")


_PLAIN_INNER = frozenset("abcdefghijklmnopqrstuvwxyzABCDEFGHIJKLMNOPQRSTUVWXYZ0123456789_.%/- ")
_PLAIN_FIRST = _PLAIN_INNER - frozenset("-% ")
_PLAIN_LAST = _PLAIN_INNER - frozenset(" ")


def _plain_scalar_safe(pat: str, flags: int) -> tuple[bool | None, str]:
    """Every string the pattern fully matches is a plain scalar that the option tokenizer returns unchanged:
    characters from [A-Za-z0-9_.%/-] and inner spaces, not starting with '-', '%' or space, not ending in space
    (alphabet confirmed by an exhaustive manual probe up to length 5; the empty string is equivalent to '')."""
    if flags & re.VERBOSE:
        return None, "verbose pattern"
    try:
        tree = sre_parse.parse(pat, flags)
    except Exception:
        return None, "pattern does not parse"

    def chars(op, av):
        if op is _C.LITERAL:
            return {chr(av)}
        if op in (_C.ANY, _C.NOT_LITERAL):
            return {"#", "\n"}  # admits (at least) these unsafe characters
        if op is _C.IN:
            out: set[str] = set()
            for o, a in av:
                if o is _C.NEGATE:
                    return {"#", "\n"}
                if o is _C.CATEGORY:
                    nm = str(a)
                    if nm in ("CATEGORY_WORD", "CATEGORY_DIGIT"):
                        out |= {"a", "0", "_"} if nm == "CATEGORY_WORD" else {"0"}
                    elif nm == "CATEGORY_SPACE":
                        out |= {" ", "\n"}
                    else:
                        out |= {"#", "\n"}
                elif o is _C.LITERAL:
                    out.add(chr(a))
                elif o is _C.RANGE:
                    if a[1] > 127:
                        return None
                    out |= {chr(c) for c in range(a[0], a[1] + 1)}
                else:
                    return None
            return out
        return None

    def walk(items):
        """(nullable, first set, last set, all chars) or None when outside the understood subset"""
        nullable, first, last, allc = True, set(), set(), set()
        seq = []
        for op, av in items:
            if op in (_C.LITERAL, _C.IN, _C.ANY, _C.NOT_LITERAL):
                c = chars(op, av)
                if c is None:
                    return None
                seq.append((False, c, c, c))
            elif op is _C.SUBPATTERN:
                r_ = walk(av[3])
                if r_ is None:
                    return None
                seq.append(r_)
            elif op is _C.BRANCH:
                rs = [walk(a) for a in av[1]]
                if any(x is None for x in rs):
                    return None
                seq.append((any(x[0] for x in rs), set().union(*(x[1] for x in rs)), set().union(*(x[2] for x in rs)), set().union(*(x[3] for x in rs))))
            elif op in (_C.MAX_REPEAT, _C.MIN_REPEAT):
                lo, hi, sub = av
                r_ = walk(sub)
                if r_ is None:
                    return None
                seq.append((r_[0] or lo == 0, r_[1], r_[2], r_[3]))
            elif op is _C.AT and str(av) in ("AT_BEGINNING", "AT_BEGINNING_STRING", "AT_END_STRING"):
                continue
            else:
                return None
        for nl, f, l, a in seq:
            if nullable:
                first |= f
            nullable = nullable and nl
            allc |= a
        tail_nullable = True
        for nl, f, l, a in reversed(seq):
            if tail_nullable:
                last |= l
            tail_nullable = tail_nullable and nl
        return nullable, first, last, allc

    r_ = walk(list(tree))
    if r_ is None:
        return None, "pattern outside the understood subset"
    _, first, last, allc = r_
    if not allc <= _PLAIN_INNER:
        return False, f"it admits {sorted(allc - _PLAIN_INNER)!r}, which the option syntax does not read back literally (comment, quote, indicator or line-break characters)"
    if not first <= _PLAIN_FIRST:
        return False, f"it admits a leading {sorted(first - _PLAIN_FIRST)!r}, which is not kept (stripped or read as an indicator)"
    if not last <= _PLAIN_LAST:
        return False, "it admits a trailing space, which a plain scalar drops"
    return True, ""


def _sink_values(corpus: Corpus):
    """[(function, call, directive name, V of the content argument)]"""

    def build():
        cx = _ctx(corpus)
        out = []
        for fn, call in cx.sinks():
            t = Taint(cx, fn)
            content = arg_or_kw(call, cx.rd_idx["content"], "content")
            if content is None:
                raise Unsupported(f"run_directive call without content argument: {short(call, 60)}")
            out.append((fn, call, cx.sink_name(call), t.ev(content, {})))
        return out

    return corpus.cache("c17-sinks", build)


# ---------------------------------------------------------------------------
# R3 whitelist ⊆ option spec


def _directive_option_spec(corpus: Corpus, rep: Report, name: str) -> tuple[set[str], str]:
    reg_mod = corpus.sibling("docutils/parsers/rst/directives/__init__.py")
    rep.saw_sibling(reg_mod.rel)
    reg = reg_mod.const("_directive_registry")
    if name not in reg:
        raise Unsupported(f"directive {name!r} is not in docutils' _directive_registry")
    modname, clsname = reg[name]
    dm = corpus.sibling(f"docutils/parsers/rst/directives/{modname}.py")
    rep.saw_sibling(dm.rel)
    seen = set()
    cur = clsname
    while cur and cur not in seen:
        seen.add(cur)
        if cur not in dm.classes:
            raise AnchorMissing(f"class {cur} not found in {dm.rel}")
        ci = dm.classes[cur]
        for st in ci.node.body:
            if isinstance(st, ast.Assign) and any(isinstance(t, ast.Name) and t.id == "option_spec" for t in st.targets):
                if not isinstance(st.value, ast.Dict) or not all(isinstance(k, ast.Constant) and isinstance(k.value, str) for k in st.value.keys):
                    raise Unsupported(f"{clsname}.option_spec is not a dict literal with string keys")
                return {k.value for k in st.value.keys}, f"{dm.rel}:{ci.name}.option_spec"
        bases = [dotted(b) for b in ci.node.bases]
        cur = next((b for b in bases if b in dm.classes), None)
    raise Unsupported(f"no option_spec found for directive {name!r} ({clsname})")


@rule("C17.R3")
def r3_whitelist_subset(corpus: Corpus, rep: Report, tier: str):
    rep.rule("C17.R3", "attribute whitelists feeding a directive's option block ⊆ that docutils directive's option_spec")
    cx = _ctx(corpus)
    m = cx.mod
    for sfn, call, name, v in _sink_values(corpus):
        rep.saw_call(m.site(call))
        spec, where = _directive_option_spec(corpus, rep, name)
        if not v.wl:
            rep.ok("C17.R3", f"{sfn.fq}|run_directive({name!r})|no whitelist", m.site(call), "no attribute-name whitelist feeds this option block (attribute names, if any, are judged by R4)")
            continue
        for wname in sorted(v.wl):
            node = m.const_nodes.get(wname)
            vals = m.eval_const(node) if node is not None else ast.literal_eval(wname)
            k = f"{m.name}:{wname} ⊆ {name} option_spec"
            site = m.site(node) if node is not None else m.site(call)
            extra = sorted(set(vals) - spec)
            if extra:
                rep.violation("C17.R3", k, site, f"{wname} lets the HTML attribute(s) {extra} through to the {name!r} directive, which has no such option ({where}: {sorted(spec)}): valid HTML yields an 'Unknown option keys' warning instead of the directive's nodes")
            else:
                rep.ok("C17.R3", k, site, f"{sorted(vals)} ⊆ {where}")
    rep.expect_min("C17.R3", 2, "image and admonition whitelists")


# ---------------------------------------------------------------------------
# R4 quoting (taint)


@rule("C17.R4")
def r4_quoting(corpus: Corpus, rep: Report, tier: str):
    rep.rule("C17.R4", "HTML attribute strings reach the option block of run_directive's content only through a quoting sanitiser (or a whitelist, for names)")
    cx = _ctx(corpus)
    m = cx.mod
    for sfn, call, name, v in _sink_values(corpus):
        site = m.site(call)
        base = f"{sfn.fq}|run_directive({name!r}).content"
        if v.kind != RAW:
            rep.ok("C17.R4", base, site, "no attribute string" if v.kind == CLEAN else "attribute values pass a quoting sanitiser")
            continue
        content_node = arg_or_kw(call, cx.rd_idx["content"], "content")
        for node, what in v.leaves or ((content_node, "attribute string"),):
            holder = node
            for a in [node] + [x for x in _ancestors_expr(node)]:
                if isinstance(a, (ast.JoinedStr, ast.BinOp)):
                    holder = a
                    break
            what, _, detail = what.partition("|")
            k = f"{base}|{what}|{short(node, 40)} in {short(holder, 60)}"
            if detail:
                msg = f"the HTML attribute value reaches the option block of the {name!r} directive through `{short(node, 40)}`, which does not carry every value over unchanged: {detail}"
            else:
                msg = (
                    f"the HTML {what} `{short(node, 40)}` is interpolated unquoted into the option block of the {name!r} directive (`{short(holder, 60)}`): "
                    "values containing '#', quotes, a leading '|' '>' '[' '{', ': ' or a newline are cut, rejected, or inject further options instead of being carried over unchanged"
                )
            rep.violation("C17.R4", k, getattr(node, "_mod", m).site(node), msg)
    rep.expect_min("C17.R4", 2, "the image and admonition conversions")


def _ancestors_expr(node):
    p = parent(node)
    while p is not None and not isinstance(p, ast.stmt):
        yield p
        p = parent(p)


# ---------------------------------------------------------------------------
# R5 raw nodes stay in the tree


_TREE_MUTATORS = {"remove", "replace", "replace_self", "pop", "clear", "__delitem__"}


def _is_deepcopy(v: ast.expr, mod: Module) -> bool:
    if isinstance(v, ast.Call) and isinstance(v.func, ast.Attribute) and v.func.attr == "deepcopy" and not v.args:
        return True
    return isinstance(v, ast.Call) and bool(dotted(v.func)) and mod.resolve(dotted(v.func)) in ("copy.deepcopy",)


@rule("C17.R5")
def r5_raw_nodes_survive(corpus: Corpus, rep: Report, tier: str):
    rep.rule("C17.R5", "raw nodes are removed/replaced only in an unconditionally made deep copy or by the raw_enabled=False security filter")
    n_sites = 0
    for fn in corpus.all_functions():
        if fn.is_lambda:
            continue
        m = fn.module
        for call in fn.local_nodes():
            # findall(X)(nodes.raw) / X.findall(nodes.raw) / X.traverse(nodes.raw)
            if not (isinstance(call, ast.Call) and len(call.args) >= 1 and dotted(call.args[0]) and m.resolve(dotted(call.args[0])) == "docutils.nodes.raw"):
                continue
            f = call.func
            if isinstance(f, ast.Attribute) and f.attr in ("findall", "traverse"):
                root = f.value
            elif isinstance(f, ast.Call) and dotted(f.func) and dotted(f.func).split(".")[-1] == "findall" and len(f.args) == 1:
                root = f.args[0]
            else:
                continue
            # the loop (or comprehension) that consumes the iteration
            loop = None
            for a in [call] + [x for x in _all_ancestors(call)]:
                if isinstance(a, ast.For):
                    loop = a
                    break
                if isinstance(a, (ast.FunctionDef, ast.AsyncFunctionDef, ast.Lambda)):
                    break
            if loop is None or not isinstance(loop.target, ast.Name):
                rep.listed("C17.R5", f"{fn.fq}|{short(call, 50)}", m.site(call), "raw nodes inspected, not in a loop")
                continue
            lv = loop.target.id
            muts = [c for st in loop.body for c in ast.walk(st) if isinstance(c, ast.Call) and isinstance(c.func, ast.Attribute) and c.func.attr in _TREE_MUTATORS and any(isinstance(x, ast.Name) and x.id == lv for x in ast.walk(c))]
            muts += [d for st in loop.body for d in ast.walk(st) if isinstance(d, ast.Delete)]
            if not muts:
                # the removal may live in a helper that is handed the node: follow package functions (two levels)
                def helper_mutates(callee: FunctionInfo, par: str, depth: int = 0):
                    for c_ in callee.local_nodes():
                        if isinstance(c_, ast.Call) and isinstance(c_.func, ast.Attribute) and c_.func.attr in _TREE_MUTATORS and any(isinstance(x, ast.Name) and x.id == par for x in ast.walk(c_)):
                            return c_
                        if isinstance(c_, ast.Delete) and any(isinstance(x, ast.Name) and x.id == par for x in ast.walk(c_)):
                            return c_
                    if depth < 2:
                        for c_ in callee.local_nodes():
                            if isinstance(c_, ast.Call) and dotted(c_.func):
                                nxt = corpus.find_function(callee.module.resolve(dotted(c_.func)))
                                if nxt is not None and not nxt.is_lambda and nxt.fq != callee.fq:
                                    for i_, a_ in enumerate(c_.args):
                                        if isinstance(a_, ast.Name) and a_.id == par and i_ < len(nxt.params):
                                            r_ = helper_mutates(nxt, nxt.params[i_ + (1 if nxt.cls is not None and nxt.params[:1] == ["self"] else 0)] if i_ + (1 if nxt.cls is not None and nxt.params[:1] == ["self"] else 0) < len(nxt.params) else nxt.params[-1], depth + 1)
                                            if r_ is not None:
                                                return r_
                    return None

                for st in loop.body:
                    for c_ in ast.walk(st):
                        if isinstance(c_, ast.Call) and dotted(c_.func):
                            callee = corpus.find_function(m.resolve(dotted(c_.func)))
                            if callee is None or callee.is_lambda:
                                continue
                            off = 1 if callee.cls is not None and callee.params[:1] == ["self"] else 0
                            for i_, a_ in enumerate(c_.args):
                                if isinstance(a_, ast.Name) and a_.id == lv and i_ + off < len(callee.params):
                                    r_ = helper_mutates(callee, callee.params[i_ + off])
                                    if r_ is not None:
                                        muts.append(r_)
                            for kw_ in c_.keywords:
                                if isinstance(kw_.value, ast.Name) and kw_.value.id == lv and kw_.arg in callee.params:
                                    r_ = helper_mutates(callee, kw_.arg)
                                    if r_ is not None:
                                        muts.append(r_)
            k = f"{fn.fq}|raw nodes of {short(root, 30)}"
            site = m.site(loop)
            if not muts:
                rep.listed("C17.R5", k, site, "raw nodes visited, tree not changed")
                continue
            n_sites += 1
            rep.saw_function(fn.fq)
            cfg = get_cfg(fn)
            # (b) the security filter
            gs = cfg.guards(loop)

            def raw_enabled_read(t):
                """``X.raw_enabled`` -> (True, None); ``getattr(X, "raw_enabled", D)`` -> (True, D); else None"""
                if isinstance(t, ast.Attribute) and t.attr == "raw_enabled":
                    return (True, None)
                if isinstance(t, ast.Call) and dotted(t.func) == "getattr" and len(t.args) >= 2 and isinstance(t.args[1], ast.Constant) and t.args[1].value == "raw_enabled":
                    return (True, t.args[2] if len(t.args) > 2 else None)
                return None

            atomic = [(raw_enabled_read(t), pol) for t, pol in gs]
            implied = [r for r, pol in atomic if r is not None and not pol]
            mentions = [t for t, pol in gs if any(raw_enabled_read(x) is not None for x in ast.walk(t))]
            if implied:
                dflt = implied[0][1]
                if dflt is not None and not (isinstance(dflt, ast.Constant) and dflt.value is True):
                    rep.violation("C17.R5", k, site, f"the raw_enabled filter reads the setting with default `{short(dflt, 20)}`: when the docutils settings lack the attribute (parser used without registered settings) every raw HTML node is replaced although raw content was not disabled")
                else:
                    rep.ok("C17.R5", k, site, "only when the docutils setting raw_enabled is false (raw content disabled by the user)")
                continue
            if mentions:
                rep.violation("C17.R5", k, site, f"the raw nodes are replaced under `{short(mentions[0], 80)}`, which can hold while raw_enabled is true: HTML written in the document is then removed from the output although raw content is allowed")
                continue
            # (a) a deep copy made on every path
            if isinstance(root, ast.Name):
                stores = [x for x in fn.local_nodes() if isinstance(x, ast.Name) and x.id == root.id and isinstance(x.ctx, ast.Store)]
                copies = [parent(x) for x in stores if isinstance(parent(x), ast.Assign) and _is_deepcopy(parent(x).value, m)]
                if copies and len(copies) == len(stores) and any(cfg.dominates(c, loop) for c in copies):
                    rep.ok("C17.R5", k, site, f"{root.id} is a deep copy on every path")
                    continue
                def is_live(e, depth=0) -> bool:
                    """part of the document tree itself: a parameter, something reached from one, or a loop variable over such"""
                    if depth > 4:
                        return False
                    if isinstance(e, ast.Starred):
                        return is_live(e.value, depth + 1)
                    if isinstance(e, (ast.Tuple, ast.List)):
                        return bool(e.elts) and all(is_live(x, depth + 1) for x in e.elts)
                    if isinstance(e, (ast.Attribute, ast.Subscript)):
                        return is_live(e.value, depth + 1)
                    if isinstance(e, ast.Name):
                        sts = [x for x in fn.local_nodes() if isinstance(x, ast.Name) and x.id == e.id and isinstance(x.ctx, ast.Store)]
                        if not sts:
                            return e.id in fn.params
                        for x in sts:
                            p_ = parent(x)
                            if isinstance(p_, ast.For) and p_.target is x:
                                if not is_live(p_.iter, depth + 1):
                                    return False
                            elif isinstance(p_, ast.Assign) and not _is_deepcopy(p_.value, m):
                                if not is_live(p_.value, depth + 1):
                                    return False
                            else:
                                return False
                        return True
                    return False

                if stores and not copies and not is_live(root):
                    raise Unsupported(f"{fn.qualname}: cannot tell whether `{root.id}` (`{short(parent(stores[0]), 40)}`) is a copy of the tree")
                if copies:
                    rep.violation("C17.R5", k, site, f"`{short(muts[0], 40)}` removes raw nodes from `{root.id}`, which is a deep copy only on some paths (`{short(copies[0], 40)}` does not dominate the loop): on the others the raw HTML nodes are deleted from the document itself, e.g. inline HTML in a heading disappears from the output")
                    continue
            if not mentions and fn.cls is None and fn.parent_func is None and not fn.is_lambda:
                # the loop sits in a helper without a guard of its own: judge the guard at every call site of the helper
                fdot = f"{m.name}.{fn.qualname}"
                sites_ = []
                for g in corpus.all_functions():
                    if g.is_lambda or g.fq == fn.fq:
                        continue
                    for c_ in g.local_nodes():
                        if isinstance(c_, ast.Call) and dotted(c_.func) and g.module.resolve(dotted(c_.func)) == fdot:
                            sites_.append((g, c_))
                if sites_:
                    bad_site = None
                    for g, c_ in sites_:
                        gcfg = get_cfg(g)
                        gfacts = [(raw_enabled_read(t), pol) for t, pol in gcfg.guards(gcfg.stmt_of(c_))]
                        imp = [r for r, pol in gfacts if r is not None and not pol]
                        if not imp:
                            bad_site = (g, c_, "is not under a test that implies raw_enabled is false")
                        elif imp[0][1] is not None and not (isinstance(imp[0][1], ast.Constant) and imp[0][1].value is True):
                            bad_site = (g, c_, f"reads raw_enabled with default `{short(imp[0][1], 20)}`")
                    if bad_site is None:
                        rep.ok("C17.R5", k, site, f"every call of {fn.name} ({len(sites_)}) is made only when the docutils setting raw_enabled is false")
                    else:
                        g, c_, why_ = bad_site
                        rep.violation("C17.R5", k, g.module.site(c_), f"{fn.name} removes the raw nodes of the live tree and its call in {g.qualname} {why_}: HTML written in the document is removed from the output although raw content is allowed")
                    continue
            rep.violation("C17.R5", k, site, f"`{short(muts[0], 40)}` removes or replaces the raw nodes of `{short(root, 30)}` in the live tree: HTML no longer reaches the output as a raw node")
    rep.expect_min("C17.R5", 2, "clean_astext (copy) and the raw_enabled filter(s): two today, one if the parsers share it")


def _all_ancestors(node):
    p = parent(node)
    while p is not None:
        yield p
        p = parent(p)


# ---------------------------------------------------------------------------
# R6 temporary extension switches are exact


_SET_MUTATORS = {"add", "discard", "remove", "update", "clear", "pop", "difference_update", "intersection_update", "symmetric_difference_update"}


@rule("C17.R6")
def r6_extension_switch_restored(corpus: Corpus, rep: Report, tier: str):
    rep.rule("C17.R6", "in-place changes of a config's enable_extensions happen only between saving a copy and re-assigning that copy in `finally`")
    n = 0
    for fn in corpus.all_functions():
        if fn.is_lambda or fn.module.name.endswith(("config.main", "._docs")):
            continue
        m = fn.module

        def ext_path(e) -> str | None:
            d = dotted(e)
            if d and d.endswith(".enable_extensions"):
                return d
            if isinstance(e, ast.Name):
                defs = [parent(x) for x in fn.local_nodes() if isinstance(x, ast.Name) and x.id == e.id and isinstance(x.ctx, ast.Store)]
                paths = {dotted(d_.value) for d_ in defs if isinstance(d_, ast.Assign)}
                paths = {p_ for p_ in paths if p_ and p_.endswith(".enable_extensions")}
                if len(paths) == 1 and len(defs) == 1:
                    return paths.pop()  # an alias of the live set (no copy)
            return None

        for call in fn.local_nodes():
            if not (isinstance(call, ast.Call) and isinstance(call.func, ast.Attribute) and call.func.attr in _SET_MUTATORS):
                continue
            path = ext_path(call.func.value)
            if path is None:
                continue
            n += 1
            rep.saw_function(fn.fq)
            cfg = get_cfg(fn)
            k = f"{fn.fq}|{short(call, 70)}"
            site = m.site(call)
            tr = None
            node: ast.AST = call
            for a in _all_ancestors(call):
                if isinstance(a, ast.Try) and a.finalbody and any(node is s_ for s_ in a.body):
                    tr = a
                    break
                if isinstance(a, (ast.FunctionDef, ast.AsyncFunctionDef)):
                    break
                node = a
            if tr is None:
                # `x.add(..)` directly followed (in the same block) by `try: ... finally: restore` - e.g. in a context manager
                st = cfg.stmt_of(call)
                blk = None
                for fld in ("body", "orelse", "finalbody"):
                    if st in getattr(parent(st), fld, []):
                        blk = getattr(parent(st), fld)
                if blk is not None:
                    later = [x for x in blk[blk.index(st) + 1 :]]
                    if later and isinstance(later[0], ast.Try) and later[0].finalbody:
                        tr = later[0]
            why = None
            if tr is None:
                why = "it is not inside (or directly before) a try whose finally restores the set"
            else:
                restores = [s_ for s_ in tr.finalbody if isinstance(s_, ast.Assign) and len(s_.targets) == 1 and dotted(s_.targets[0]) == path and isinstance(s_.value, ast.Name)]
                if not restores:
                    why = f"the finally block does not re-assign `{path}` from a saved copy (undoing the change in place also removes an extension that was enabled before)"
                else:
                    sv = restores[0].value.id
                    sdefs = [parent(x) for x in fn.local_nodes() if isinstance(x, ast.Name) and x.id == sv and isinstance(x.ctx, ast.Store)]
                    ok = False
                    if len(sdefs) == 1 and isinstance(sdefs[0], ast.Assign):
                        v = sdefs[0].value
                        is_copy = (
                            isinstance(v, ast.Call)
                            and (
                                (dotted(v.func) and m.resolve(dotted(v.func)) in ("copy.copy", "copy.deepcopy", "set", "frozenset") and len(v.args) == 1 and dotted(v.args[0]) == path)
                                or (isinstance(v.func, ast.Attribute) and v.func.attr == "copy" and dotted(v.func.value) == path)
                            )
                        )
                        if is_copy and cfg.dominates(sdefs[0], tr):
                            ok = True
                        elif not is_copy:
                            why = f"`{sv}` is not a copy of the set (`{short(v, 40)}`): re-assigning it restores nothing, the extension stays switched on for the rest of the document"
                    if not ok and why is None:
                        why = f"the saved value `{sv}` is not a copy taken before the try"
            if why is None:
                rep.ok("C17.R6", k, site, f"between `{sv} = copy(...)` and `finally: {path} = {sv}`")
            else:
                rep.violation("C17.R6", k, site, f"`{short(call, 50)}` changes the extension set that html_to_nodes reads, and {why}: <img>/<div class=admonition> elsewhere in the document are then converted (or not) contrary to the configured extensions")
    if n == 0:
        rep.ok("C17.R6", "no in-place change of enable_extensions in the package", "myst_parser", "nothing to bracket")


def _gfm_filter_sites(corpus: Corpus) -> list[tuple[FunctionInfo, ast.Call]]:
    """Substitutions with a module-level compiled regex whose pattern names every tag of the GFM disallowed list, anywhere in the package."""
    out = []
    for f in corpus.all_functions():
        m = f.module
        host = f
        while host.is_lambda and host.parent_func is not None:
            host = host.parent_func
        for n in f.local_nodes():
            if not (isinstance(n, ast.Call) and isinstance(n.func, ast.Attribute) and n.func.attr in ("sub", "subn") and isinstance(n.func.value, ast.Name)):
                continue
            cv = m.const_nodes.get(n.func.value.id)
            if not (isinstance(cv, ast.Call) and _resolves(m, cv.func, "re.compile") and cv.args):
                continue
            try:
                pat = m.eval_const(cv.args[0])
            except Unsupported:
                continue
            if isinstance(pat, str) and all(t in pat.lower() for t in GFM_DISALLOWED):
                out.append((host, n))
    return out


@rule("C17.R7")
def r7_filter_covers_every_caller(corpus: Corpus, rep: Report, tier: str):
    rep.rule("C17.R7", "the GFM tag filter is applied to the text of every html_to_nodes call: inside html_to_nodes, or - when it is a helper the callers apply - by each caller that hands over token content")
    from ..callgraph import get_callgraph

    cx = _ctx(corpus)
    flt = _filter(corpus)
    dotted_h2n = f"{cx.entry.module.name}.{cx.entry.qualname}"
    callers = []
    for f in corpus.all_functions():
        if f.is_lambda or f.fq in (cx.fi.fq, cx.entry.fq):
            continue
        for c in f.local_nodes():
            if isinstance(c, ast.Call) and dotted(c.func) and f.module.resolve(dotted(c.func)) == dotted_h2n:
                callers.append((f, c))
    if not callers:
        raise AnchorMissing("no call of html_to_nodes in the package")
    if flt.stmt is not None:
        # the filter runs inside html_to_nodes (R2 judges where): whoever calls it is covered
        for f, c in callers:
            rep.ok("C17.R7", f"{f.fq}|GFM filter covers the text handed to html_to_nodes", f.module.site(c), f"the filter runs inside {flt.fn.name}")
        rep.expect_min("C17.R7", 2, "the html_block and the html_inline handler on the pinned tree")
        return
    sites = _gfm_filter_sites(corpus)
    hosts = {h.fq: h for h, _ in sites}
    if not hosts:
        raise AnchorMissing("no GFM tag filter (substitution with a regex over the nine disallowed tags) in html_to_nodes or anywhere else")
    # what html_to_nodes runs itself: its own module and the HTML tokenizer (calls back into the renderer are not followed)
    inside = get_callgraph(corpus).reachable([cx.entry], stop=lambda g: g.module is not cx.entry.module and not g.module.name.endswith("parse_html"))
    if any(fq in inside for fq in hosts):
        raise Unsupported("the GFM tag filter lives in a function html_to_nodes calls: " + ", ".join(sorted(fq for fq in hosts if fq in inside)))

    def applies(f: FunctionInfo) -> list[ast.Call]:
        if f.fq in hosts:
            return [n for h, n in sites if h.fq == f.fq]
        out = []
        for n in f.local_nodes():
            if not isinstance(n, ast.Call):
                continue
            d = dotted(n.func)
            g = corpus.find_function(f.module.resolve(d)) if d else None
            if g is None and isinstance(n.func, ast.Attribute) and dotted(n.func.value) == "self" and f.cls is not None:
                g = corpus.lookup_method(f.cls, n.func.attr)
            if g is not None and g.fq in hosts:
                out.append(n)
        return out

    applied = {f.fq: applies(f) for f, _ in callers}
    if not any(applied.values()):
        raise Unsupported("the GFM tag filter is neither in html_to_nodes nor applied by any function that calls it: " + ", ".join(sorted(hosts)))
    helper = ", ".join(sorted(h.name for h in hosts.values()))
    for f, c in callers:
        k = f"{f.fq}|GFM filter covers the text handed to html_to_nodes"
        site = f.module.site(c)
        a = c.args[0] if c.args else kwarg(c, cx.entry_text)
        cfg = get_cfg(f)
        cst = cfg.stmt_of(c)
        if applied[f.fq]:
            fsts = [cfg.stmt_of(n) for n in applied[f.fq]]
            if not isinstance(a, ast.Name):
                rep.error("C17.R7", f"{f.qualname} applies {helper} but hands `{short(a, 40) if a is not None else '?'}` to html_to_nodes: cannot relate the two")
                continue
            stored = [st for st in fsts if isinstance(st, ast.Assign) and any(isinstance(t, ast.Name) and t.id == a.id or isinstance(t, ast.Tuple) and t.elts and isinstance(t.elts[0], ast.Name) and t.elts[0].id == a.id for t in st.targets)]
            if len(stored) != 1 or len(fsts) != 1:
                rep.error("C17.R7", f"{f.qualname}: the result of {helper} is not stored in `{a.id}` by one plain assignment")
                continue
            fst = stored[0]
            p = parent(fst)
            branch = None
            if isinstance(p, ast.If) and fst in p.body and not p.orelse and parent(p) is f.node:
                t = p.test
                d = dotted(t) or ""
                if isinstance(t, ast.Name):
                    defs = cx.defs_in(f, t.id)
                    d = (dotted(defs[0]) or "") if len(defs) == 1 and isinstance(defs[0], ast.expr) else ""
                if not d.endswith(".gfm_only"):
                    rep.error("C17.R7", f"{f.qualname}: {helper} is applied under `{short(t, 50)}`, not under the gfm_only setting alone")
                    continue
                branch = ("F", p)
            elif p is not f.node:
                rep.error("C17.R7", f"{f.qualname}: {helper} is applied inside `{short(p, 40)}`")
                continue
            if cfg.paths_avoiding("ENTRY", cst, lambda x: x is fst or (branch is not None and x == branch)):
                rep.violation("C17.R7", k, site, f"{f.qualname} reaches `{short(c, 60)}` in GFM mode on a path that skips {helper}: html_to_nodes no longer filters, so disallowed tags such as <script> reach the output on that path")
            else:
                rep.ok("C17.R7", k, site, f"{helper} applied under gfm_only on every path to the call")
            continue
        # this caller never applies the filter: what does it hand over?
        vals = [a]
        if isinstance(a, ast.Name) and a.id not in f.params:
            vals = cx.defs_in(f, a.id)
        as_written = bool(vals) and all(isinstance(v, ast.Attribute) and v.attr == "content" and isinstance(v.value, ast.Name) and v.value.id in f.params for v in vals)
        if as_written:
            rep.violation("C17.R7", k, site, f"{f.qualname} hands `{short(vals[0], 40)}` - the token content as written - to html_to_nodes without applying {helper}: the GFM tag filter no longer runs inside html_to_nodes (other callers apply it themselves), so in gfm_only mode disallowed tags such as `<script>` / `<iframe>` in this kind of token reach the output as live raw HTML")
        else:
            rep.error("C17.R7", f"{f.qualname} calls html_to_nodes with `{short(a, 40) if a is not None else '?'}` and never applies {helper}: cannot tell whether that text was filtered before")
    rep.expect_min("C17.R7", 1, "callers of html_to_nodes")


RULES = [r1_pass_through, r2_gfm_filter, r3_whitelist_subset, r4_quoting, r5_raw_nodes_survive, r6_extension_switch_restored, r7_filter_covers_every_caller]


def _move_block_after(src: str, block: ast.stmt, anchor: ast.stmt) -> str:
    lines = src.splitlines(keepends=True)
    blk = lines[block.lineno - 1 : block.end_lineno]
    rest = lines[: block.lineno - 1] + lines[block.end_lineno :]
    shift = block.end_lineno - block.lineno + 1
    at = anchor.end_lineno - shift  # anchor lies after the block
    return "".join(rest[:at] + blk + rest[at:])


def mutants(corpus: Corpus):
    out: list = []
    cx = _ctx(corpus)
    flt = _filter(corpus)
    fi, m = cx.fi, cx.mod
    src = m.src
    rel = m.rel

    def add(id_, rule_, new_src, expect, canary=False, rel_=rel, note=""):
        out.append(Mutant(id_, rule_, rel_, new_src, expect=expect, canary=canary, note=note))

    # ---- R1 ----
    rets = sorted((n for n in fi.local_nodes() if isinstance(n, ast.Return)), key=lambda r: r.lineno)
    gate = find_node(fi, lambda n: isinstance(n, ast.If) and any(isinstance(c, ast.Call) and dotted(c.func) == "all" for c in ast.walk(n.test)))
    if gate is not None and isinstance(gate.body[-1], ast.Return):
        r = gate.body[-1]
        c = next((c for c in ast.walk(r.value) if isinstance(c, ast.Call) and c.args and isinstance(c.args[0], ast.Name) and c.args[0].id == cx.p_text), None)
        if c is not None:
            add("c17-passthrough-rerendered", "C17.R1", splice(src, c.args[0], "str(root)"), "str(root)", canary=True, note="AST round trip instead of the source text")
        allc = next(c for c in ast.walk(gate.test) if isinstance(c, ast.Call) and dotted(c.func) == "all")
        add("c17-gate-any", "C17.R1", splice(src, allc.func, "any"), "quantifier")
        gen = allc.args[0]
        disj = gen.elt.values if isinstance(gen.elt, ast.BoolOp) else []
        for d in disj:
            if isinstance(d, ast.BoolOp) and isinstance(d.op, ast.And) and isinstance(d.values[0], ast.Name):
                tag = next((nt[1] for nt in (_name_test(v) for v in d.values) if nt), "?")
                rest_ = " and ".join(ast.get_source_segment(src, v) for v in d.values[1:])
                add(f"c17-gate-flag-dropped-{tag}", "C17.R1", splice(src, d, rest_), f"<{tag}>", canary=(tag == "img"), note="conversion no longer depends on the extension being enabled")
            if isinstance(d, ast.BoolOp) and len(d.values) == 3:
                keep = " and ".join(ast.get_source_segment(src, v) for v in d.values[:2])
                add("c17-gate-class-test-dropped", "C17.R1", splice(src, d, keep), "<div>", note="every <div> is converted")
        flags = [d.values[0] for d in disj if isinstance(d, ast.BoolOp) and isinstance(d.values[0], ast.Name)]
        if len(flags) == 2:
            s2 = splice(src, flags[1], flags[0].id)
            s2 = splice(s2, flags[0], flags[1].id) if flags[0].lineno < flags[1].lineno else s2
            add("c17-gate-flags-swapped", "C17.R1", s2, "switched by")
    else:
        out.append(("c17-gate-mutants", "gate not found"))
    dh = corpus.find_function(m.resolve("default_html"))
    if dh is not None:
        raw = find_node(dh, lambda n: isinstance(n, ast.Call) and _resolves(dh.module, n.func, "docutils.nodes.raw"))
        if raw is not None and len(raw.args) > 1:
            add("c17-raw-text-stripped", "C17.R1", splice(dh.module.src, raw.args[1], unparse(raw.args[1]) + ".strip()"), "raw node text", rel_=dh.module.rel)
            f = kwarg(raw, "format")
            if f is not None:
                add("c17-raw-format-changed", "C17.R1", splice(dh.module.src, f, '"xhtml"'), "raw node format", rel_=dh.module.rel)
    # parse-failure handler drops the HTML
    h = find_node(fi, lambda n: isinstance(n, ast.ExceptHandler))
    if h is not None and isinstance(h.body[-1], ast.Return) and isinstance(h.body[-1].value, ast.BinOp):
        add("c17-parse-failure-drops-html", "C17.R1", splice(src, h.body[-1].value, ast.get_source_segment(src, h.body[-1].value.left)), "except", note="warning only, HTML lost")
    # text edited on entry
    first = fi.node.body[1] if isinstance(fi.node.body[0], ast.Expr) and isinstance(fi.node.body[0].value, ast.Constant) else fi.node.body[0]
    add("c17-text-stripped-on-entry", "C17.R1", splice(src, first, f"{cx.p_text} = {cx.p_text}.strip()\n    " + ast.get_source_segment(src, first)), "store to")
    # dispatch: image directive in the wrong branch
    lp = find_node(fi, lambda n: isinstance(n, ast.If) and _name_test(n.test) is not None and _name_test(n.test)[1] == "img" and n.orelse)
    if lp is not None:
        add("c17-dispatch-tag-changed", "C17.R1", splice(src, lp.test.comparators[0], '"div"'), "dispatch")
    base = cx.base
    rb = corpus.lookup_method(cx.renderer_cls, "render_html_block")
    if rb is not None:
        c = find_node(rb, lambda n: isinstance(n, ast.Attribute) and n.attr == "content")
        if c is not None:
            add("c17-caller-strips-content", "C17.R1", splice(rb.module.src, c, unparse(c) + ".strip()"), "text argument", rel_=rb.module.rel)
    ri = corpus.lookup_method(cx.renderer_cls, "render_html_inline")
    if ri is not None and len(ri.node.body) == 1:
        add("c17-inline-not-routed", "C17.R1", splice(ri.module.src, ri.node.body[0], "self.render_text(token)"), "render_html_inline", rel_=ri.module.rel)

    # ---- R2 ----
    if flt.stmt is not None:
        pat = flt.compile_call.args[0]
        pat_src = ast.get_source_segment(src, pat)
        add("c17-gfm-tag-dropped", "C17.R2", splice(src, pat, pat_src.replace("|xmp", "")), "tag set", canary=True)
        add("c17-gfm-tag-misspelt", "C17.R2", splice(src, pat, pat_src.replace("noframes", "noframe")), "tag set")
        add("c17-gfm-closing-form-dropped", "C17.R2", splice(src, pat, pat_src.replace("(\\/?)", "()")), "closing form")
        add("c17-gfm-lookahead-narrowed", "C17.R2", splice(src, pat, pat_src.replace("\\t\\n\\f\\r ", " ")), "terminator")
        add("c17-gfm-slash-only-before-gt", "C17.R2", splice(src, pat, pat_src.replace(" />])", " >]|/>)")), "terminator", note="seed class: '/' accepted only as '/>'")
        add("c17-gfm-lookahead-space-or-gt", "C17.R2", splice(src, pat, pat_src.replace("(?=[\\t\\n\\f\\r />])", "(?=\\s|>)")), "terminator", note="seed class: '/' no longer ends the tag name (`<script/src=x>`)")
        add("c17-gfm-lookahead-dropped", "C17.R2", splice(src, pat, pat_src[: pat_src.index("(?=")] + pat_src[-1]), "terminator")
        if len(flt.compile_call.args) > 1:
            add("c17-gfm-case-sensitive", "C17.R2", splice(src, flt.compile_call, f"re.compile({pat_src})"), "case-insensitive")
        new = find_node(fi, lambda n: isinstance(n, ast.Constant) and n.value == "&lt;")
        if new is not None:
            add("c17-gfm-backslash-escape", "C17.R2", splice(src, new, '"\\\\<"'), "replacement", note="markdown-style escape leaves the '<' in the raw HTML")
        add("c17-gfm-first-occurrence-only", "C17.R2", splice(src, flt.call, ast.get_source_segment(src, flt.call)[:-1] + ", count=1)"), "every occurrence")
        if flt.if_stmt is not None:
            later = sorted((s_ for s_ in fi.node.body if isinstance(s_, ast.If) and s_.lineno > flt.if_stmt.end_lineno and isinstance(s_.body[-1], ast.Return)), key=lambda s_: s_.lineno)
            nxt = later[0] if later and parent(flt.if_stmt) is fi.node else None
            if nxt is not None:
                add("c17-gfm-filter-after-early-return", "C17.R2", _move_block_after(src, flt.if_stmt, nxt), "filter precedes", canary=True, note="plain pass-through path unfiltered")
            add("c17-gfm-filter-extra-condition", "C17.R2", splice(src, flt.if_stmt.test, ast.get_source_segment(src, flt.if_stmt.test) + ' and "html_image" in renderer.md_config.enable_extensions'), "gfm_only alone")

    # ---- R3 ----
    for cname, extra, rule_expect in (("OPTION_KEYS_IMAGE", "title", "OPTION_KEYS_IMAGE"), ("OPTION_KEYS_ADMONITION", "id", "OPTION_KEYS_ADMONITION")):
        node = m.const_nodes.get(cname)
        if isinstance(node, ast.Set):
            add(f"c17-whitelist-extra-{extra}", "C17.R3", splice(src, node.elts[-1], ast.get_source_segment(src, node.elts[-1]) + f', "{extra}"'), rule_expect, canary=(extra == "title"))
    wl_uses = sorted((n for n in fi.local_nodes() if isinstance(n, ast.Name) and n.id == "OPTION_KEYS_ADMONITION"), key=lambda n: n.lineno)
    if wl_uses and "OPTION_KEYS_IMAGE" in m.const_nodes:
        add("c17-wrong-whitelist-for-admonition", "C17.R3", splice(src, wl_uses[0], "OPTION_KEYS_IMAGE"), "admonition option_spec")

    # ---- R4 ----
    sinks = cx.sinks()
    for sfn, call in sinks:
        name = cx.sink_name(call)
        content = arg_or_kw(call, cx.rd_idx["content"], "content")
        if name == "image" and content is not None and sfn is fi:
            add("c17-unquoted-new-option", "C17.R4", splice(src, content, ast.get_source_segment(src, content) + ' + f"\\n:target: {child.attrs[\'href\']}"'), "href")
    comps = sorted((n for n in fi.local_nodes() if isinstance(n, ast.GeneratorExp) and n.generators[0].ifs and any(isinstance(x, ast.Name) and x.id.startswith("OPTION_KEYS") for x in ast.walk(n.generators[0].ifs[0]))), key=lambda n: n.lineno)
    if comps:
        g0 = comps[0]
        add("c17-whitelist-guard-dropped", "C17.R4", splice(src, g0.generators[0].ifs[0], "True"), "attribute name")
    # repaired F18 (if the tree quotes the values): revert the quoting
    reverted = False
    for js in (n for n in fi.local_nodes() if isinstance(n, ast.JoinedStr)):
        for fv in js.values:
            if isinstance(fv, ast.FormattedValue) and isinstance(fv.value, ast.Call) and Taint(cx).is_quoting_call(fv.value) and fv.value.args:
                add("c17-f18-quoting-reverted", "C17.R4", splice(src, fv.value, ast.get_source_segment(src, fv.value.args[0])), "attribute value")
                reverted = True
                break
        if reverted:
            break
    if not reverted:
        out.append(("c17-f18-quoting-reverted", "attribute values are not passed through a recognised quoting call on this tree"))
    # the sanitiser itself (landed with fd1db9d): edits after which some values no longer survive
    qfn = None
    for js in (n for n in fi.local_nodes() if isinstance(n, ast.JoinedStr)):
        for fv in js.values:
            if isinstance(fv, ast.FormattedValue) and isinstance(fv.value, ast.Call) and dotted(fv.value.func):
                cand = corpus.find_function(m.resolve(dotted(fv.value.func)))
                if cand is not None and Taint(cx).is_quoting_call(fv.value):
                    qfn = cand
    if qfn is not None:
        qm = qfn.module
        for t in (n for n in qfn.local_nodes() if isinstance(n, ast.Call)):
            rx = _fullmatch_regex(t, qfn, qfn.params[0])
            if rx is not None and isinstance(t.func.value, ast.Name):
                pat_node = qm.const_nodes[t.func.value.id].args[0]
                add("c17-plain-pattern-admits-hash", "C17.R4", splice(qm.src, pat_node, "r" + repr(rx[0].replace("_.%/-]*", "_.%/#-]*", 1))), "lossy quoting", rel_=qm.rel, note="'a #b' is passed on unquoted and cut at the comment")
                add("c17-plain-pattern-any-nonspace", "C17.R4", splice(qm.src, pat_node, 'r"\\S+"'), "lossy quoting", rel_=qm.rel)
                break
        reps = sorted((n for n in qfn.local_nodes() if isinstance(n, ast.Call) and isinstance(n.func, ast.Attribute) and n.func.attr == "replace"), key=lambda n: (n.end_lineno, n.end_col_offset))
        if reps:
            outer = reps[-1]
            add("c17-line-separator-escape-dropped", "C17.R4", splice(qm.src, outer, ast.get_source_segment(qm.src, outer.func.value)), "lossy quoting", rel_=qm.rel, note="U+2029 stays raw inside the quotes")
        dumps = find_node(qfn, lambda n: isinstance(n, ast.Call) and _resolves(qm, n.func, "json.dumps"))
        if dumps is not None and kwarg(dumps, "ensure_ascii") is not None:
            add("c17-ensure-ascii-default", "C17.R4", splice(qm.src, dumps, f"{unparse(dumps.func)}({ast.get_source_segment(qm.src, dumps.args[0])})"), "lossy quoting", rel_=qm.rel, note="non-BMP characters come back as surrogate pairs")
    else:
        out.append(("c17-sanitiser-mutants", "no quoting helper function on this tree"))
    # ---- R1: class tests are word tests; parser state per fragment ----
    if gate is not None:
        ct = find_node(fi, lambda n: isinstance(n, ast.Attribute) and n.attr == "classes" and gate.lineno <= n.lineno <= gate.end_lineno)
        if ct is not None:
            add("c17-gate-class-substring", "C17.R1", splice(src, ct, ast.get_source_segment(src, ct.value) + '["class"]'), "class test", canary=True, note="seed class: substring test on the raw class attribute")
        later = sorted((n for n in fi.local_nodes() if isinstance(n, ast.Attribute) and n.attr == "classes" and n.lineno > gate.end_lineno), key=lambda n: n.lineno)
        if later:
            add("c17-title-class-substring", "C17.R1", splice(src, later[0], ast.get_source_segment(src, later[0].value) + '.get("class", "")'), "class test")
    acls = corpus.cls("parsers.parse_html:Attribute")
    pc = acls.methods.get("classes")
    if pc is not None:
        sp = find_node(pc, lambda n: isinstance(n, ast.Call) and isinstance(n.func, ast.Attribute) and n.func.attr == "split")
        if sp is not None:
            add("c17-classes-property-unsplit", "C17.R1", splice(pc.module.src, sp, ast.get_source_segment(pc.module.src, sp.func.value)), "class test", rel_=pc.module.rel)
    # ---- R1: nothing but white-space text is dropped before the gate ----
    est = corpus.lookup_method(corpus.cls("parsers.parse_html:Element"), "strip")
    if est is not None:
        iso = find_node(est, lambda n: isinstance(n, ast.Call) and dotted(n.func) == "isinstance" and isinstance(parent(n), ast.BoolOp))
        if iso is not None and isinstance(iso.args[1], ast.Name):
            ps_ = est.module.src
            add("c17-strip-drops-blank-terminals", "C17.R1", splice(ps_, iso.args[1], "TerminalElement"), "discards only white-space text", rel_=est.module.rel, note="seed class: blank comments/PIs vanish before the gate")
            add("c17-strip-drops-blank-comments", "C17.R1", splice(ps_, iso.args[1], f"({iso.args[1].id}, Comment)"), "discards only white-space text", rel_=est.module.rel)
            add("c17-strip-drops-all-text", "C17.R1", splice(ps_, parent(iso), ast.get_source_segment(ps_, iso)), "discards only white-space text", rel_=est.module.rel)
        else:
            out.append(("c17-strip-mutants", "Element.strip filter has no `isinstance(e, X) and ...` test"))
    rec = find_node(fi, lambda n: isinstance(n, ast.keyword) and n.arg == "recurse" and isinstance(n.value, ast.Constant) and n.value.value is False)
    if rec is not None:
        add("c17-root-stripped-recursively", "C17.R1", splice(src, rec.value, "True"), "inner white space kept")
    else:
        out.append(("c17-root-stripped-recursively", "no recurse=False keyword in html_to_nodes"))
    # ---- R5: raw nodes stay in the tree ----
    ca = corpus.find_function(f"{cx.base.name}.clean_astext")
    if ca is not None:
        cp_ = find_stmt(ca, lambda s_: isinstance(s_, ast.Assign) and _is_deepcopy(s_.value, ca.module))
        if cp_ is not None:
            seg = ast.get_source_segment(ca.module.src, cp_)
            ind = " " * cp_.col_offset
            tgt = unparse(cp_.targets[0])
            add("c17-title-copy-only-with-images", "C17.R5", splice(ca.module.src, cp_, f"if any(True for _ in findall({tgt})(nodes.image)):\n{ind}    {seg}"), "clean_astext", rel_=ca.module.rel, note="seed class: copy made on some paths only, raw nodes deleted from the real title")
            add("c17-title-copy-dropped", "C17.R5", splice(ca.module.src, cp_, "pass"), "clean_astext", rel_=ca.module.rel)
        else:
            out.append(("c17-title-copy-mutants", "clean_astext makes no deep copy"))
    for modname, q in (("parsers.sphinx_", "MystParser.parse"), ("parsers.docutils_", "Parser.parse")):
        pf = corpus.func(f"{modname}:{q}")
        g_ = find_node(pf, lambda n: isinstance(n, ast.If) and "raw_enabled" in unparse(n.test))
        if g_ is not None:
            add(f"c17-raw-filter-unconditional-{modname.split('.')[-1]}", "C17.R5", splice(pf.module.src, g_.test, "True"), "raw nodes of", rel_=pf.module.rel, canary=(modname == "parsers.sphinx_"))
    # removal moved into a helper, filter unconditional (the rule must follow the helper)
    pfd = corpus.func("parsers.docutils_:Parser.parse")
    gd = find_node(pfd, lambda n: isinstance(n, ast.If) and "raw_enabled" in unparse(n.test))
    if gd is not None:
        inner = next((n for n in ast.walk(gd) if isinstance(n, ast.For) and any(isinstance(c, ast.Call) and len(c.args) >= 1 and unparse(c.args[0]) == "nodes.raw" for c in ast.walk(n.iter))), None)
        if inner is not None and isinstance(inner.target, ast.Name):
            dsrc = pfd.module.src
            ind = " " * inner.body[0].col_offset
            s2 = splice(dsrc, inner.body[-1], "pass")
            body0 = inner.body[0]
            s2 = splice(s2, body0, f"_drop_raw_node({inner.target.id})\n{ind}" + ast.get_source_segment(dsrc, body0))
            s2 = splice(s2, gd.test, "True") + f"\n\ndef _drop_raw_node(raw_node):\n    raw_node.parent.remove(raw_node)\n"
            add("c17-raw-removed-in-helper-unconditionally", "C17.R5", s2, "raw nodes of", rel_=pfd.module.rel, note="the removal lives in a helper that is handed the node")
    # the whole filter loop in a helper, guard judged at the call site: call made unconditional
    if gd is not None and len(gd.body) == 1 and isinstance(gd.body[0], ast.For):
        dsrc = pfd.module.src
        loop_ = gd.body[0]
        lines_ = dsrc.splitlines(keepends=True)
        body_txt = "".join(lines_[loop_.lineno - 1 : loop_.end_lineno])
        import textwrap as _tw
        helper = "\n\ndef _remove_raw_nodes_helper(document):\n" + _tw.indent(_tw.dedent(body_txt), "    ")
        s3 = splice(dsrc, loop_, "_remove_raw_nodes_helper(document)")
        s3 = splice(s3, gd.test, "True") + helper
        add("c17-raw-filter-helper-called-unguarded", "C17.R5", s3, "raw nodes of", rel_=pfd.module.rel, note="the removal loop lives in a helper; its call site lost the raw_enabled guard")
    # ---- R6: extension switch restored ----
    fm = corpus.func("sphinx_ext.directives:FigureMarkdown.run")
    sv_ = find_stmt(fm, lambda s_: isinstance(s_, ast.Assign) and isinstance(s_.value, ast.Call) and (dotted(s_.value.func) or "") == "copy" and (dotted(s_.value.args[0]) or "").endswith(".enable_extensions"))
    tr_ = find_stmt(fm, lambda s_: isinstance(s_, ast.Try) and s_.finalbody)
    if sv_ is not None and tr_ is not None:
        fsrc = fm.module.src
        add("c17-extension-set-saved-by-alias", "C17.R6", splice(fsrc, sv_.value, ast.get_source_segment(fsrc, sv_.value.args[0])), "FigureMarkdown.run", rel_=fm.module.rel, note="no copy: html_image stays on after the first figure-md")
        path_ = dotted(sv_.value.args[0])
        add("c17-extension-switch-undone-in-place", "C17.R6", splice(fsrc, tr_.finalbody[0], f'{path_}.discard("html_image")'), "FigureMarkdown.run", rel_=fm.module.rel, note="seed class: html_image switched off although it was enabled")
    else:
        out.append(("c17-extension-switch-mutants", "figure-md no longer saves a copy of enable_extensions before a try/finally"))
    # ---- round-5 seed classes ----
    rootdef = find_stmt(fi, lambda s_: isinstance(s_, ast.Assign) and _is_tokenizer_call(cx, next((c for c in ast.walk(s_.value) if _is_tokenizer_call(cx, c)), None)))
    if rootdef is not None and isinstance(rootdef.targets[0], ast.Name):
        rn = rootdef.targets[0].id
        ind = " " * rootdef.col_offset
        seg = ast.get_source_segment(src, rootdef)
        add("c17-root-filtered-to-named-elements", "C17.R1", splice(src, rootdef, f"{seg}\n{ind}{rn} = [c for c in {rn} if c.name]"), "discards only white-space text", note="seed class: text/comments between convertible elements dropped before the gate")
        add("c17-root-filtered-to-tags", "C17.R1", splice(src, rootdef, f"{seg}\n{ind}{rn} = [c for c in {rn} if not isinstance(c, Data)]"), "discards only white-space text")
        tcall = next(c for c in ast.walk(rootdef.value) if _is_tokenizer_call(cx, c))
        if isinstance(tcall.func, ast.Name):
            add("c17-module-level-tokenizer-fed-directly", "C17.R1", splice(src, tcall, "_HTML_TOKENIZER.feed(" + ast.get_source_segment(src, tcall.args[0]) + ")").replace("from myst_parser.parsers.parse_html import ", "from myst_parser.parsers.parse_html import HtmlToAst, ", 1).replace(f"def {fi.name}(", f"_HTML_TOKENIZER = HtmlToAst()\n\n\ndef {fi.name}(", 1), "parser state is per fragment", note="seed class: one parser object for all fragments, fed by html_to_nodes itself")
    pstrip = find_node(fi, lambda n: isinstance(n, ast.Attribute) and n.attr == "children" and isinstance(parent(n), ast.Call) and isinstance(parent(n).func, ast.Attribute) and parent(n).func.attr == "extend")
    if pstrip is not None:
        add("c17-paragraph-children-stripped", "C17.R1", splice(src, pstrip, ast.get_source_segment(src, pstrip.value) + ".strip().children"), "inner white space kept", note="seed class: blank between two inline elements of a <p> dropped")
    if flt.stmt is not None and flt.fn is fi and flt.if_stmt is not None and flt.target == cx.p_text and gate is not None:
        # (only while the filter sits in the converting function itself; with a filtering wrapper the class is covered by
        # c17-filtered-copy-passed-on-but-one-site-unfiltered)
        # the filtered text kept in a second variable, one pass-through site left on the unfiltered parameter
        lines = src.splitlines(keepends=True)
        f0, f1 = flt.if_stmt.lineno - 1, flt.if_stmt.end_lineno
        head = "".join(lines[:f0])
        fblk = "".join(lines[f0:f1]).replace(f"{cx.p_text}, _ =", "raw_text, _ =", 1).replace(f"{cx.p_text} =", "raw_text =", 1)
        rest = "".join(lines[f1:])
        keep = ast.get_source_segment(src, gate.body[-1])
        import re as _re
        rest2 = _re.sub(r"default_html\(\s*" + cx.p_text + r"\b", "default_html(raw_text", rest)
        rest2 = rest2.replace(_re.sub(r"default_html\(\s*" + cx.p_text + r"\b", "default_html(raw_text", keep), keep, 1) if keep else rest2
        indf = " " * flt.if_stmt.col_offset
        if rest2 != rest:
            add("c17-filtered-copy-not-used-at-one-site", "C17.R2", head + f"{indf}raw_text = {cx.p_text}\n" + fblk + rest2, "unfiltered text emitted", note="seed class: interaction gfm_only x html extension")
    for modname, q in (("parsers.docutils_", "Parser.parse"), ("parsers.sphinx_", "MystParser.parse")):
        pf = corpus.func(f"{modname}:{q}")
        g_ = find_node(pf, lambda n: isinstance(n, ast.If) and "raw_enabled" in unparse(n.test) and isinstance(n.test, ast.UnaryOp))
        if g_ is not None:
            inner = ast.get_source_segment(pf.module.src, g_.test.operand)
            add(f"c17-raw-filter-also-on-file-insertion-{modname.split('.')[-1]}", "C17.R5", splice(pf.module.src, g_.test, f'not ({inner} and getattr(document.settings, "file_insertion_enabled", True))'), "raw nodes of", rel_=pf.module.rel, note="seed class: filter fires while raw content is enabled")
            ga = find_node(pf, lambda n: isinstance(n, ast.Call) and dotted(n.func) == "getattr" and len(n.args) == 3 and isinstance(n.args[1], ast.Constant) and n.args[1].value == "raw_enabled")
            if ga is not None and modname == "parsers.docutils_":
                add("c17-raw-filter-default-false", "C17.R5", splice(pf.module.src, ga.args[2], "False"), "raw nodes of", rel_=pf.module.rel)
    hfeed = corpus.lookup_method(corpus.cls("parsers.parse_html:HtmlToAst"), "feed")
    if hfeed is not None:
        cl = find_stmt(hfeed, lambda s_: isinstance(s_, ast.Expr) and isinstance(s_.value, ast.Call) and unparse(s_.value.func) in ("self.close", "super().close"))
        if cl is not None:
            add("c17-parser-not-closed-after-feed", "C17.R1", splice(hfeed.module.src, cl, "pass"), "close after feed", rel_=hfeed.module.rel, note="revert: unterminated tail of the fragment is dropped")
    # ---- reverts of the round-10 repairs (9f86d61, 991316c, 95adc42, 0ccf3c3) ----
    phm = corpus.mod("parsers.parse_html")
    psrc = phm.src
    hcls = corpus.cls("parsers.parse_html:HtmlToAst")
    he_ = hcls.methods.get("handle_endtag")
    if he_ is not None:
        iff = find_stmt(he_, lambda s_: isinstance(s_, ast.If) and any(isinstance(c, ast.Call) and isinstance(c.func, ast.Attribute) and c.func.attr == "enclose" for c in ast.walk(s_.test)))
        if iff is not None:
            enc_call = next(c for c in ast.walk(iff.test) if isinstance(c, ast.Call) and isinstance(c.func, ast.Attribute) and c.func.attr == "enclose")
            ind = " " * iff.col_offset
            add("c17-stray-end-tag-dropped", "C17.R1", splice(psrc, iff, f"if {he_.params[1]} not in self.void_elements:\n{ind}    {ast.get_source_segment(psrc, enc_call)}"), "every end tag closes an element or leaves a node", rel_=phm.rel, canary=True, note="revert 9f86d61: `<img ...>\\n</section>` converted, end tag lost")
        else:
            out.append(("c17-stray-end-tag-dropped", "handle_endtag has no `if ... enclose(...)` test"))
    hs_ = hcls.methods.get("handle_starttag")
    if hs_ is not None:
        g1 = find_node(hs_, lambda n: isinstance(n, ast.Call) and unparse(n) == "self.get_starttag_text()" and isinstance(parent(n), ast.Call) and "nest_tag" in unparse(parent(n).func))
        if g1 is not None:
            add("c17-start-tag-rebuilt-from-attrs", "C17.R1", splice(psrc, g1, "None"), "start tag kept with its source text", rel_=phm.rel, note="revert 991316c at the Tag site")
    ecl = corpus.cls("parsers.parse_html:Element")
    rs_ = ecl.methods.get("_render_start")
    if rs_ is not None:
        t_ = find_node(rs_, lambda n: isinstance(n, ast.If) and "raw" in unparse(n.test))
        if t_ is not None:
            add("c17-render-start-ignores-source", "C17.R1", splice(psrc, t_.test, "False"), "start tag kept with its source text", rel_=phm.rel)
    rcalls = sorted((n for n in fi.local_nodes() if isinstance(n, ast.Call) and isinstance(n.func, ast.Attribute) and n.func.attr == "render" and any(k_.arg == "source_end_tags" for k_ in n.keywords)), key=lambda n: n.lineno)
    if rcalls:
        last = rcalls[-1]
        add("c17-body-rendered-with-invented-end-tags", "C17.R1", splice(src, last, f"{ast.get_source_segment(src, last.func)}()"), "only end tags present in the source", note="revert 95adc42 in html_to_nodes")
    else:
        out.append(("c17-body-rendered-with-invented-end-tags", "no render(source_end_tags=...) call in html_to_nodes"))
    tcls = corpus.cls("parsers.parse_html:Tag")
    tr_ = tcls.methods.get("render")
    if tr_ is not None:
        sk = find_stmt(tr_, lambda s_: isinstance(s_, ast.Assign) and "source_end_tags" in unparse(s_.value))
        if sk is not None:
            add("c17-tag-render-always-closes", "C17.R1", splice(psrc, sk.value, "False"), "end tag only if closed", rel_=phm.rel)
    dcp = ecl.methods.get("deepcopy")
    if dcp is not None:
        cst = find_stmt(dcp, lambda s_: isinstance(s_, ast.Assign) and isinstance(s_.targets[0], ast.Attribute) and s_.targets[0].attr == "closed")
        if cst is not None:
            add("c17-deepcopy-forgets-closed-flag", "C17.R1", splice(psrc, cst, "pass"), "copies keep the closed flag", rel_=phm.rel)
    nt_ = corpus.cls("parsers.parse_html:Tree").methods.get("nest_tag")
    if nt_ is not None:
        cst = find_stmt(nt_, lambda s_: isinstance(s_, ast.Assign) and isinstance(s_.targets[0], ast.Attribute) and s_.targets[0].attr == "closed")
        if cst is not None:
            add("c17-start-tag-counts-as-closed", "C17.R1", splice(psrc, cst, "pass"), "opens an unclosed element", rel_=phm.rel)
    enc_ = corpus.cls("parsers.parse_html:Tree").methods.get("enclose")
    if enc_ is not None:
        cst = find_stmt(enc_, lambda s_: isinstance(s_, ast.Assign) and isinstance(s_.targets[0], ast.Attribute) and s_.targets[0].attr == "closed")
        if cst is not None:
            add("c17-end-tag-never-closes-element", "C17.R1", splice(psrc, cst, "pass"), "the matching end tag closes the element", rel_=phm.rel)
            gif = parent(cst)
            if isinstance(gif, ast.If) and cst in gif.body and isinstance(parent(gif), ast.For):
                seg = ast.get_source_segment(psrc, cst)
                ind = " " * gif.col_offset
                lines = psrc.splitlines(keepends=True)
                lines[cst.lineno - 1] = lines[cst.lineno - 1].replace(seg, "pass")
                lines.insert(gif.lineno - 1, ind + seg + "\n")
                add("c17-every-scanned-element-marked-closed", "C17.R1", "".join(lines), "the matching end tag closes the element", rel_=phm.rel, note="flag set outside the name match")
    if flt.stmt is not None:
        fl = arg_or_kw(flt.compile_call, 1, "flags")
        if isinstance(fl, ast.BinOp) and "ASCII" in unparse(fl):
            keep = fl.left if "ASCII" in unparse(fl.right) else fl.right
            add("c17-gfm-unicode-case-folding", "C17.R2", splice(src, fl, ast.get_source_segment(src, keep)), "case-insensitive", note="revert 0ccf3c3: <tıtle> rewritten")
        else:
            out.append(("c17-gfm-unicode-case-folding", "the filter regex has no `| re.ASCII` flag"))
    hin = corpus.lookup_method(cx.renderer_cls, "render_html_inline")
    if hin is not None and hin.node.body:
        first_ = hin.node.body[0]
        tokp = hin.params[1] if len(hin.params) > 1 else "token"
        ind_ = " " * first_.col_offset
        add("c17-inline-shortcut-bypasses-html-to-nodes", "C17.R1", splice(hin.module.src, first_, f'if "html_image" not in self.md_config.enable_extensions:\n{ind_}    self.current_node.append(nodes.raw("", {tokp}.content, format="html"))\n{ind_}    return\n{ind_}' + ast.get_source_segment(hin.module.src, first_)), "routes to html_to_nodes", rel_=hin.module.rel, note="seed class: some inline tokens never reach html_to_nodes (GFM filter bypassed)")
    # ---- wrapper classes (round 15) ----
    if cx.entry is not cx.fi and cx.delegate is not None:
        ent = cx.entry
        hr = find_stmt(ent, lambda s_: isinstance(s_, ast.Return) and s_.value is not None and not any(c is cx.delegate for c in ast.walk(s_.value)) and "default_html" in unparse(s_.value))
        msgv = find_stmt(ent, lambda s_: isinstance(s_, ast.Assign) and isinstance(s_.targets[0], ast.Name) and "create_warning" in unparse(s_.value))
        if hr is not None and msgv is not None:
            ind = " " * hr.col_offset
            add("c17-wrapper-drops-html-when-warning-suppressed", "C17.R1", splice(src, hr, f"if {msgv.targets[0].id} is None:\n{ind}    return []\n{ind}" + ast.get_source_segment(src, hr)), "return []", note="seed class: no raw node when the accompanying warning is suppressed")
        ef = Filter(cx, ent, cx.entry_text)
        if ef.stmt is not None and ef.if_stmt is not None and ef.target == cx.entry_text and gate is not None:
            import re as _re2
            t_ = cx.entry_text
            lines = src.splitlines(keepends=True)
            e0, e1 = ent.node.lineno - 1, ent.node.end_lineno
            c0, c1 = fi.node.lineno - 1, fi.node.end_lineno
            esrc, csrc = "".join(lines[e0:e1]), "".join(lines[c0:c1])
            indf = " " * ef.if_stmt.col_offset
            fseg = ast.get_source_segment(src, ef.if_stmt)
            e2 = esrc.replace(fseg, f"raw_text = {t_}\n{indf}" + fseg.replace(f"{t_}, _ =", "raw_text, _ =", 1).replace(f"{t_} =", "raw_text =", 1), 1)
            dseg = ast.get_source_segment(src, cx.delegate)
            e2 = e2.replace(dseg, dseg.replace(f"({t_},", f"({t_}, raw_text,", 1), 1)
            e2 = _re2.sub(r"default_html\(\s*" + t_ + r"\b", "default_html(raw_text", e2)
            c2 = _re2.sub(r"(def " + fi.name + r"\(\s*" + cx.p_text + r": str,)", r"\1 raw_text: str,", csrc, count=1)
            keep = ast.get_source_segment(src, gate.body[-1])
            c2 = _re2.sub(r"default_html\(\s*" + cx.p_text + r"\b", "default_html(raw_text", c2)
            c2 = c2.replace(_re2.sub(r"default_html\(\s*" + cx.p_text + r"\b", "default_html(raw_text", keep), keep, 1)
            if e2 != esrc and c2 != csrc and "raw_text: str" in c2:
                new_src = "".join(lines[:e0]) + e2 + "".join(lines[e1:c0]) + c2 + "".join(lines[c1:]) if e0 < c0 else "".join(lines[:c0]) + c2 + "".join(lines[c1:e0]) + e2 + "".join(lines[e1:])
                add("c17-filtered-copy-passed-on-but-one-site-unfiltered", "C17.R2", new_src, "emits the filtered copy", note="seed class: wrapper hands (text, raw_text) to the core; one pass-through site emits text")
    # ---- round-14 repairs: reverts and partial weakenings ----
    if hin is not None:
        kw = find_node(hin, lambda n: isinstance(n, ast.keyword) and isinstance(n.value, ast.Constant) and n.value.value is True)
        if kw is not None:
            bsrc = hin.module.src
            add("c17-inline-mark-not-passed", "C17.R1", splice(bsrc, kw.value, "False"), "an inline tag is never converted", rel_=hin.module.rel, note="revert 6751f78 at the handler")
    flagdef = find_stmt(fi, lambda s_: isinstance(s_, ast.Assign) and isinstance(s_.value, ast.BoolOp) and isinstance(s_.value.op, ast.And) and any(isinstance(v, ast.UnaryOp) and isinstance(v.operand, ast.Name) and v.operand.id in fi.params for v in s_.value.values))
    if flagdef is not None:
        keepv = [v for v in flagdef.value.values if not (isinstance(v, ast.UnaryOp) and isinstance(v.operand, ast.Name) and v.operand.id in fi.params)]
        add("c17-inline-mark-ignored-by-gate", "C17.R1", splice(src, flagdef.value, " and ".join(ast.get_source_segment(src, v) for v in keepv)), "an inline tag is never converted", note="the gate's <div> alternative no longer requires `not inline`")
    if cx.delegate is not None and len(cx.delegate.args) > 3:
        add("c17-inline-mark-not-forwarded", "C17.R1", splice(src, cx.delegate.args[3], "False"), "an inline tag is never converted", note="the wrapper drops the mark")
    pif = find_node(fi, lambda n: isinstance(n, ast.If) and _name_test(n.test) is not None and _name_test(n.test)[1] == "p")
    if pif is not None:
        pre = next((x for x in pif.body if isinstance(x, ast.If)), None)
        if pre is not None:
            add("c17-paragraph-not-separated-from-preceding", "C17.R1", splice(src, pre, "pass"), "separated from what precedes", canary=True, note="revert f49422e")
            add("c17-paragraph-separator-depends-on-attributes", "C17.R1", splice(src, pre.test, ast.get_source_segment(src, pre.test) + f" and {_name_test(pif.test)[0]}.attrs"), "separated from what precedes", note="weakened: break only for <p> with attributes")
        lastapp = pif.body[-1]
        if isinstance(lastapp, ast.Expr) and "append" in unparse(lastapp):
            add("c17-paragraph-not-separated-from-following", "C17.R1", splice(src, lastapp, "pass"), "separated from what follows")
    hfeed2 = hcls.methods.get("feed")
    if hfeed2 is not None:
        wl = find_stmt(hfeed2, lambda s_: isinstance(s_, ast.While))
        if wl is not None:
            add("c17-amp-hash-stall-not-resumed", "C17.R1", splice(psrc, wl, "pass"), "stalled `&#`", rel_=phm.rel, note="revert 71d08a0")
            hd = find_stmt(hfeed2, lambda s_: isinstance(s_, ast.Expr) and "handle_data" in unparse(s_) and any(isinstance(c, ast.Constant) and c.value == "&#" for c in ast.walk(s_)))
            if hd is not None:
                add("c17-amp-hash-not-kept-as-text", "C17.R1", splice(psrc, hd, "pass"), "stalled `&#`", rel_=phm.rel, note="weakened: the `&#` is dropped")
            rf = next((s_ for s_ in wl.body if isinstance(s_, ast.Expr) and unparse(s_.value.func if isinstance(s_.value, ast.Call) else s_) == "super().feed"), None)
            if rf is not None:
                add("c17-amp-hash-not-refed", "C17.R1", splice(psrc, rf, "pass"), "stalled `&#`", rel_=phm.rel, note="weakened: parsing is not resumed")
    if hfeed2 is not None:
        adv_ = find_stmt(hfeed2, lambda s_: isinstance(s_, ast.Assign) and len(s_.targets) == 1 and unparse(s_.targets[0]) == "self.rawdata" and isinstance(s_.value, ast.Subscript) and isinstance(s_.value.value, ast.Name))
        if adv_ is not None:
            snap_ = adv_.value.value.id
            add("c17-amp-hash-loop-ends-after-a-step-only-round", "C17.R1", splice(psrc, adv_.targets[0], f"self.rawdata = {snap_}"), "stalled `&#`", rel_=phm.rel, note="seed class: snapshot overwritten after the step (`&#&# </div>`)")
    apc = corpus.cls("parsers.parse_html:Attribute").methods.get("classes")
    if apc is not None:
        sp2 = find_node(apc, lambda n: isinstance(n, ast.Call) and isinstance(n.func, ast.Attribute) and n.func.attr == "split" and not n.args)
        if sp2 is not None:
            add("c17-classes-split-on-space-only", "C17.R1", splice(psrc, sp2, "[n for n in " + ast.get_source_segment(psrc, sp2.func) + '(" ") if n]'), "class test", rel_=phm.rel, note="seed class: TAB/LF separated class names glued")
    pe_ = hcls.methods.get("parse_endtag")
    if pe_ is not None:
        ifn = find_stmt(pe_, lambda s_: isinstance(s_, ast.If))
        if ifn is not None:
            add("c17-nameless-end-tag-skipped", "C17.R1", splice(psrc, ifn, "pass"), "end tag without a name", rel_=phm.rel, note="revert ae5edf3 (`</>`)")
            hd = find_stmt(pe_, lambda s_: isinstance(s_, ast.Expr) and "handle_data" in unparse(s_))
            if hd is not None:
                add("c17-nameless-end-tag-stepped-over-but-dropped", "C17.R1", splice(psrc, hd, "pass"), "end tag without a name", rel_=phm.rel)
    bc_ = hcls.methods.get("parse_bogus_comment")
    if bc_ is not None:
        asg_ = find_stmt(bc_, lambda s_: isinstance(s_, ast.Assign) and isinstance(s_.targets[0], ast.Attribute) and "rawdata" in unparse(s_.value))
        if asg_ is not None:
            add("c17-bogus-comment-source-not-stored", "C17.R1", splice(psrc, asg_, "pass"), "keep their source text", rel_=phm.rel, note="revert ae5edf3 (bogus comments)")
    ccl = corpus.cls("parsers.parse_html:Comment")
    cr_ = ccl.methods.get("render")
    if cr_ is not None:
        rr = find_stmt(cr_, lambda s_: isinstance(s_, ast.Return) and isinstance(s_.value, ast.BoolOp))
        if rr is not None:
            add("c17-bogus-comment-rebuilt", "C17.R1", splice(psrc, rr.value, ast.get_source_segment(psrc, rr.value.values[-1])), "renders that text", rel_=phm.rel)
    tdc = corpus.cls("parsers.parse_html:TerminalElement").methods.get("deepcopy")
    if tdc is not None:
        cp2 = find_stmt(tdc, lambda s_: isinstance(s_, ast.Assign) and isinstance(s_.targets[0], ast.Attribute) and s_.targets[0].attr == "raw")
        if cp2 is not None:
            add("c17-bogus-comment-source-not-copied", "C17.R1", splice(psrc, cp2, "pass"), "copies keep the source text", rel_=phm.rel, note="weakened: html_to_nodes renders deep copies")
    tk = corpus.find_function(m.resolve("tokenize_html"))
    if tk is not None:
        asg = find_stmt(tk, lambda s_: isinstance(s_, ast.Assign) and isinstance(s_.value, ast.Call) and corpus.find_class(tk.module.resolve(dotted(s_.value.func) or "")) is not None)
        if asg is not None and isinstance(asg.targets[0], ast.Name):
            nm = asg.targets[0].id
            ctor = ast.get_source_segment(tk.module.src, asg.value)
            ind = " " * asg.col_offset
            add("c17-tokenizer-cached-in-dict", "C17.R1", splice(tk.module.src, asg, f"key = ({', '.join(tk.params[1:])})\n{ind}if key not in _TOKENIZERS:\n{ind}    _TOKENIZERS[key] = {ctor}\n{ind}{nm} = _TOKENIZERS[key]").replace(f"def {tk.name}(", f"_TOKENIZERS: dict = {{}}\n\n\ndef {tk.name}(", 1), "parser state", rel_=tk.module.rel, note="seed class: parser object re-used between fragments")
            add("c17-tokenizer-from-lru-cache", "C17.R1", splice(tk.module.src, asg.value, f"_get_tokenizer({', '.join(tk.params[1:])})").replace(f"def {tk.name}(", f"import functools\n\n\n@functools.lru_cache(maxsize=8)\ndef _get_tokenizer({', '.join(tk.params[1:])}):\n    return {ctor}\n\n\ndef {tk.name}(", 1), "parser state", rel_=tk.module.rel, note="seed class: memoised factory")
            add("c17-tokenizer-lazily-created-global", "C17.R1", splice(tk.module.src, asg, f"global _PARSER\n{ind}if _PARSER is None:\n{ind}    _PARSER = {ctor}\n{ind}{nm} = _PARSER").replace(f"def {tk.name}(", f"_PARSER = None\n\n\ndef {tk.name}(", 1), "parser state", rel_=tk.module.rel)
        else:
            out.append(("c17-tokenizer-cache-mutants", "tokenize_html does not assign a freshly constructed parser to a local"))
    # ---- R7: the filter moved out of html_to_nodes into a helper that only one of the two handlers applies ----
    hm = flt.fn.module if flt.stmt is not None else None
    imp = next((n for n in cx.base.tree.body if isinstance(n, ast.ImportFrom) and any(a_.name == cx.entry.name and a_.asname is None for a_ in n.names)), None)
    imp_src = ast.get_source_segment(cx.base.src, imp) if imp is not None else None
    if hm is not None and flt.if_stmt is not None and flt.repl is not None and imp_src is not None and "(" not in imp_src and "gfm_tag_filter_" not in hm.src:
        h_src = splice(hm.src, flt.if_stmt, "pass").replace(
            f"def {cx.entry.name}(",
            f"def gfm_tag_filter_(text):\n    return {flt.regex_name}.sub({ast.get_source_segment(hm.src, flt.repl)}, text)\n\n\ndef {cx.entry.name}(",
            1,
        )
        for adapted, other in (("render_html_block", "render_html_inline"), ("render_html_inline", "render_html_block")):
            meth = corpus.lookup_method(cx.renderer_cls, adapted)
            call = find_node(meth, lambda n: isinstance(n, ast.Call) and dotted(n.func) == cx.entry.name and n.args) if meth is not None and meth.module is cx.base else None
            st = find_stmt(meth, lambda s_: call is not None and any(x is call for x in ast.walk(s_))) if call is not None else None
            if st is None or st not in meth.node.body:
                out.append((f"c17-gfm-filter-helper-only-in-{adapted}", "handler does not call html_to_nodes in a top-level statement"))
                continue
            bsrc = cx.base.src
            a_src, st_src, ind = ast.get_source_segment(bsrc, call.args[0]), ast.get_source_segment(bsrc, st), " " * st.col_offset
            b2 = splice(bsrc, st, f"content_ = {a_src}\n{ind}if {meth.params[0]}.md_config.gfm_only:\n{ind}    content_ = gfm_tag_filter_(content_)\n{ind}" + st_src.replace(a_src, "content_", 1))
            b2 = splice(b2, imp, imp_src + ", gfm_tag_filter_")
            out.append(Mutant(f"c17-gfm-filter-helper-only-in-{adapted}", "C17.R7", hm.rel, h_src, expect=other, more={cx.base.rel: b2}, note="seed class: filter became the callers' duty, one caller forgotten"))
    else:
        out.append(("c17-gfm-filter-helper-mutants", "GFM filter statement / html_to_nodes import not in the expected shape"))
    return out
