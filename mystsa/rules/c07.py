"""C07 - option tokenizer: closed failure mode, termination, in-bounds look-ahead, agreement with PyYAML's scanner."""

from __future__ import annotations

import ast
import re
import textwrap
from collections import Counter

from ..callgraph import get_callgraph
from ..corpus import (
    AnchorMissing,
    Corpus,
    FunctionInfo,
    Module,
    Unsupported,
    dotted,
    parent,
    short,
    splice,
    unparse,
    walk_local,
)
from ..flow import ENTRY, EXIT, get_cfg
from ..flow import facts as split_facts
from ..mutant import Mutant
from ..report import Report
from .common import escape_closure, find_node, rule

PROP = "C07"
READY = False
TECHNIQUE = (
    "exception-escape closure, character-class dataflow over the scanner's CFGs (termination, sentinel bounds), "
    "normal-form fingerprints against the parsed sources of yaml/scanner.py and yaml/reader.py, path rules over the pair assembly"
)

OPT = "parsers.options"
END = "\0"

META = {
    "explanation": (
        "Static necessary conditions of 'the option tokenizer agrees with YAML on its subset and fails only its own way', decided "
        "over the syntax trees / CFGs of parsers/options.py and the parsed (never imported) sources of the installed PyYAML. "
        "R1: exception-escape closure of options_to_items - only TokenizeError may leave it; escape-table look-ups are dominated "
        "by a membership test within the table's keys; int()/chr() on scanned text are discharged by the module's own character "
        "facts (digit facts followed through helper parameters; hex escapes validated by a range(N) loop over peek(k), by "
        "any()/all() or a for-loop over the prefix(N) slice, plus the code-point range test); an `assert <pending key> is not None` in "
        "the value-token branch of _to_tokens is discharged by the protocol invariant of R6, and only while that invariant is proved; "
        "`raise <TokenizeError>.method(...)` is typed by the method's return annotation. "
        "R2: every loop terminates: each cyclic path confined to the loop body strictly advances the cursor, a look-ahead counter "
        "or the exit flag; conditional advances (_scan_line_break) are decided from character-class facts and per-function "
        "summaries (must-advance, advancing set, truthy-implies-advanced); conditional-expression offsets count when every arm "
        "is >= 1; two loops needing a relational argument are tabled with their hand proof and still checked in the weak form. "
        "R3: no forward()/peek(k) can step over the END sentinel: facts from dominating guards, short-circuit operands, "
        "disjunctions, aliases of peek() and caller-side entry facts exclude END; look-ahead counters carry 'no counted offset is "
        "END'; N validated characters (loop / any-all / int() parse under except ValueError) justify forward(N); run-counting "
        "methods of StreamBuffer are in bounds iff their set handles END the right way round; each arm of a conditional offset "
        "is judged under its condition; a definite move (>= 1) over unexamined characters is a violation; inside "
        "StreamBuffer.forward a look-ahead may only read the character at the (old or already advanced) index, never one further. "
        "R4: escape tables cell by cell, the _CHARS_* classes against the unions their names state (line breaks read from "
        "PyYAML's scan_line_break), the sentinel, and for the 13 ported scanner functions plus StreamBuffer.forward/peek/prefix "
        "four order- and rename-insensitive fingerprints (guards = tested stream read x operator x character set, tagged with "
        "their loop depth and, for if-statements, with what each branch consumes/emits/sets; stream effects; emissions, returns "
        "and position stores; boolean flag operands) that must equal those of yaml/scanner.py and yaml/reader.py modulo a tabled "
        "list of deliberate deviations. Both sides are first brought into a normal form: stream helpers inlined (also when "
        "called inside an emission, with early returns), conditional expressions and `flag = <comparison>` as branches, "
        "single-use locals forwarded, loop exit flags and bare returns of procedures ignored, token factories that never see the "
        "stream ignored, raw buffer accesses of the stream class read as peek()/prefix(), the three spellings of "
        "'run of characters in S', the spellings of 'next N characters are "
        "all in S' and `prefix(k) == const` vs per-offset peeks unified, PyYAML's flow-context code read with flow_level == 0. "
        "A missing/replaced entry or an extra unconditional emission/effect is a violation; a conditional pure addition is "
        "ANALYSIS-ERROR. "
        "R5: every TokenizeError carries Position values taken from the stream (through locals, parameters incl. bound methods, "
        "helpers, unpacked sequences, and fields of module classes whose every store holds a stream position - a `Position | None` "
        "field counts where it was tested against None), get_position() binds each Position field to the cursor field of the same name, clone() shifts both marks "
        "by (line_offset -> line, column_offset -> column) - directly, in a helper, or element-wise in a comprehension - with "
        "context_mark guarded against None, and the offsets reach every clone() call un-crossed (in _to_tokens whenever either is non-zero). "
        "R6: the state machine around the scanners: block/quoted scalars are dispatched on exactly the characters PyYAML's "
        "fetch_more_tokens uses and get that character as style; when the text after 'key:' continues at column 0, exactly the "
        "scalars that PyYAML can never take for a simple key (fetch_block_scalar removes the possible simple key; fetch_flow_scalar "
        "and fetch_plain save one, which is required at the mapping's column) are scanned as the value - a '|'/'>' header reaches "
        "_scan_block_scalar there whatever character follows it, a quoted or plain scalar does not (three-valued evaluation of the "
        "dispatch tests under 'column 0, first character c, next character n'); scanners left/right of ':' get is_key True/False; every "
        "pending key reaches a yield before it is overwritten or the generator ends and none is yielded twice; the protocol "
        "invariant 'a value token arrives only while a key is pending' is proved from both sides (_tokenize: no CFG path from the "
        "start or from a value yield to a value yield avoids a key yield, is_key decides the token class; _to_tokens: every key "
        "token is stored, other tokens leave the pending key alone, it is reset only after the pair was yielded); the result pair "
        "is (key.value, value.value or '') and the pairs are collected in a sequence to which every iteration over _to_tokens adds "
        "exactly one element on every path (no mapping/set keyed by the key text, no filter); every value options_to_items returns is built in the iteration over _to_tokens "
        "(no second, unscanned way of producing pairs)."
    ),
    "not_decided": (
        "equality of the returned (key, value) pairs with a YAML loader for every string (runtime-valued); one deliberate, "
        "value-level choice of _tokenize is outside every rule: keys must start at column 0 (indented mappings are rejected); and/or structure of boolean tests and value-level arithmetic such as "
        "`indent = 0 if is_key else 1`; the relational progress argument of the two tabled loops; whether a conditional "
        "addition that PyYAML lacks is redundant"
    ),
    "trusted_base": [
        "CPython ast",
        "the installed PyYAML sources yaml/scanner.py, yaml/reader.py as oracle (version recorded in the evidence notes): the oracle of the "
        "property is PyYAML's pure-Python scanner, not libyaml / the YAML 1.2 specification",
        "tabled deliberate deviations from PyYAML (DEVIATIONS, one reason each); PyYAML's flow-context branches are read with flow_level == 0 (an option block is block context)",
        "two tabled loop proofs (C07.R2 ASSUMED)",
        "int() rejects a string containing NUL; a buffer slice cut short by the end of input contains the sentinel",
    ],
    "assumptions": [
        "agreement is with PyYAML's Python scanner: where that scanner differs from libyaml / YAML 1.2 - notably TAB handling (`a: b<TAB>c`, "
        "`a:<TAB>b`: a TAB ends a plain scalar and cannot start a token) - the port is expected to follow PyYAML, and no rule compares it with another YAML implementation",
        "StreamBuffer is only driven through peek/prefix/forward/get_position and methods that read the buffer without moving the cursor",
        "an embedded NUL in the text is treated as end of input (no claim about characters after it)",
        "output chunk lists are only joined/extended, so emitting '' or [] is a no-op",
    ],
}


def optmod(corpus: Corpus) -> Module:
    return corpus.mod(OPT)


# ---------------------------------------------------------------------------
# R1 closed failure mode


class _Held:
    """Report proxy: holds back escape findings about int(<hex>, 16) / chr(code) in the tokenizer so that C07 can
    re-judge them with its own character facts (the engine's discharge knows one spelling of the validation only)."""

    def __init__(self, rep: Report):
        self._rep = rep
        self.held: list = []

    def violation(self, rule_id, key, site, what, path=None):
        origin = key.split("|origin=", 1)[1] if "|origin=" in key else ""
        fq, _, text = origin.partition("|")
        if fq.startswith(f"myst_parser.{OPT}:") and (text.startswith(("int(", "chr(", "assert ")) or (text.startswith("raise ") and "|Exception|origin=" in key)):
            self.held.append((rule_id, key, site, what, path, fq, text))
        else:
            self._rep.violation(rule_id, key, site, what, path)

    def __getattr__(self, name):
        return getattr(self._rep, name)


def _hex_value_ok(e9, fi: FunctionInfo, call: ast.Call) -> str | None:
    """why int(X, 16) cannot raise: X is prefix(N) and the N characters were validated as hex digits"""
    if not (len(call.args) == 2 and isinstance(call.args[1], ast.Constant) and call.args[1].value == 16):
        return None
    cfg = get_cfg(fi)
    st = cfg.stmt_of(call)
    src_ = e9.prefix_len_name(call.args[0], fi, st)
    if src_ is None:
        return None
    hexd = frozenset("0123456789abcdefABCDEF")
    g_ = e9.validated_value(fi, call.args[0].id, st, within=hexd) if isinstance(call.args[0], ast.Name) else None
    if g_ is None:
        if src_[1] is not None and e9.intervening(cfg, src_[1], st, e9.killers(fi, {src_[0]})):
            return None
        g_ = e9.validated(fi, src_[0], st, within=hexd)
    if g_ is None:
        return None
    lo, _ = e9.sign_info(fi, src_[0], st)
    if lo is None or lo < 1:
        return None  # int("", 16) raises
    return f"the {src_[0]} (>= {lo}) characters passed the hex-digit validation at line {g_.lineno}"


_ASCII_DIGITS = frozenset("0123456789")


def _digit_value(e9, fi: FunctionInfo, e: ast.expr, at: ast.AST, depth: int = 0) -> str | None:
    """why the one-character string ``e`` is an ASCII digit when ``at`` is evaluated (followed through helper parameters)"""
    if depth > 3:
        return None
    cfg = get_cfg(fi)
    st = cfg.stmt_of(at)
    tgt = e9.peek_target(e, fi, st)
    if tgt is not None:
        f = e9.facts_at(at, fi).get(tgt[0], TOP)
        if f.subset_of(_ASCII_DIGITS) and f.chars:
            return f"{unparse(e)} is the character at offset {tgt[0]}, known to be in {f!r}"
    if isinstance(e, ast.Name):
        assigns = [s for s in cfg.nodes if isinstance(s, ast.stmt) and e.id in _assigned(s)]
        for d in cfg.dom().get(st, ()):
            if isinstance(d, tuple) and d[0] in ("T", "F") and isinstance(d[1], (ast.If, ast.While)):
                for t, pol in split_facts(d[1].test, d[0] == "T"):
                    if pol and isinstance(t, ast.Compare) and len(t.ops) == 1 and isinstance(t.ops[0], (ast.In, ast.Eq)) and isinstance(t.left, ast.Name) and t.left.id == e.id:
                        try:
                            cs = as_charset(e9.m.eval_const(t.comparators[0]))
                        except Unsupported:
                            cs = None
                        if cs and cs <= _ASCII_DIGITS and not e9.intervening(cfg, d[1], st, assigns):
                            return f"{e.id} is tested against {''.join(sorted(cs))!r}"
        if e.id in fi.params and not assigns:
            sites = [(cfi, c) for cfi, c in e9.g.callers().get(fi.fq, []) if cfi.module is e9.m]
            if not sites:
                return None
            idx = fi.params.index(e.id)
            whys = []
            for cfi, c in sites:
                a = c.args[idx] if idx < len(c.args) and not any(isinstance(x, ast.Starred) for x in c.args) else next((k.value for k in c.keywords if k.arg == e.id), None)
                w = _digit_value(e9, cfi, a, c, depth + 1) if a is not None else None
                if w is None:
                    return None
                whys.append(f"{cfi.qualname}: {w}")
            return f"parameter {e.id} - every call site passes a digit ({'; '.join(sorted(set(whys)))})"
    return None


def _rejudge(e9, corpus: Corpus, fq: str, text: str) -> str | None:
    """the engine identifies a raising construct by its text: every call with that text must be discharged"""
    fi = corpus.func(fq.replace("myst_parser.", "", 1))
    calls = [c for c in fi.local_nodes() if isinstance(c, ast.Call) and short(c) == text]
    whys = [_rejudge_call(e9, fi, c) for c in calls]
    if not calls or any(w is None for w in whys):
        return None
    return "; ".join(sorted(set(whys)))


def _rejudge_raise(corpus: Corpus, fq: str, text: str) -> str | None:
    """the engine could not type `raise <expr>`: it is the documented class when <expr> is a method call whose receiver is
    a TokenizeError and whose return annotation is TokenizeError (`TokenizeError(...).clone(...)`)"""
    fi = corpus.func(fq.replace("myst_parser.", "", 1))
    g = get_callgraph(corpus)
    raises = [r for r in fi.local_nodes() if isinstance(r, ast.Raise) and r.exc is not None and short(r) == text]
    if not raises:
        return None
    for r in raises:
        e = r.exc
        if not (isinstance(e, ast.Call) and isinstance(e.func, ast.Attribute)):
            return None
        t = g.expr_type(e.func.value, fi)
        if not (t and t[0] == "is" and t[1].name == "TokenizeError"):
            return None
        meth = corpus.lookup_method(t[1], e.func.attr)
        if meth is None or meth.node.returns is None or unparse(meth.node.returns).strip("'\"") != "TokenizeError":
            return None
    return "the raised value is TokenizeError.<method>() annotated to return TokenizeError"


def _rejudge_assert(corpus: Corpus, fq: str, text: str) -> str | None:
    """an `assert <pending key> is not None` in the value-token branch of _to_tokens is discharged by the protocol invariant"""
    fi = corpus.func(fq.replace("myst_parser.", "", 1))
    if fi.name != "_to_tokens":
        return None
    cfg = get_cfg(fi)
    asserts = [a for a in fi.local_nodes() if isinstance(a, ast.Assert) and short(a) == text]
    kvs = [n.target.id for n in fi.local_nodes() if isinstance(n, ast.AnnAssign) and isinstance(n.target, ast.Name) and "KeyToken" in unparse(n.annotation)]
    if not asserts or len(kvs) != 1:
        return None
    for a in asserts:
        if unparse(a.test) not in (f"{kvs[0]} is not None", kvs[0]):
            return None
        if not any(pol and isinstance(t, ast.Call) and dotted(t.func) == "isinstance" and len(t.args) == 2 and unparse(t.args[1]) == "ValueToken" for t, pol in cfg.guards(a)):
            return None  # only established where a value token has just arrived
    ok, why = protocol_proof(corpus)
    return why if ok else None


def _rejudge_call(e9, fi: FunctionInfo, call: ast.Call) -> str | None:
    cfg = get_cfg(fi)
    name = dotted(call.func)
    if name == "int" and len(call.args) == 1 and not call.keywords:
        return _digit_value(e9, fi, call.args[0], call)
    if name == "int":
        return _hex_value_ok(e9, fi, call)
    if name == "chr" and len(call.args) == 1 and isinstance(call.args[0], ast.Name):
        st = cfg.stmt_of(call)
        code = call.args[0].id
        ds = e9.reaching(fi, code, st)
        if not (len(ds) == 1 and isinstance(ds[0], ast.Assign) and isinstance(ds[0].value, ast.Call) and dotted(ds[0].value.func) == "int"):
            return None
        why = _hex_value_ok(e9, fi, ds[0].value)
        if why is None:
            return None
        for t, pol in cfg.guards(st):
            if not pol and isinstance(t, ast.Compare) and len(t.ops) == 1 and isinstance(t.left, ast.Name) and t.left.id == code and isinstance(t.comparators[0], ast.Constant) and isinstance(t.comparators[0].value, int):
                c = t.comparators[0].value
                if (isinstance(t.ops[0], ast.Gt) and c <= 0x10FFFF) or (isinstance(t.ops[0], ast.GtE) and c <= 0x110000):
                    return f"0 <= {code} <= 0x10FFFF: {why}; range test dominates"
    return None


@rule("C07.R1")
def r1_closed_failure_mode(corpus: Corpus, rep: Report, tier: str):
    real = rep
    rep = _Held(real)
    escape_closure(
        corpus,
        rep,
        "C07.R1",
        [(None, f"{OPT}:options_to_items", ["myst_parser.parsers.options.TokenizeError"])],
        "Esc(options_to_items) is within {TokenizeError}; table look-ups are dominated by their membership test",
    )
    held, rep = rep.held, real
    if held:
        e9 = get_e9(corpus)
        for rule_id, key, site, what, path, fq, text in held:
            why = _rejudge_assert(corpus, fq, text) if text.startswith("assert ") else _rejudge_raise(corpus, fq, text) if text.startswith("raise ") else _rejudge(e9, corpus, fq, text)
            if why:
                rep.ok(rule_id, key, site, "discharged by C07's character facts: " + why)
            else:
                rep.violation(rule_id, key, site, what, path)
    # table look-ups: TABLE[key] must be dominated by `key in TABLE` (KeyError otherwise)
    m = optmod(corpus)
    tables = {n for n, v in m.const_nodes.items() if isinstance(v, ast.Dict)}
    n = 0
    for fi in m.functions.values():
        if fi.is_lambda:
            continue
        for sub in fi.local_nodes():
            if not (isinstance(sub, ast.Subscript) and isinstance(sub.ctx, ast.Load) and isinstance(sub.value, ast.Name) and sub.value.id in tables):
                continue
            n += 1
            cfg = get_cfg(fi)
            key = unparse(sub.slice)
            tab = sub.value.id
            k = f"{fi.fq}|{tab}[{key}] guarded by membership"
            ok = False
            keys = set(m.const(tab))
            for t, pol in cfg.guards(cfg.stmt_of(sub)):
                if pol and isinstance(t, ast.Compare) and len(t.ops) == 1 and isinstance(t.ops[0], (ast.In, ast.Eq)) and unparse(t.left) == key:
                    try:
                        v = m.eval_const(t.comparators[0])
                    except Unsupported:
                        continue
                    members = set(v) if isinstance(t.ops[0], ast.In) and isinstance(v, (str, dict, tuple, list, set, frozenset)) else {v}
                    if members <= keys:
                        ok = True
            if ok:
                rep.ok("C07.R1", k, m.site(sub), "dominated by the membership test on the same table")
            else:
                rep.violation("C07.R1", k, m.site(sub), f"{tab}[{key}] is not dominated by `{key} in {tab}`: an unlisted escape character raises KeyError out of options_to_items")
    if n < 2:
        rep.error("C07.R1", f"expected the two escape-table look-ups, found {n}")
    rep.expect_min("C07.R1", 12, "raise sites and catalogued calls reachable from options_to_items")


# ---------------------------------------------------------------------------
# character sets (E9a)


class CS:
    """A set of characters: finite, or the complement of a finite set."""

    __slots__ = ("chars", "neg")

    def __init__(self, chars=(), neg: bool = False):
        self.chars = frozenset(chars)
        self.neg = neg

    def has(self, c: str) -> bool:
        return (c in self.chars) != self.neg

    def meet(self, o: "CS") -> "CS":
        if not self.neg and not o.neg:
            return CS(self.chars & o.chars)
        if not self.neg:
            return CS(self.chars - o.chars)
        if not o.neg:
            return CS(o.chars - self.chars)
        return CS(self.chars | o.chars, True)

    def join(self, o: "CS") -> "CS":
        if self.neg and o.neg:
            return CS(self.chars & o.chars, True)
        if self.neg:
            return CS(self.chars - o.chars, True)
        if o.neg:
            return CS(o.chars - self.chars, True)
        return CS(self.chars | o.chars)

    def complement(self) -> "CS":
        return CS(self.chars, not self.neg)

    def is_top(self) -> bool:
        return self.neg and not self.chars

    def subset_of(self, finite) -> bool:
        return not self.neg and self.chars <= frozenset(finite)

    def __repr__(self) -> str:
        s = "".join(sorted(self.chars))
        return ("not " if self.neg else "") + repr(s)


TOP = CS((), True)


def as_charset(value) -> frozenset | None:
    """A constant value read as a set of single characters (str: its characters; tuple/list/set/dict: its members/keys)."""
    if isinstance(value, str):
        return frozenset(value)
    if isinstance(value, dict):
        value = list(value)
    if isinstance(value, (tuple, list, set, frozenset)):
        if all(isinstance(x, str) and len(x) == 1 for x in value):
            return frozenset(value)
    return None


def class_const(ci, name: str):
    for st in ci.node.body:
        if isinstance(st, ast.Assign) and len(st.targets) == 1 and isinstance(st.targets[0], ast.Name) and st.targets[0].id == name:
            return st.value
    raise AnchorMissing(f"class constant {ci.fq}.{name} not found")


# ---------------------------------------------------------------------------
# R4a tables


def _yaml_scanner(corpus: Corpus, rep: Report):
    sib = corpus.sibling("yaml/scanner.py")
    rep.saw_sibling(sib.rel)
    return sib, sib.cls("Scanner")


def yaml_newline_set(corpus: Corpus) -> frozenset:
    """The line-break characters of PyYAML = the characters its scan_line_break tests for."""
    sib = corpus.sibling("yaml/scanner.py")
    f = sib.func("Scanner.scan_line_break")
    out: set = set()
    for n in walk_local(f.node):
        if isinstance(n, ast.Compare) and len(n.ops) == 1 and isinstance(n.ops[0], ast.In) and isinstance(n.comparators[0], ast.Constant) and isinstance(n.comparators[0].value, str):
            out |= set(n.comparators[0].value)
    if len(out) < 3:
        raise Unsupported("yaml scan_line_break guards not understood")
    return frozenset(out)


@rule("C07.R4")
def r4_tables(corpus: Corpus, rep: Report, tier: str):
    rep.rule("C07.R4", "escape tables, character classes, line accounting and the scanner fingerprints agree with the installed PyYAML")
    m = optmod(corpus)
    sib, scanner = _yaml_scanner(corpus, rep)
    try:
        rep.note(f"oracle: PyYAML {corpus.sibling('yaml/__init__.py').const('__version__')} ({sib.path})")
    except (AnchorMissing, Unsupported):
        rep.note(f"oracle: PyYAML (version not readable) ({sib.path})")
    # escape tables, cell by cell
    for ours, theirs in (("_ESCAPE_REPLACEMENTS", "ESCAPE_REPLACEMENTS"), ("_ESCAPE_CODES", "ESCAPE_CODES")):
        a = m.const(ours)
        b = sib.eval_const(class_const(scanner, theirs))
        if not isinstance(a, dict) or not isinstance(b, dict):
            raise Unsupported(f"{ours} / {theirs} are not dict literals")
        site = m.site(m.const_nodes[ours])
        for key in sorted(set(a) | set(b)):
            k = f"{m.name}|{ours}[{key!r}]"
            if key in a and key in b and a[key] == b[key]:
                rep.ok("C07.R4", k, site)
            elif key not in a:
                rep.violation("C07.R4", k, site, f"escape \\{key} is {b[key]!r} in PyYAML's {theirs} but missing from {ours}: a double-quoted scalar using it raises TokenizeError where YAML returns a value")
            elif key not in b:
                rep.violation("C07.R4", k, site, f"escape \\{key} -> {a[key]!r} is in {ours} but not in PyYAML's {theirs}: accepted where YAML reports an unknown escape")
            else:
                rep.violation("C07.R4", k, site, f"escape \\{key} yields {a[key]!r} here and {b[key]!r} in PyYAML's {theirs}")
    # character classes: each constant equals the union its name states
    newline = yaml_newline_set(corpus)
    parts = {"END": frozenset(END), "SPACE": frozenset(" "), "TAB": frozenset("\t"), "NEWLINE": newline}
    n = 0
    for name, node in m.const_nodes.items():
        if not name.startswith("_CHARS_"):
            continue
        n += 1
        want: set = set()
        comps = name[len("_CHARS_"):].split("_")
        if any(p not in parts for p in comps):
            n -= 1
            rep.listed("C07.R4", f"{m.name}|{name}", m.site(node), "character class with a component the rule has no oracle for; its uses are judged through the guard fingerprints")
            continue
        for p in comps:
            want |= parts[p]
        got = m.const(name)
        k = f"{m.name}|{name}"
        if isinstance(got, str) and set(got) == want and len(got) == len(set(got)):
            rep.ok("C07.R4", k, m.site(node))
        else:
            extra = "".join(sorted(set(got) - want)) if isinstance(got, str) else "?"
            missing = "".join(sorted(want - set(got))) if isinstance(got, str) else "?"
            rep.violation("C07.R4", k, m.site(node), f"{name} = {got!r}: not the union its name states (PyYAML line breaks = {''.join(sorted(newline))!r}); extra {extra!r}, missing {missing!r}")
    if n < 6:
        rep.error("C07.R4", f"expected the six _CHARS_* constants, found {n}")
    # the sentinel appended by StreamBuffer is END, as in yaml.reader.Reader
    init = m.func("StreamBuffer.__init__")
    k = f"{init.fq}|buffer = text + END sentinel"
    ok = False
    for st in walk_local(init.node):
        if isinstance(st, ast.Assign) and isinstance(st.value, ast.BinOp) and isinstance(st.value.op, ast.Add) and isinstance(st.targets[0], ast.Attribute):
            try:
                if m.eval_const(st.value.right) == END and isinstance(st.value.left, ast.Name) and st.value.left.id in init.params:
                    ok = True
            except Unsupported:
                pass
    if ok:
        rep.ok("C07.R4", k, init.site())
    else:
        rep.violation("C07.R4", k, init.site(), "StreamBuffer no longer appends the NUL sentinel every scanner guard tests for: look-ahead runs off the buffer (IndexError)")
    r4_fingerprints(corpus, rep, tier)
    rep.expect_min("C07.R4", 60, "table cells, character classes and fingerprint entries")


# ---------------------------------------------------------------------------
# R5 positions


def _seq_element(v: ast.expr, idx: int, width: int | None):
    """expression of element ``idx`` of a literal tuple/list, or of a comprehension over a literal tuple/list"""
    if isinstance(v, ast.Call) and isinstance(v.func, ast.Name) and v.func.id in ("list", "tuple") and len(v.args) == 1 and not v.keywords:
        v = v.args[0]
    if isinstance(v, (ast.Tuple, ast.List)):
        return v.elts[idx] if idx < len(v.elts) and width in (None, len(v.elts)) else None
    if isinstance(v, (ast.GeneratorExp, ast.ListComp)) and len(v.generators) == 1 and not v.generators[0].ifs and isinstance(v.generators[0].target, ast.Name) and isinstance(v.generators[0].iter, (ast.Tuple, ast.List)):
        src_ = v.generators[0].iter.elts
        if idx < len(src_) and width in (None, len(src_)):
            elt = _Subst({v.generators[0].target.id: unparse(src_[idx])}).visit(ast.parse(unparse(v.elt), mode="eval").body)
            return ast.fix_missing_locations(elt)
    return None


def _position_kind(e: ast.expr | None, fi: FunctionInfo, corpus: Corpus, depth: int = 0) -> tuple[str, str]:
    """('pos'|'none'|'bad'|'unknown', detail) - is the expression a Position taken from the stream?"""
    g = get_callgraph(corpus)
    m = fi.module
    if e is None:
        return "none", "omitted"
    if depth > 6:
        return "unknown", "chain too deep"
    if isinstance(e, ast.Constant):
        return ("none", "None") if e.value is None else ("bad", f"constant {e.value!r}")
    if isinstance(e, ast.Call):
        if isinstance(e.func, ast.Attribute) and e.func.attr == "get_position":
            t = g.expr_type(e.func.value, fi)
            if t and t[0] == "is" and t[1].name == "StreamBuffer":
                return "pos", "stream.get_position()"
            return "unknown", f"get_position() on {unparse(e.func.value)}"
        d = m.resolve(dotted(e.func) or "")
        if d == "dataclasses.replace" and e.args:
            if any(k.arg == "index" for k in e.keywords):
                return "bad", "replace(..., index=...) moves the index"
            return _position_kind(e.args[0], fi, corpus, depth + 1)
        if d.endswith(".Position"):
            return "bad", "hand-built Position(...)"
        h = _replace_helper(e, fi, corpus)
        if h is not None:
            hf, rcall = h
            params = hf.params[1:] if hf.cls is not None else hf.params
            name = rcall.args[0].id
            idx = params.index(name) if name in params else -1
            arg = e.args[idx] if 0 <= idx < len(e.args) else next((kw.value for kw in e.keywords if kw.arg == name), None)
            if any(k.arg == "index" for k in rcall.keywords):
                return "bad", "replace(..., index=...) moves the index"
            return _position_kind(arg, fi, corpus, depth + 1)
        return "unknown", f"call {short(e, 40)}"
    if isinstance(e, ast.IfExp):
        a = _position_kind(e.body, fi, corpus, depth + 1)
        b = _position_kind(e.orelse, fi, corpus, depth + 1)
        for kind in ("bad", "unknown"):
            for x in (a, b):
                if x[0] == kind:
                    return x
        return ("pos", "conditional") if "pos" in (a[0], b[0]) else ("none", "None")
    if isinstance(e, ast.Attribute):
        t = g.expr_type(e.value, fi)
        if t and t[0] == "is":
            names = {c.name for c in corpus.mro(t[1])}
            if "Token" in names and e.attr in ("start", "end"):
                return "pos", f"{t[1].name}.{e.attr}"
            if t[1].name == "TokenizeError" and e.attr in ("problem_mark", "context_mark"):
                return "pos", f"self.{e.attr}"
            if t[1].name in ("StreamBuffer", "Position"):
                return "bad", f"{unparse(e)} is an int, not a Position"
            # a field of another class of the module: what do the stores into it hold?
            ci = t[1]
            kinds = []
            for st in ci.node.body:
                if isinstance(st, (ast.AnnAssign, ast.Assign)) and any(isinstance(x, ast.Name) and x.id == e.attr for x in ([st.target] if isinstance(st, ast.AnnAssign) else st.targets)) and st.value is not None:
                    kinds.append(_position_kind(st.value, fi, corpus, depth + 1))
            for mf in ci.methods.values():
                for st in mf.local_nodes():
                    if isinstance(st, (ast.Assign, ast.AnnAssign)) and st.value is not None and any(isinstance(x, ast.Attribute) and x.attr == e.attr and isinstance(x.value, ast.Name) and x.value.id == "self" for x in ([st.target] if isinstance(st, ast.AnnAssign) else st.targets)):
                        kinds.append(_position_kind(st.value, mf, corpus, depth + 1))
            foreign = [
                st for f2 in fi.module.functions.values() if not f2.is_lambda and f2.cls is not ci for st in f2.local_nodes()
                if isinstance(st, (ast.Assign, ast.AugAssign, ast.AnnAssign)) and any(isinstance(x, ast.Attribute) and x.attr == e.attr and isinstance(x.ctx, ast.Store) for x in ast.walk(st))
            ]
            if kinds and not foreign and all(k_[0] in ("pos", "none") for k_ in kinds):
                if all(k_[0] == "pos" for k_ in kinds):
                    return "pos", f"{ci.name}.{e.attr} (every store holds a stream position)"
                if not any(k_[0] == "pos" for k_ in kinds):
                    return "none", "None"
                # Position | None: a position where the expression was tested against None
                try:
                    cfg = get_cfg(fi)
                    for t_, pol in cfg.guards(cfg.stmt_of(e)):
                        if (unparse(t_) == f"{unparse(e)} is not None" and pol) or (unparse(t_) == f"{unparse(e)} is None" and not pol):
                            return "pos", f"{ci.name}.{e.attr} (a stream position or None; tested against None here)"
                except Unsupported:
                    pass
                return "none", f"{ci.name}.{e.attr} may be None here"
            for k_ in kinds:
                if k_[0] not in ("pos", "none"):
                    return k_
        return "unknown", f"attribute {unparse(e)}"
    if isinstance(e, ast.Name):
        if e.id in fi.params:
            # parameter: every call site in the module must pass a position
            idx = fi.params.index(e.id) - (1 if fi.cls is not None and fi.params[:1] == ["self"] else 0)  # bound method: no self at the call
            sites = g.callers().get(fi.fq, [])
            if not sites:
                return "unknown", f"parameter {e.id} of a function without call sites"
            for cfi, call in sites:
                arg = call.args[idx] if idx < len(call.args) else None
                for kw in call.keywords:
                    if kw.arg == e.id:
                        arg = kw.value
                r = _position_kind(arg, cfi, corpus, depth + 1)
                if r[0] != "pos":
                    return r[0], f"{cfi.qualname} passes {r[1]} for {e.id}"
            return "pos", f"parameter {e.id} (all call sites pass a stream position)"
        defs = [n for n in fi.local_nodes() if isinstance(n, (ast.Assign, ast.AnnAssign)) and any(isinstance(t, ast.Name) and t.id == e.id for t in (n.targets if isinstance(n, ast.Assign) else [n.target]))]
        if not defs:
            # element of a tuple unpacking: `a, b = (x, y)` or `a, b = (f(v) for v in (x, y))`
            for n in fi.local_nodes():
                if not (isinstance(n, ast.Assign) and len(n.targets) == 1 and isinstance(n.targets[0], (ast.Tuple, ast.List))):
                    continue
                idx = next((i for i, t in enumerate(n.targets[0].elts) if isinstance(t, ast.Name) and t.id == e.id), None)
                if idx is None:
                    continue
                el = _seq_element(n.value, idx, len(n.targets[0].elts))
                if el is not None:
                    return _position_kind(el, fi, corpus, depth + 1)
                return "unknown", f"name {e.id} comes out of an unpacking the rule does not understand"
            return "unknown", f"name {e.id} has no simple definition"
        for d_ in defs:
            r = _position_kind(d_.value, fi, corpus, depth + 1)
            if r[0] != "pos":
                return r
        return "pos", f"local {e.id}"
    if isinstance(e, ast.Subscript) and isinstance(e.value, ast.Name) and isinstance(e.slice, ast.Constant) and isinstance(e.slice.value, int) and e.slice.value >= 0:
        defs = [n for n in fi.local_nodes() if isinstance(n, ast.Assign) and len(n.targets) == 1 and isinstance(n.targets[0], ast.Name) and n.targets[0].id == e.value.id]
        if len(defs) == 1:
            el = _seq_element(defs[0].value, e.slice.value, None)
            if el is not None:
                return _position_kind(el, fi, corpus, depth + 1)
    return "bad" if isinstance(e, (ast.BinOp, ast.Tuple, ast.JoinedStr)) else "unknown", f"expression {short(e, 40)}"


class _Subst(ast.NodeTransformer):
    def __init__(self, mapping: dict):
        self.mapping = mapping

    def visit_Name(self, node):
        if node.id in self.mapping:
            return ast.parse(self.mapping[node.id], mode="eval").body
        return node


def _replace_helper(call: ast.Call, fi: FunctionInfo, corpus: Corpus):
    """(helper FunctionInfo, its replace(...) call) when ``call`` invokes a package function that just returns
    dataclasses.replace(<its parameter>, ...)"""
    for t in get_callgraph(corpus).resolve_call(call, fi):
        if isinstance(t, FunctionInfo) and not t.is_lambda:
            rets = [r for r in t.local_nodes() if isinstance(r, ast.Return)]
            if len(rets) == 1 and isinstance(rets[0].value, ast.Call) and t.module.resolve(dotted(rets[0].value.func) or "") == "dataclasses.replace" and rets[0].value.args:
                p0 = rets[0].value.args[0]
                if isinstance(p0, ast.Name) and p0.id in t.params:
                    return t, rets[0].value
    return None


def _literal_iteration(node: ast.AST, root: ast.AST):
    """(variable, [element texts]) of the innermost comprehension / for statement over a literal tuple or list
    that ``node`` sits in, None if there is none"""
    p = parent(node)
    child = node
    while p is not None and child is not root:
        gens = p.generators if isinstance(p, (ast.GeneratorExp, ast.ListComp, ast.SetComp)) else []
        if isinstance(p, ast.For) and any(child is b for b in p.body):
            gens = [p]
        for g_ in gens:
            if isinstance(g_.target, ast.Name) and isinstance(g_.iter, (ast.Tuple, ast.List)) and not getattr(g_, "ifs", None):
                return g_.target.id, [unparse(e) for e in g_.iter.elts]
        child, p = p, parent(p)
    return None


def _shift_sites(clone: FunctionInfo, corpus: Corpus) -> list:
    """[(text of the shifted mark, node for the site, {field: text of the new value}, alias | None)] for every
    dataclasses.replace(mark, ...) clone() performs - directly, through a helper, or element-wise in a comprehension /
    loop over a literal tuple of marks (alias = the iteration variable)"""
    m = clone.module
    out = []
    for c in clone.local_nodes():
        if not isinstance(c, ast.Call):
            continue
        if m.resolve(dotted(c.func) or "") == "dataclasses.replace" and c.args:
            kws = {kw.arg: kw.value for kw in c.keywords if kw.arg}
            it = _literal_iteration(c, clone.node) if isinstance(c.args[0], ast.Name) else None
            if it is not None and it[0] == c.args[0].id:
                for el in it[1]:
                    sub = {k_: unparse(_Subst({it[0]: el}).visit(ast.parse(unparse(v), mode="eval").body)) for k_, v in kws.items()}
                    out.append((el, c, sub, it[0]))
            else:
                out.append((unparse(c.args[0]), c, {k_: unparse(v) for k_, v in kws.items()}, None))
            continue
        h = _replace_helper(c, clone, corpus)
        if h is not None and not any(isinstance(a, ast.Starred) for a in c.args):
            hf, rcall = h
            params = hf.params[1:] if hf.cls is not None else hf.params
            mapping = {p: unparse(a) for p, a in zip(params, c.args)}
            mapping.update({kw.arg: unparse(kw.value) for kw in c.keywords if kw.arg})
            kws = {}
            for kw in rcall.keywords:
                if kw.arg:
                    v = _Subst(mapping).visit(ast.parse(unparse(kw.value), mode="eval").body)
                    kws[kw.arg] = unparse(v)
            out.append((mapping.get(rcall.args[0].id, "?"), c, kws, None))
    return out


@rule("C07.R5")
def r5_positions(corpus: Corpus, rep: Report, tier: str):
    rep.rule("C07.R5", "every TokenizeError carries Position values taken from the stream; clone() shifts both marks by the same offsets; offsets reach clone() un-crossed")
    m = optmod(corpus)
    terr = m.cls("TokenizeError")
    init = m.func("TokenizeError.__init__")
    params = init.params[1:]
    if "problem_mark" not in params or "context_mark" not in params:
        raise Unsupported("TokenizeError.__init__ signature not understood")
    ip, ic = params.index("problem_mark"), params.index("context_mark")
    nsites = 0
    for fi in m.functions.values():
        if fi.is_lambda:
            continue
        seen: Counter = Counter()
        for call in sorted((c for c in fi.local_nodes() if isinstance(c, ast.Call) and dotted(c.func) == "TokenizeError"), key=lambda c: (c.lineno, c.col_offset)):
            nsites += 1
            msg = short(call.args[0], 50) if call.args else "?"
            seen[msg] += 1
            tag = f"{fi.fq}|TokenizeError({msg})" + (f"#{seen[msg]}" if seen[msg] > 1 else "")

            def arg(i, name):
                a = call.args[i] if i < len(call.args) and not any(isinstance(x, ast.Starred) for x in call.args) else None
                for kw in call.keywords:
                    if kw.arg == name:
                        a = kw.value
                return a

            for role, idx, may_none in (("problem_mark", ip, False), ("context_mark", ic, True)):
                kind, detail = _position_kind(arg(idx, role), fi, corpus)
                k = f"{tag}|{role}"
                if kind == "pos" or (kind == "none" and may_none):
                    rep.ok("C07.R5", k, m.site(call), detail)
                elif kind == "unknown":
                    rep.error("C07.R5", f"{m.site(call)} {role} of {tag}: {detail} - not an idiom the rule understands")
                else:
                    rep.violation(
                        "C07.R5",
                        k,
                        m.site(call),
                        f"{role} is {detail}, not a Position obtained from the stream: clone() (non-zero offsets) and __str__ read .line/.column of it, so a different exception than TokenizeError leaves options_to_items",
                    )
    if nsites < 8:
        rep.error("C07.R5", f"expected at least 8 TokenizeError constructions, found {nsites}")
    # StreamBuffer.get_position(): each Position field is fed from the cursor field of the same name
    gp = m.func("StreamBuffer.get_position")
    pos_fields = [st.target.id for st in m.cls("Position").node.body if isinstance(st, ast.AnnAssign) and isinstance(st.target, ast.Name)]
    ctor = [c for c in gp.local_nodes() if isinstance(c, ast.Call) and dotted(c.func) == "Position"]
    if len(ctor) != 1 or any(isinstance(a, ast.Starred) for a in ctor[0].args):
        rep.error("C07.R5", f"{gp.site()} get_position(): Position(...) construction not understood")
    else:
        bound = dict(zip(pos_fields, ctor[0].args))
        bound.update({kw.arg: kw.value for kw in ctor[0].keywords if kw.arg})
        for fld in pos_fields:
            k = f"{gp.fq}|Position.{fld} <- cursor {fld}"
            a = bound.get(fld)
            src_ = unparse(a) if a is not None else "<missing>"
            if src_ in (f"self._{fld}", f"self.{fld}"):
                rep.ok("C07.R5", k, m.site(ctor[0]))
            elif a is not None and not (isinstance(a, ast.Attribute) and isinstance(a.value, ast.Name) and a.value.id == "self"):
                rep.error("C07.R5", f"{m.site(ctor[0])} get_position(): {fld}={src_} not understood")
            else:
                rep.violation("C07.R5", k, m.site(ctor[0]), f"Position.{fld} is fed from {src_}: every error position (and token mark) reports {fld} from another counter")
    # clone(): both marks shifted by (line_offset -> line, column_offset -> column); context_mark guarded against None
    clone = m.func("TokenizeError.clone")
    cp = clone.params[1:]
    if len(cp) != 2:
        raise Unsupported("TokenizeError.clone signature not understood")
    line_p, col_p = cp
    sites = _shift_sites(clone, corpus)
    marks = {}
    for mark_text, node, kws, alias in sites:
        marks.setdefault(mark_text, (node, kws, alias))
    ret_args = [unparse(a) for r in clone.local_nodes() if isinstance(r, ast.Return) and isinstance(r.value, ast.Call) for a in r.value.args]
    for mark in ("self.problem_mark", "self.context_mark"):
        k = f"{clone.fq}|{mark} shifted by ({line_p}, {col_p})"
        if mark not in marks:
            if mark in ret_args:
                rep.violation("C07.R5", k, clone.site(), f"clone() passes {mark} on unshifted: the cloned error reports block-relative coordinates")
            else:
                rep.error("C07.R5", f"{clone.site()} clone(): no dataclasses.replace({mark}, line=..., column=...) found, directly or in a helper it calls - shape not understood")
            continue
        c, kws, _alias = marks[mark]
        bad = []
        for fld, p in (("line", line_p), ("column", col_p)):
            v = kws.get(fld)
            want = {f"{mark}.{fld} + {p}", f"{p} + {mark}.{fld}"}
            if v is None or v not in want:
                bad.append(f"{fld}={v if v is not None else '<unchanged>'} (expected {mark}.{fld} + {p})")
        if set(kws) - {"line", "column"}:
            bad.append("also replaces " + ", ".join(sorted(set(kws) - {"line", "column"})))
        if bad:
            rep.violation("C07.R5", k, m.site(c), "clone() shifts the mark wrongly: " + "; ".join(bad))
        else:
            rep.ok("C07.R5", k, m.site(c))
    c = marks["self.context_mark"][0] if "self.context_mark" in marks else None
    if c is not None:
        k = f"{clone.fq}|context_mark None-guard"
        p = parent(c)
        guarded = False
        names_ = ["self.context_mark"] + ([marks["self.context_mark"][2]] if marks["self.context_mark"][2] else [])
        while p is not None and p is not clone.node:
            if isinstance(p, (ast.IfExp, ast.If)):
                t = unparse(p.test)
                in_else = c in ast.walk(p.orelse) if isinstance(p, ast.IfExp) else any(c in ast.walk(s) for s in p.orelse)
                in_body = c in ast.walk(p.body) if isinstance(p, ast.IfExp) else any(c in ast.walk(s) for s in p.body)
                for nm in names_:
                    if t == f"{nm} is None" and in_else:
                        guarded = True
                    if t in (f"{nm} is not None", nm) and in_body:
                        guarded = True
            p = parent(p)
        if guarded:
            rep.ok("C07.R5", k, m.site(c))
        else:
            rep.violation("C07.R5", k, m.site(c), "clone() applies replace() to context_mark without the None test: errors raised without a context mark (e.g. \"expected ':' after key\") turn into TypeError/AttributeError when offsets are non-zero")
    # the clone'd error is what is returned
    rets = [r for r in clone.local_nodes() if isinstance(r, ast.Return)]
    k = f"{clone.fq}|returns TokenizeError"
    if len(rets) == 1 and isinstance(rets[0].value, ast.Call) and dotted(rets[0].value.func) == "TokenizeError":
        rep.ok("C07.R5", k, clone.site())
    else:
        rep.error("C07.R5", "clone() no longer returns one TokenizeError(...) construction")
    # offsets reach clone() un-crossed: options_to_items -> _to_tokens -> exc.clone
    tt = m.func("_to_tokens")
    oti = m.func("options_to_items")
    g = get_callgraph(corpus)
    for caller, callee, pred in (
        (oti, tt, lambda c: dotted(c.func) == "_to_tokens"),
        (tt, clone, lambda c: isinstance(c.func, ast.Attribute) and c.func.attr == "clone"),
    ):
        calls = [c for c in caller.local_nodes() if isinstance(c, ast.Call) and pred(c)]
        if not calls:
            raise AnchorMissing(f"{caller.fq} no longer calls {callee.name}")
        for call in calls:
            cparams = callee.params[1:] if callee.cls is not None else callee.params
            for role in (line_p, col_p):
                if role not in cparams or role not in caller.params:
                    raise Unsupported(f"offset parameter {role} not found on {caller.qualname}/{callee.qualname}")
                i = cparams.index(role)
                a = call.args[i] if i < len(call.args) else None
                for kw in call.keywords:
                    if kw.arg == role:
                        a = kw.value
                k = f"{caller.fq}|{callee.name}({role}=...)"
                if a is not None and unparse(a) == role:
                    rep.ok("C07.R5", k, m.site(call))
                elif a is None:
                    rep.violation("C07.R5", k, m.site(call), f"{callee.name}() is called without {role}: error positions are not shifted by the caller's offset")
                else:
                    rep.violation("C07.R5", k, m.site(call), f"{callee.name}() receives {unparse(a)} as {role}: line and column offsets are crossed or altered")
    # any other place that clones an error itself (e.g. an error raised outside the generator) hands the offsets over the same way
    for f2 in m.functions.values():
        if f2.is_lambda or f2 is tt or f2 is clone:
            continue
        for call in f2.local_nodes():
            if not (isinstance(call, ast.Call) and isinstance(call.func, ast.Attribute) and call.func.attr == "clone"):
                continue
            t2 = g.expr_type(call.func.value, f2)
            if not (t2 and t2[0] == "is" and t2[1].name == "TokenizeError"):
                continue
            for i, role in enumerate((line_p, col_p)):
                a = call.args[i] if i < len(call.args) else next((kw.value for kw in call.keywords if kw.arg == role), None)
                k = f"{f2.fq}|clone({role}=...)"
                if a is not None and unparse(a) == role and role in f2.params:
                    rep.ok("C07.R5", k, m.site(call))
                elif a is not None and isinstance(a, ast.Name) and a.id in (line_p, col_p):
                    rep.violation("C07.R5", k, m.site(call), f"clone() receives {unparse(a)} as {role}: line and column offsets are crossed")
                elif a is None:
                    rep.violation("C07.R5", k, m.site(call), f"clone() is called without {role}")
                else:
                    rep.listed("C07.R5", k, m.site(call), f"clone({role}={short(a, 30)}): an offset computed here, not judged")
    # the handler in _to_tokens clones whenever either offset is non-zero
    hs = [h for h in tt.local_nodes() if isinstance(h, ast.ExceptHandler) and h.type is not None and unparse(h.type) == "TokenizeError"]
    k = f"{tt.fq}|clone applied when either offset is non-zero"
    if not hs:
        rep.violation("C07.R5", k, tt.site(), "_to_tokens no longer intercepts TokenizeError to apply the offsets")
    else:
        h = hs[0]
        raises_clone = [r for r in ast.walk(h) if isinstance(r, ast.Raise) and r.exc is not None and "clone" in unparse(r.exc)]
        ok = False
        why = "no `raise exc.clone(...)` in the handler"
        for r in raises_clone:
            p = parent(r)
            if p is h:
                ok = True
            elif isinstance(p, ast.If) and r in p.body:
                t = p.test
                mentioned = {n.id for n in ast.walk(t) if isinstance(n, ast.Name)}
                conj = any(isinstance(b, ast.BoolOp) and isinstance(b.op, ast.And) for b in ast.walk(t)) or any(isinstance(u, ast.UnaryOp) and isinstance(u.op, ast.Not) for u in ast.walk(t))
                if {line_p, col_p} <= mentioned and isinstance(t, ast.BoolOp) and isinstance(t.op, ast.Or) and not conj:
                    ok = True
                else:
                    why = f"clone is applied only under `{unparse(t)}`"
        # the fall-through must re-raise
        if ok and not any(isinstance(s, ast.Raise) for s in h.body):
            ok, why = False, "the handler swallows the error when the offsets are zero"
        if ok:
            rep.ok("C07.R5", k, m.site(h))
        else:
            rep.violation("C07.R5", k, m.site(h), f"{why}: with one non-zero offset the error keeps block-relative coordinates")
    rep.expect_min("C07.R5", 20, "TokenizeError mark arguments, clone shifts and offset hand-over")


# ---------------------------------------------------------------------------
# R4b fingerprints against yaml/scanner.py, yaml/reader.py

PAIRS = [
    ("_scan_to_next_token", "yaml/scanner.py", "Scanner.scan_to_next_token"),
    ("_scan_plain_scalar", "yaml/scanner.py", "Scanner.scan_plain"),
    ("_scan_plain_spaces", "yaml/scanner.py", "Scanner.scan_plain_spaces"),
    ("_scan_line_break", "yaml/scanner.py", "Scanner.scan_line_break"),
    ("_scan_flow_scalar", "yaml/scanner.py", "Scanner.scan_flow_scalar"),
    ("_scan_flow_scalar_non_spaces", "yaml/scanner.py", "Scanner.scan_flow_scalar_non_spaces"),
    ("_scan_flow_scalar_spaces", "yaml/scanner.py", "Scanner.scan_flow_scalar_spaces"),
    ("_scan_flow_scalar_breaks", "yaml/scanner.py", "Scanner.scan_flow_scalar_breaks"),
    ("_scan_block_scalar", "yaml/scanner.py", "Scanner.scan_block_scalar"),
    ("_scan_block_scalar_indicators", "yaml/scanner.py", "Scanner.scan_block_scalar_indicators"),
    ("_scan_block_scalar_ignored_line", "yaml/scanner.py", "Scanner.scan_block_scalar_ignored_line"),
    ("_scan_block_scalar_indentation", "yaml/scanner.py", "Scanner.scan_block_scalar_indentation"),
    ("_scan_block_scalar_breaks", "yaml/scanner.py", "Scanner.scan_block_scalar_breaks"),
    ("StreamBuffer.forward", "yaml/reader.py", "Reader.forward"),
    ("StreamBuffer.peek", "yaml/reader.py", "Reader.peek"),
    ("StreamBuffer.prefix", "yaml/reader.py", "Reader.prefix"),
]
CANON = {o: y.split(".", 1)[1] for o, _, y in PAIRS if not o.startswith("StreamBuffer.")}
CANON_Y = set(CANON.values())
ATTR_CANON = {"_index": "index", "pointer": "index", "_buffer": "buffer", "_line": "line", "_column": "column"}
OPS = {ast.Eq: "==", ast.NotEq: "!=", ast.In: "in", ast.NotIn: "notin", ast.Lt: "<", ast.LtE: "<=", ast.Gt: ">", ast.GtE: ">=", ast.Is: "is", ast.IsNot: "isnot"}
NEG = {"==": "!=", "!=": "==", "in": "notin", "notin": "in"}


class NotConst(Exception):
    pass


def _run_methods(m: Module) -> dict:
    """{method name: 'in' | 'notin'} for the methods of the port's stream class that only measure the run of characters
    at the cursor that are (not) in their argument: `k = 0; while self._buffer[self._index + k] [not] in chars: k += 1; return k`"""
    cached = m.__dict__.get("_c07_run_methods")
    if cached is not None:
        return cached
    out: dict = {}
    ci = m.classes.get("StreamBuffer")
    for name, f in (ci.methods.items() if ci is not None else ()):
        body = [st for st in f.node.body if not (isinstance(st, ast.Expr) and isinstance(st.value, ast.Constant))]
        params = f.params[1:]
        if len(body) != 3 or len(params) != 1:
            continue
        a0, w, r = body
        if not (isinstance(a0, ast.Assign) and len(a0.targets) == 1 and isinstance(a0.targets[0], ast.Name) and isinstance(a0.value, ast.Constant) and a0.value.value == 0):
            continue
        k = a0.targets[0].id
        if not (isinstance(r, ast.Return) and isinstance(r.value, ast.Name) and r.value.id == k):
            continue
        if not (isinstance(w, ast.While) and not w.orelse and len(w.body) == 1 and isinstance(w.body[0], ast.AugAssign) and unparse(w.body[0]) == f"{k} += 1"):
            continue
        t = w.test
        if not (isinstance(t, ast.Compare) and len(t.ops) == 1 and isinstance(t.ops[0], (ast.In, ast.NotIn)) and isinstance(t.comparators[0], ast.Name) and t.comparators[0].id == params[0]):
            continue
        if unparse(t.left) not in (f"self._buffer[self._index + {k}]", f"self._buffer[{k} + self._index]", f"self.peek({k})"):
            continue
        out[name] = "in" if isinstance(t.ops[0], ast.In) else "notin"
    m.__dict__["_c07_run_methods"] = out
    return out


class Side:
    """Normalises expressions of one function so that the port and its original read alike."""

    def __init__(self, fi, yaml_side, scanner_cls=None):
        self.fi = fi
        self.m = fi.module
        self.yaml = yaml_side
        self.scanner = scanner_cls
        a = fi.node.args.args
        self.recv = a[0].arg if a else None
        self.params = set(fi.params)
        self.defs = {}
        self.aug = set()
        self.fortargets = set()
        for n in fi.local_nodes():
            if isinstance(n, ast.Assign):
                for t in n.targets:
                    self._bind(t, n.value)
            elif isinstance(n, ast.AnnAssign) and n.value is not None:
                self._bind(n.target, n.value)
            elif isinstance(n, ast.AugAssign) and isinstance(n.target, ast.Name):
                self.aug.add(n.target.id)
            elif isinstance(n, ast.For) and isinstance(n.target, ast.Name):
                self.fortargets.add(n.target.id)
        self._busy = set()
        self.depth = 0
        self._validation = None
        self._runs = None
        self._lengths = None
        self._exit_flags = None

    def _bind(self, t, v):
        if isinstance(t, ast.Name):
            self.defs.setdefault(t.id, []).append((v, None))
        elif isinstance(t, ast.Tuple):
            for i, e in enumerate(t.elts):
                if isinstance(e, ast.Name):
                    self.defs.setdefault(e.id, []).append((v, i))

    # constants --------------------------------------------------------
    def const(self, e):
        if isinstance(e, ast.Constant):
            return e.value
        if isinstance(e, ast.Name):
            if e.id in self.defs or e.id in self.params or e.id in self.aug or e.id in self.fortargets:
                raise NotConst(e.id)
            if e.id in self.m.const_nodes:
                return self.const_in(self.m.const_nodes[e.id])
            raise NotConst(e.id)
        if isinstance(e, ast.Attribute) and isinstance(e.value, ast.Name) and e.value.id == "self" and self.scanner is not None and e.attr.isupper():
            return self.const_in(class_const(self.scanner, e.attr))
        if isinstance(e, ast.BinOp) and isinstance(e.op, ast.Add):
            return self.const(e.left) + self.const(e.right)
        if isinstance(e, ast.Tuple):
            return tuple(self.const(x) for x in e.elts)
        if isinstance(e, ast.IfExp) and self.yaml and unparse(e.test) == "self.flow_level":
            return self.const(e.orelse)  # options are block context: flow_level == 0
        raise NotConst(type(e).__name__)

    def const_in(self, node):
        try:
            return self.m.eval_const(node)
        except Unsupported as ex:
            raise NotConst(str(ex))

    # expressions --------------------------------------------------------
    def is_recv(self, e):
        return isinstance(e, ast.Name) and e.id == self.recv

    def norm(self, e) -> str:
        if e is None:
            return "-"
        try:
            v = self.const(e)
            return repr(v) if not isinstance(v, dict) else "table"
        except NotConst:
            pass
        if isinstance(e, ast.Call):
            f = e.func
            if isinstance(f, ast.Attribute) and self.is_recv(f.value):
                a = f.attr
                if a in ("peek", "prefix", "forward"):
                    if a == "forward" and id(e) in self.runs()[2]:
                        return "forward(n)"  # the step of a `while peek() in S: forward()` run
                    dflt = "0" if a == "peek" else "1"
                    oa = e.args[0] if e.args else next((k.value for k in e.keywords if k.arg in ("index", "length")), None)
                    return f"{a}({self.offnorm(oa) if oa is not None else dflt})"
                if a in _run_methods(self.m):
                    return "n"  # length of a run of characters at the cursor
                if a in ("get_position", "get_mark"):
                    return "mark()"
                if a in CANON_Y:
                    return f"{a}()"
                return f"recv.{a}()"
            if isinstance(f, ast.Name):
                if f.id in CANON:
                    return f"{CANON[f.id]}()"
                if f.id == "cast" and len(e.args) == 2:
                    return self.norm(e.args[1])
                if f.id in ("int", "chr", "max", "min", "len", "range"):
                    return f"{f.id}({','.join(self.norm(a) for a in e.args)})"
                return f"{f.id}(..)"
            if isinstance(f, ast.Attribute) and f.attr == "join":
                return f"join({','.join(self.norm(a) for a in e.args)})"
            return "call"
        if isinstance(e, ast.Subscript):
            if isinstance(e.value, ast.Attribute) and self.is_recv(e.value.value) and ATTR_CANON.get(e.value.attr, e.value.attr) == "buffer":
                # inside the stream class a raw buffer access is the same read as peek()/prefix()
                if isinstance(e.slice, ast.Slice):
                    lo_, up_ = self.norm(e.slice.lower), self.norm(e.slice.upper)
                    if lo_ == ".index" and up_.startswith(".index+"):
                        rest = up_[len(".index+"):]
                        return f"prefix({rest if re.fullmatch(r'[0-9]+|i|n', rest) else 'n'})"
                    return f"buffer[{lo_}:{up_}]"
                ix = self.norm(e.slice)
                if ix == ".index":
                    return "peek(0)"
                if ix.startswith(".index+"):
                    rest = ix[len(".index+"):]
                    return f"peek({rest if re.fullmatch(r'[0-9]+|i|n', rest) else 'n'})"
                return f"buffer[{ix}]"
            try:
                tab = self.const(e.value)
                if isinstance(tab, dict):
                    name = (e.value.id if isinstance(e.value, ast.Name) else e.value.attr).lstrip("_")
                    return f"{name}[{self.norm(e.slice)}]"
            except NotConst:
                pass
            return f"{self.norm(e.value)}[]"
        if isinstance(e, ast.Attribute):
            if self.is_recv(e.value):
                return "." + ATTR_CANON.get(e.attr, e.attr)
            return f"{self.norm(e.value)}.{e.attr}"
        if isinstance(e, ast.Name):
            n = e.id
            if n in self.aug:
                return "n"
            if n in self.fortargets:
                return "i"
            if n in self.params:
                return "param"
            if n in self.defs:
                if n in self._busy:
                    return "rec"
                self._busy.add(n)
                try:
                    vals = set()
                    for v, idx in self.defs[n]:
                        s = self.norm(v)
                        vals.add(s if idx is None else f"{s}[{idx}]")
                finally:
                    self._busy.discard(n)
                return "|".join(sorted(vals)) if len(vals) > 1 else next(iter(vals))
            return n
        if isinstance(e, ast.BinOp) and isinstance(e.op, (ast.Add, ast.Sub)):
            return f"{self.norm(e.left)}{'+' if isinstance(e.op, ast.Add) else '-'}{self.norm(e.right)}"
        if isinstance(e, ast.Compare) and len(e.ops) == 1:
            g = self.guard(e)
            return f"<{g[0]} {g[1]} {g[2]}>"
        if isinstance(e, (ast.List, ast.Tuple)):
            return "[" + ",".join(self.norm(x) for x in e.elts) + "]"
        return type(e).__name__

    def loop_tag(self, node) -> str:
        """'@L..' per enclosing loop: a test on the cursor made once per iteration is not the same test made once"""
        d = 0
        p = parent(node)
        while p is not None and p is not self.fi.node:
            if isinstance(p, (ast.While, ast.For)):
                d += 1
            p = parent(p)
        return "@" + "L" * d if d else ""

    def tagged(self, g: tuple, node) -> tuple:
        """stream reads carry their loop depth; tests on plain values do not (they may be hoisted freely)"""
        if g[0].startswith(("peek(", "prefix(", "buffer[", ".", "run", "all:")) or (g[0].endswith("()") and g[0][:-2] in CANON_Y):
            return (g[0] + self.loop_tag(node),) + tuple(g[1:])
        return g

    def exit_flags(self) -> set:
        """locals that only carry a loop's exit decision: assigned constants True/False only, read only as a while test"""
        if self._exit_flags is None:
            out = set()
            tests = {}
            for n in self.fi.local_nodes():
                if isinstance(n, ast.While):
                    t = n.test
                    while isinstance(t, ast.UnaryOp) and isinstance(t.op, ast.Not):
                        t = t.operand
                    if isinstance(t, ast.Name):
                        tests[t.id] = tests.get(t.id, 0) + 1
            for nm in tests:
                defs = self.defs.get(nm, [])
                loads = sum(1 for x in self.fi.local_nodes() if isinstance(x, ast.Name) and x.id == nm and isinstance(x.ctx, ast.Load))
                if defs and all(idx is None and isinstance(v, ast.Constant) and isinstance(v.value, bool) for v, idx in defs) and loads == tests[nm] and nm not in self.params:
                    out.add(nm)
            self._exit_flags = out
        return self._exit_flags

    def length_names(self) -> set:
        """locals used as the length of a forward()/prefix(): testing them only guards a no-op"""
        if self._lengths is None:
            self._lengths = set()
            for n in self.fi.local_nodes():
                if isinstance(n, ast.Call) and isinstance(n.func, ast.Attribute) and self.is_recv(n.func.value) and n.func.attr in ("forward", "prefix"):
                    oa = n.args[0] if n.args else next((k.value for k in n.keywords if k.arg == "length"), None)
                    if isinstance(oa, ast.Name):
                        self._lengths.add(oa.id)
        return self._lengths

    def offnorm(self, e) -> str:
        """an offset/length: a constant, the loop index of a validation loop, or 'some computed count' (n, n+1)"""
        s_ = self.norm(e)
        if re.fullmatch(r"-?\d+|i|n|n\+1", s_):
            return s_
        if isinstance(e, ast.BinOp) and isinstance(e.op, ast.Add) and isinstance(e.right, ast.Constant) and e.right.value == 1:
            return "n+1"
        return "n"

    def runs(self):
        """'skip / measure the run of characters (not) in S at the cursor' in its three spellings reads as one guard:
        `while peek() in S: forward()`, `k = 0; while peek(k) in S: k += 1`, and a StreamBuffer run-counting method.
        -> ([guard], consumed compare nodes, ids of the forward() steps, ids of absorbed peek reads)"""
        if self._runs is not None:
            return self._runs
        guards, consumed, steps, reads = [], set(), set(), set()
        self._runs = (guards, consumed, steps, reads)
        methods = _run_methods(self.m) if not self.yaml else {}

        def run_guard(t, offset_kind):
            flip = False
            while isinstance(t, ast.UnaryOp) and isinstance(t.op, ast.Not):
                t, flip = t.operand, not flip
            if not (isinstance(t, ast.Compare) and len(t.ops) == 1 and isinstance(t.ops[0], (ast.Eq, ast.NotEq, ast.In, ast.NotIn))):
                return None
            left = t.left
            if not (isinstance(left, ast.Call) and isinstance(left.func, ast.Attribute) and self.is_recv(left.func.value) and left.func.attr == "peek"):
                return None
            oa = left.args[0] if left.args else next((k.value for k in left.keywords if k.arg == "index"), None)
            if offset_kind == "cursor" and not (oa is None or (isinstance(oa, ast.Constant) and oa.value == 0)):
                return None
            if offset_kind != "cursor" and not (isinstance(oa, ast.Name) and oa.id == offset_kind):
                return None
            try:
                v = self.const(t.comparators[0])
            except NotConst:
                return None
            if isinstance(t.ops[0], (ast.Eq, ast.NotEq)) and not (isinstance(v, str) and len(v) == 1):
                return None
            cs = as_charset(v)
            if cs is None:
                return None
            pos = isinstance(t.ops[0], (ast.Eq, ast.In)) != flip
            return ("run", "in" if pos else "notin", "".join(sorted(cs))), t, left

        for n in self.fi.local_nodes():
            if isinstance(n, ast.While) and not n.orelse and len(n.body) == 1:
                b = n.body[0]
                if isinstance(b, ast.Expr) and isinstance(b.value, ast.Call) and isinstance(b.value.func, ast.Attribute) and self.is_recv(b.value.func.value) and b.value.func.attr == "forward":
                    oa = b.value.args[0] if b.value.args else next((k.value for k in b.value.keywords if k.arg == "length"), None)
                    if oa is None or (isinstance(oa, ast.Constant) and oa.value == 1):
                        r = run_guard(n.test, "cursor")
                        if r is not None:
                            guards.append(self.tagged(r[0], n)); consumed.add(r[1]); steps.add(id(b.value)); reads.add(id(r[2]))
                elif isinstance(b, ast.AugAssign) and isinstance(b.target, ast.Name) and isinstance(b.op, ast.Add) and isinstance(b.value, ast.Constant) and b.value.value == 1:
                    r = run_guard(n.test, b.target.id)
                    if r is not None:
                        guards.append(self.tagged(r[0], n)); consumed.add(r[1]); reads.add(id(r[2]))
            elif isinstance(n, ast.Call) and isinstance(n.func, ast.Attribute) and self.is_recv(n.func.value) and n.func.attr in methods and len(n.args) == 1:
                try:
                    cs = as_charset(self.const(n.args[0]))
                except NotConst:
                    cs = None
                if cs is not None:
                    guards.append(self.tagged(("run", methods[n.func.attr], "".join(sorted(cs))), n))
        return self._runs

    # guards -----------------------------------------------------------------
    def lo(self, e) -> str:
        """Stream reads keep their identity; everything else (locals, parameters, arithmetic) is just a value."""
        s = self.norm(e)
        if s.startswith(("peek(", "prefix(", "buffer[")) or (s.startswith(".") and "+" not in s and "|" not in s) or (s.endswith("()") and s[:-2] in CANON_Y):
            return s
        return "v"

    def guard(self, c: ast.Compare):
        return self.tagged(self._guard(c), c)

    def _guard(self, c: ast.Compare):
        op = OPS.get(type(c.ops[0]), "?")
        lhs = self.lo(c.left)
        try:
            v = self.const(c.comparators[0])
        except NotConst:
            return (lhs, op, self.lo(c.comparators[0]))
        if op in ("in", "notin"):
            cs = as_charset(v)
            if cs is not None:
                return (lhs, op, "".join(sorted(cs)))
            return (lhs, op, repr(v))
        if op in ("==", "!=") and isinstance(v, str) and len(v) == 1:
            return (lhs, "in" if op == "==" else "notin", v)
        return (lhs, op, repr(v))

    def dead(self, node) -> bool:
        """yaml side: inside `self.flow_level and ...` (flow context never occurs in an option block)."""
        if not self.yaml:
            return False
        n = node
        while n is not None and n is not self.fi.node:
            p = parent(n)
            if isinstance(p, ast.BoolOp) and isinstance(p.op, ast.And) and any(unparse(v) == "self.flow_level" for v in p.values):
                return True
            if isinstance(p, ast.IfExp) and unparse(p.test) == "self.flow_level" and n is p.body:
                return True
            n = p
        return False

    def effects(self, nodes) -> list[str]:
        """stream effects + emissions among ``nodes`` (an iterable of AST nodes)."""
        out = []
        for n in nodes:
            if isinstance(n, ast.Subscript) and isinstance(n.ctx, ast.Load) and not self.dead(n):
                s_ = self.norm(n)
                if s_.startswith(("peek(", "prefix(")):
                    out.append("read:" + s_)  # a raw buffer access inside the stream class
                continue
            if not isinstance(n, ast.Call) or self.dead(n):
                continue
            f = n.func
            if isinstance(f, ast.Attribute) and self.is_recv(f.value):
                if f.attr == "forward" or f.attr in CANON_Y:
                    out.append("do:" + self.norm(n))
                elif f.attr in ("peek", "prefix") and id(n) not in self.validation()[2] and id(n) not in self.runs()[3]:
                    out.append("read:" + self.norm(n))
            elif isinstance(f, ast.Name) and f.id in CANON:
                out.append("do:" + self.norm(n))
            elif self.helper(n) is not None:
                h = self.helper(n)
                out += h.effects(h.fi.local_nodes())  # an extracted helper counts as if written in place
            elif isinstance(f, ast.Attribute) and f.attr in ("append", "extend") and isinstance(f.value, ast.Name) and n.args:
                a0 = n.args[0]
                if (isinstance(a0, ast.Constant) and a0.value == "") or (isinstance(a0, (ast.List, ast.Tuple)) and not a0.elts):
                    continue  # emitting nothing
                if f.attr == "extend" and isinstance(a0, (ast.List, ast.Tuple)) and not any(isinstance(x, ast.Starred) for x in a0.elts):
                    out += [f"emit:append({self.norm(x)})" for x in a0.elts]  # extending by a literal list is appending its items
                    continue
                out.append(f"emit:{f.attr}({self.norm(a0)})")
        return out

    def unconditional(self, token: str) -> int:
        """how many sites yielding ``token`` are executed on every call (under no branch, loop or handler)"""
        cnt = 0
        for n in self.fi.local_nodes():
            if isinstance(n, ast.Call) and token in self.effects([n]):
                p = parent(n)
                while p is not None and p is not self.fi.node and not isinstance(p, (ast.If, ast.While, ast.For, ast.Try, ast.With, ast.IfExp, ast.BoolOp, ast.ListComp, ast.GeneratorExp, ast.Lambda)):
                    p = parent(p)
                if p is None or p is self.fi.node:
                    cnt += 1
        return cnt

    def settings(self, nodes) -> list[str]:
        """flag stores `name = True/False/None` among ``nodes``: what a branch decides besides what it consumes/emits"""
        return [
            f"set:{n.value.value}"
            for n in nodes
            if isinstance(n, ast.Assign) and len(n.targets) == 1 and isinstance(n.targets[0], ast.Name) and isinstance(n.value, ast.Constant) and (n.value.value is None or isinstance(n.value.value, bool))
            and n.targets[0].id not in self.exit_flags()
        ]

    def validation(self):
        """'the next N characters are all in S, else leave' in either spelling - a range(N) loop over peek(k), or
        any()/all() over prefix(N) - reads as one guard: ([guard], consumed compare nodes, ids of absorbed peek(k) reads)"""
        if self._validation is not None:
            return self._validation
        guards, consumed, reads = [], set(), set()
        self._validation = (guards, consumed, reads)
        for n in self.fi.local_nodes():
            if isinstance(n, ast.For) and isinstance(n.target, ast.Name) and isinstance(n.iter, ast.Call) and dotted(n.iter.func) == "range" and len(n.iter.args) == 1:
                k = n.target.id
                for st in n.body:
                    if not (isinstance(st, ast.If) and not st.orelse and isinstance(st.body[-1], (ast.Raise, ast.Return)) and isinstance(st.test, ast.Compare) and len(st.test.ops) == 1 and isinstance(st.test.ops[0], ast.NotIn)):
                        continue
                    left = st.test.left
                    if isinstance(left, ast.Call) and isinstance(left.func, ast.Attribute) and self.is_recv(left.func.value) and left.func.attr == "peek" and isinstance(_offarg(left), ast.Name) and _offarg(left).id == k:
                        try:
                            cs = as_charset(self.const(st.test.comparators[0]))
                        except NotConst:
                            cs = None
                        if cs is not None:
                            guards.append(self.tagged((f"all:prefix({self.offnorm(n.iter.args[0])})", "in", "".join(sorted(cs))), n))
                            consumed.add(st.test)
                            for c in ast.walk(n):
                                if isinstance(c, ast.Call) and isinstance(c.func, ast.Attribute) and c.func.attr == "peek" and isinstance(_offarg(c), ast.Name) and _offarg(c).id == k:
                                    reads.add(id(c))
            elif isinstance(n, ast.For) and isinstance(n.target, ast.Name) and self.norm(n.iter).startswith("prefix("):
                for st in n.body:
                    if isinstance(st, ast.If) and not st.orelse and isinstance(st.body[-1], (ast.Raise, ast.Return)) and isinstance(st.test, ast.Compare) and len(st.test.ops) == 1 and isinstance(st.test.ops[0], ast.NotIn) and isinstance(st.test.left, ast.Name) and st.test.left.id == n.target.id:
                        try:
                            cs = as_charset(self.const(st.test.comparators[0]))
                        except NotConst:
                            cs = None
                        if cs is not None:
                            guards.append(self.tagged((f"all:{self.norm(n.iter)}", "in", "".join(sorted(cs))), n))
                            consumed.add(st.test)
            elif isinstance(n, ast.Call) and isinstance(n.func, ast.Name) and n.func.id in ("any", "all") and len(n.args) == 1 and isinstance(n.args[0], ast.GeneratorExp):
                ge = n.args[0]
                if len(ge.generators) != 1 or ge.generators[0].ifs or not isinstance(ge.generators[0].target, ast.Name):
                    continue
                c, elt = ge.generators[0].target.id, ge.elt
                want = ast.NotIn if n.func.id == "any" else ast.In
                if not (isinstance(elt, ast.Compare) and len(elt.ops) == 1 and isinstance(elt.ops[0], want) and isinstance(elt.left, ast.Name) and elt.left.id == c):
                    continue
                src_ = self.norm(ge.generators[0].iter)
                try:
                    cs = as_charset(self.const(elt.comparators[0]))
                except NotConst:
                    cs = None
                if cs is None or not src_.startswith("prefix("):
                    continue
                guards.append(self.tagged((f"all:{src_}", "in", "".join(sorted(cs))), n))
                consumed.add(elt)
                # a length test on the same slice next to it belongs to the idiom (a short slice contains the sentinel anyway)
                p = parent(n)
                while isinstance(p, ast.UnaryOp):
                    p = parent(p)
                if isinstance(p, ast.BoolOp):
                    for v in p.values:
                        if isinstance(v, ast.Compare) and len(v.ops) == 1 and isinstance(v.left, ast.Call) and dotted(v.left.func) == "len" and v.left.args and self.norm(v.left.args[0]) == src_:
                            consumed.add(v)
        return self._validation

    def helper(self, call: ast.Call):
        """Side of an unpaired module-level helper of the port that ``call`` invokes (depth-limited)"""
        f = call.func
        if self.yaml or self.depth >= 3 or not isinstance(f, ast.Name) or f.id in CANON or f.id in self.defs or f.id in self.params:
            return None
        h = self.m.functions.get(f.id)
        if h is None or h.is_lambda or h.parent_func is not None or not any(isinstance(a, ast.Name) and a.id == self.recv for a in call.args):
            return None
        side = Side(h, False)
        side.depth = self.depth + 1
        return side

    def prefix_eq(self, c: ast.Compare):
        """per-offset guards of `prefix(k) ==/!= "<k characters>"`, None for any other comparison"""
        if not (len(c.ops) == 1 and isinstance(c.ops[0], (ast.Eq, ast.NotEq))):
            return None
        lhs = self.norm(c.left)
        try:
            v = self.const(c.comparators[0])
        except NotConst:
            return None
        if not (isinstance(v, str) and len(v) >= 2 and lhs == f"prefix({len(v)})"):
            return None
        return [self.tagged((f"peek({i})", "in", ch), c) for i, ch in enumerate(v)]

    def merged(self, t):
        """`x == a or x == b` / `x != a and x != b` read as one membership guard: (guard, compare nodes) | None"""
        if not (isinstance(t, ast.BoolOp) and len(t.values) > 1 and all(isinstance(v, ast.Compare) and len(v.ops) == 1 for v in t.values)):
            return None
        gs = [self.guard(v) for v in t.values]
        want = "in" if isinstance(t.op, ast.Or) else "notin"
        if len({g[0] for g in gs}) == 1 and all(g[1] == want and isinstance(g[2], str) and not g[2].startswith(("'", '"')) for g in gs) and not self.dead(t.values[0]):
            return (gs[0][0], want, "".join(sorted(set("".join(g[2] for g in gs))))), list(t.values)
        return None

    def fingerprints(self):
        nodes = self.fi.local_nodes()
        guards = Counter()
        vg, vc, _ = self.validation()
        rg, rc_, _, _ = self.runs()
        consumed = set(vc) | set(rc_)
        for g in list(vg) + list(rg):
            guards[g] += 1
        premerged = {}
        for n in nodes:
            if isinstance(n, ast.BoolOp):
                mg = self.merged(n)
                if mg is not None:
                    premerged[n] = mg
        for n in nodes:
            orelse = list(n.orelse) if isinstance(n, ast.If) else None
            if isinstance(n, ast.If) and isinstance(n.body[-1], (ast.Return, ast.Raise, ast.Continue)):
                # early exit instead of nesting: what follows the statement is (part of) the else branch
                orelse = orelse + _continuation(n)
            if isinstance(n, ast.If) and not isinstance(n.body[-1], ast.Break):
                t, flip = n.test, False
                while isinstance(t, ast.UnaryOp) and isinstance(t.op, ast.Not):
                    t, flip = t.operand, not flip
                if isinstance(t, ast.BoolOp) and isinstance(t.op, ast.And) and t not in premerged:
                    cmps = [v for v in t.values if isinstance(v, ast.Compare)]
                    rest = [v for v in t.values if not isinstance(v, ast.Compare)]
                    if len(cmps) == 1 and all(isinstance(v, ast.Name) for v in rest):
                        t = cmps[0]  # `flag and <char guard>`: the flag is accounted for in the flags fingerprint
                if t in vc:
                    continue  # part of a validation idiom, already accounted for
                if isinstance(t, ast.Compare) and self.prefix_eq(t) is not None and not self.dead(t):
                    # `prefix(2) == "ab"` is `peek(0) == "a" and peek(1) == "b"`; either branch order is the same test
                    consumed.add(t)
                    for g in self.prefix_eq(t):
                        guards[g] += 1
                    continue
                if (isinstance(t, ast.Compare) and len(t.ops) == 1 and not self.dead(t)) or t in premerged:
                    g = premerged[t][0] if t in premerged else self.guard(t)
                    if t in premerged:
                        consumed.update(premerged.pop(t)[1])
                    if g[1] in NEG:
                        a = sorted(x for s in n.body for x in self.effects(walk_stmt(s)) + self.settings(walk_stmt(s)) if not x.startswith("read:"))
                        b = sorted(x for s in orelse for x in self.effects(walk_stmt(s)) + self.settings(walk_stmt(s)) if not x.startswith("read:"))
                        neg = (g[1] in ("notin", "!=")) != flip
                        if neg:
                            a, b = b, a
                        pos = (g[0], "in" if g[1] in ("in", "notin") else "==", g[2])
                        consumed.add(t)
                        if a == b:
                            guards[pos] += 1
                        else:
                            guards[pos + ("then " + " ".join(a), "else " + " ".join(b))] += 1
        for g, cmps in premerged.values():
            if not any(c in consumed for c in cmps):
                consumed.update(cmps)
                guards[g] += 1
        for n in nodes:
            if isinstance(n, ast.Compare) and len(n.ops) == 1 and n not in consumed and not self.dead(n):
                if isinstance(n.ops[0], ast.Eq) and self.prefix_eq(n) is not None:
                    for g in self.prefix_eq(n):
                        guards[g] += 1
                    continue
                g = self.guard(n)
                # `not <compare>` flips
                p = parent(n)
                if isinstance(p, ast.UnaryOp) and isinstance(p.op, ast.Not) and g[1] in NEG:
                    g = (g[0], NEG[g[1]], g[2])
                    p = parent(p)
                # `while True: if G: break` reads as `while not G`
                if isinstance(p, ast.If) and not p.orelse and isinstance(p.body[-1], ast.Break) and g[1] in NEG:
                    g = (g[0], NEG[g[1]], g[2])
                guards[g] += 1
        eff = self.effects(nodes)
        do = Counter(x for x in eff if x.startswith("do:"))
        for x in set(x for x in eff if x.startswith("read:")):
            mt = re.fullmatch(r"read:prefix\((\d+)\)", x)
            for y in ([f"read:peek({i})" for i in range(int(mt.group(1)))] if mt else [x]):  # a fixed-length slice reads those offsets
                do[y] = 1
        emit = Counter(x for x in eff if x.startswith("emit:"))
        void = all(r.value is None or (isinstance(r.value, ast.Constant) and r.value.value is None) for r in nodes if isinstance(r, ast.Return))
        for n in nodes:
            if isinstance(n, ast.Return):
                v = n.value
                if void:
                    continue  # a procedure: `return` only leaves it (early exit instead of a flag or nesting)
                if isinstance(v, ast.IfExp) or (isinstance(v, ast.Call) and isinstance(v.func, ast.Name) and v.func.id[:1].isupper()):
                    continue  # token construction: the classes differ by design
                if isinstance(v, ast.Call) and isinstance(v.func, ast.Name) and v.func.id not in CANON and not any(isinstance(a, ast.Name) and a.id == self.recv for a in v.args):
                    continue  # a token factory that never sees the stream
                # distinct returned values (an early return repeating one is not a new emission)
                emit[f"return:tuple/{len(v.elts)}" if isinstance(v, ast.Tuple) else "return:" + self.norm(v)] = 1
        for n in nodes:  # position accounting: stores to the receiver's own fields
            tgt = val = None
            if isinstance(n, ast.Assign) and len(n.targets) == 1:
                tgt, val = n.targets[0], "=" + self.norm(n.value)
            elif isinstance(n, ast.AugAssign):
                tgt, val = n.target, ("+=" if isinstance(n.op, ast.Add) else "-=" if isinstance(n.op, ast.Sub) else "?=") + self.norm(n.value)
            if isinstance(tgt, ast.Attribute) and self.is_recv(tgt.value) and self.fi.name != "__init__":
                attr = tgt.attr if not (self.yaml and tgt.attr == "index") else "charindex"
                emit[f"store:.{ATTR_CANON.get(attr, attr)}{val}"] += 1
        flags: Counter = Counter()
        for n in nodes:
            ops = []
            if isinstance(n, ast.BoolOp) and not self.dead(n.values[0]):
                ops = list(n.values)
            elif isinstance(n, (ast.If, ast.While)):
                ops = [n.test]
            for v in ops:
                pol = ""
                while isinstance(v, ast.UnaryOp) and isinstance(v.op, ast.Not):
                    v, pol = v.operand, ("" if pol else "not ")
                if isinstance(v, ast.Name):
                    if v.id in self.exit_flags():
                        continue  # `found = False; while not found: ... found = True` is `while True: ... break/return`
                    if v.id in self.aug or v.id in self.length_names():
                        continue  # `if length:` around forward(length)/prefix(length): guarding a no-op changes nothing
                    if not pol and isinstance(n, ast.If) and v is n.test and not n.orelse and all(
                        isinstance(b, ast.Expr) and isinstance(b.value, ast.Call) and isinstance(b.value.func, ast.Attribute) and b.value.func.attr in ("append", "extend")
                        and len(b.value.args) == 1 and isinstance(b.value.args[0], ast.Name) and b.value.args[0].id == v.id
                        for b in n.body
                    ):
                        continue  # `if xs: out.extend(xs)`: skipping the emission of an empty string/list changes nothing
                    kind = "param" if v.id in self.params else "v"
                elif isinstance(v, ast.Attribute) and self.is_recv(v.value):
                    if self.yaml and v.attr == "flow_level":
                        continue  # block context: flow_level == 0
                    kind = "." + ATTR_CANON.get(v.attr, v.attr)
                else:
                    continue
                if isinstance(n, (ast.If, ast.While)) and isinstance(n.test, ast.BoolOp):
                    continue  # operands are counted at the BoolOp itself
                flags[f"flag:{pol}{kind}"] += 1
        for n in nodes:
            if isinstance(n, ast.Call) and self.helper(n) is not None:
                hg, hd, he, hf = self.helper(n).fingerprints()
                guards += hg
                flags += hf
                for x, c in hd.items():
                    if x.startswith("read:"):
                        do[x] = 1
                for x, c in he.items():
                    if x.startswith(("return:", "store:")):
                        emit[x] += c
        return guards, do, emit, flags


def _continuation(st) -> list:
    """statements executed after ``st`` completes normally, up to the end of the enclosing loop/function"""
    out: list = []
    n = st
    while True:
        p = parent(n)
        blk = next((b for b in (getattr(p, f, None) for f in ("body", "orelse", "finalbody")) if isinstance(b, list) and any(x is n for x in b)), None)
        if blk is None:
            return out
        i = next(j for j, x in enumerate(blk) if x is n)
        out += blk[i + 1 :]
        if not isinstance(p, (ast.If, ast.With, ast.Try)):
            return out
        n = p


def walk_stmt(s):
    yield s
    yield from walk_local(s)



# ---------------------------------------------------------------------------
# normal form of a function before fingerprinting: helpers inlined, conditional expressions as branches


class _Rename(ast.NodeTransformer):
    def __init__(self, mapping: dict):
        self.mapping = mapping

    def visit_Name(self, node):
        if node.id in self.mapping:
            return ast.copy_location(ast.Name(id=self.mapping[node.id], ctx=node.ctx), node)
        return node


def _fresh(fi: FunctionInfo):
    """a private, unlinked copy of the function's AST (re-parsed, line numbers kept)"""
    seg = ast.get_source_segment(fi.module.src, fi.node)
    if seg is None:
        raise Unsupported(f"no source segment for {fi.fq}")
    tree = ast.parse(textwrap.dedent(" " * fi.node.col_offset + seg))
    node = tree.body[0]
    ast.increment_lineno(node, fi.node.lineno - 1)
    return node


def _blocks(node):
    for n in ast.walk(node):
        for fld in ("body", "orelse", "finalbody"):
            b = getattr(n, fld, None)
            if isinstance(b, list) and b and isinstance(b[0], ast.stmt):
                yield b
        if isinstance(n, ast.Try):
            for h in n.handlers:
                yield h.body


_RESULT = "__result__"


_CONSUMER = "__consumer__"


def _tail_returns(stmts: list, target, consumer: str | None = None) -> list:
    """the helper body with every `return v` turned into `<result> = v` - possible when each return is in tail position
    (`if c: ...; return` followed by more code becomes if/else); raises NotConst otherwise"""

    def has_return(nodes) -> bool:
        return any(isinstance(r, ast.Return) for n in nodes for r in ast.walk(n))

    def emit(v):
        if consumer is not None:
            if v is None:
                return []
            return [ast.Expr(value=ast.Call(func=ast.Attribute(value=ast.Name(id=_CONSUMER, ctx=ast.Load()), attr=consumer, ctx=ast.Load()), args=[v], keywords=[]))]
        if target is None:
            return [ast.Expr(value=v)] if v is not None and not isinstance(v, (ast.Constant, ast.Name)) else []
        return [ast.Assign(targets=[ast.Name(id=_RESULT, ctx=ast.Store())], value=v if v is not None else ast.Constant(value=None))]

    out: list = []
    for i, st in enumerate(stmts):
        rest = stmts[i + 1 :]
        if isinstance(st, ast.Return):
            return out + emit(st.value)
        if not has_return([st]):
            out.append(st)
            continue
        if not isinstance(st, ast.If):
            raise NotConst("return inside a loop/with/try")
        body_ret, else_ret = has_return(st.body), has_return(st.orelse)
        ends = lambda b: bool(b) and isinstance(b[-1], (ast.Return, ast.Raise))
        if body_ret and ends(st.body) and not (else_ret and not ends(st.orelse) and rest):
            new = ast.If(test=st.test, body=_tail_returns(st.body, target, consumer) or [ast.Pass()], orelse=_tail_returns(list(st.orelse) + (rest if not ends(st.orelse) else []), target, consumer))
            return out + [new]
        if else_ret and ends(st.orelse) and not body_ret:
            new = ast.If(test=st.test, body=_tail_returns(list(st.body) + rest, target, consumer) or [ast.Pass()], orelse=_tail_returns(st.orelse, target, consumer))
            return out + [new]
        raise NotConst("return not in tail position")
    if target is not None and consumer is None:
        out += emit(None)
    return out


def _inline_call(st, fi: FunctionInfo, recv: str | None, counter: list, stack: tuple):
    """statements replacing ``st`` when it is `helper(...)` / `x = helper(...)` on an unpaired module helper that
    returns only as its last statement; None when the statement is not of that shape"""
    m = fi.module
    consumer = sink = None
    if (
        isinstance(st, ast.Expr) and isinstance(st.value, ast.Call) and isinstance(st.value.func, ast.Attribute) and st.value.func.attr in ("extend", "append")
        and isinstance(st.value.func.value, ast.Name) and len(st.value.args) == 1 and not st.value.keywords and isinstance(st.value.args[0], ast.Call)
        and isinstance(st.value.args[0].func, ast.Name) and st.value.args[0].func.id in m.functions
    ):
        # `out.extend(helper(...))`: every value the helper returns is handed to that consumer
        call, target, consumer, sink = st.value.args[0], None, st.value.func.attr, st.value.func.value.id
    elif isinstance(st, ast.Expr) and isinstance(st.value, ast.Call):
        call, target = st.value, None
    elif isinstance(st, ast.Assign) and len(st.targets) == 1 and isinstance(st.targets[0], ast.Name) and isinstance(st.value, ast.Call):
        call, target = st.value, st.targets[0].id
    else:
        return None
    f = call.func
    if not isinstance(f, ast.Name) or f.id in CANON or f.id in stack:
        return None
    h = m.functions.get(f.id)
    if h is None or h.is_lambda or h.parent_func is not None or h.cls is not None or h.is_generator():
        return None
    if recv is None or not any(isinstance(a, ast.Name) and a.id == recv for a in call.args):
        return None  # only helpers that work on the stream are part of the scanner
    if any(isinstance(a, ast.Starred) for a in call.args) or any(k.arg is None for k in call.keywords):
        return None
    hn = _fresh(h)
    body = list(hn.body)
    if body and isinstance(body[0], ast.Expr) and isinstance(body[0].value, ast.Constant) and isinstance(body[0].value.value, str):
        body = body[1:]
    nested = [d for b in body for d in ast.walk(b) if isinstance(d, (ast.FunctionDef, ast.AsyncFunctionDef, ast.Lambda, ast.ClassDef))]
    if nested:
        return None
    try:
        body = _tail_returns(body, target, consumer)
    except NotConst:
        return None
    rets = []
    counter[0] += 1
    tag = f"__h{counter[0]}_"
    a = hn.args
    params = [x.arg for x in a.posonlyargs + a.args]
    if a.vararg or a.kwarg or a.kwonlyargs:
        return None
    bound: dict = {}
    for p, arg in zip(params, call.args):
        bound[p] = arg
    for k in call.keywords:
        bound[k.arg] = k.value
    defaults = dict(zip(reversed(params), reversed(a.defaults)))
    pre = []
    mapping: dict = {}
    for p in params:
        arg = bound.get(p, defaults.get(p))
        if arg is None:
            return None
        if isinstance(arg, ast.Name):
            mapping[p] = arg.id
        else:
            mapping[p] = tag + p
            pre.append(ast.Assign(targets=[ast.Name(id=tag + p, ctx=ast.Store())], value=arg, lineno=st.lineno, col_offset=st.col_offset))
    for b in body:
        for n in ast.walk(b):
            for nm in _assigned(n) if isinstance(n, ast.stmt) else ():
                if nm not in mapping:
                    mapping[nm] = tag + nm
    mapping.pop(_RESULT, None)
    if target is not None:
        mapping[_RESULT] = target
    if sink is not None:
        mapping[_CONSUMER] = sink
    out = pre
    for b in body:
        out.append(_Rename(mapping).visit(b))
    for s_ in out:
        for n in ast.walk(s_):
            if hasattr(n, "lineno") or isinstance(n, (ast.stmt, ast.expr)):
                n.lineno = n.end_lineno = st.lineno
                n.col_offset = n.end_col_offset = st.col_offset
    return out, f.id


def _branch_ifexp(st):
    """`f(a if c else b)` / `x = a if c else b` as an if/else statement; None when not of that shape"""

    def both(make):
        return ast.If(test=ie.test, body=[make(ie.body)], orelse=[make(ie.orelse)])

    if isinstance(st, ast.Expr) and isinstance(st.value, ast.Call) and len(st.value.args) == 1 and not st.value.keywords and isinstance(st.value.args[0], ast.IfExp):
        ie, call = st.value.args[0], st.value
        new = both(lambda v: ast.Expr(value=ast.Call(func=call.func, args=[v], keywords=[])))
    elif isinstance(st, ast.Assign) and isinstance(st.value, ast.IfExp):
        ie = st.value
        new = both(lambda v: ast.Assign(targets=st.targets, value=v))
    elif isinstance(st, ast.Assign) and len(st.targets) == 1 and isinstance(st.targets[0], ast.Name) and isinstance(st.value, ast.Compare) and len(st.value.ops) == 1:
        # `flag = <comparison>` is `if <comparison>: flag = True else: flag = False`
        ie = ast.IfExp(test=st.value, body=ast.Constant(value=True), orelse=ast.Constant(value=False))
        new = both(lambda v: ast.Assign(targets=st.targets, value=v))
    else:
        return None
    for n in ast.walk(new):
        if not hasattr(n, "lineno") and isinstance(n, (ast.stmt, ast.expr)):
            n.lineno = n.end_lineno = st.lineno
            n.col_offset = n.end_col_offset = st.col_offset
    return [new]


def prepared(fi: FunctionInfo, inline: bool) -> FunctionInfo:
    """the function in the normal form the fingerprints are taken from"""
    cached = fi.__dict__.get("_c07_prepared")
    if cached is not None and cached[0] == inline:
        return cached[1]
    node = _fresh(fi)
    a = node.args.args
    recv = a[0].arg if a else None
    counter = [0]
    stack = (fi.name,)
    for _ in range(4):  # nested helpers: a few rounds are plenty
        changed = False
        for blk in list(_blocks(node)):
            i = 0
            while i < len(blk):
                st = blk[i]
                nxt = blk[i + 1] if i + 1 < len(blk) else None
                if (
                    isinstance(st, ast.Assign) and len(st.targets) == 1 and isinstance(st.targets[0], ast.Name) and isinstance(st.value, ast.IfExp)
                    and isinstance(nxt, ast.Expr) and isinstance(nxt.value, ast.Call) and len(nxt.value.args) == 1 and not nxt.value.keywords
                    and isinstance(nxt.value.args[0], ast.Name) and nxt.value.args[0].id == st.targets[0].id
                    and sum(1 for x in ast.walk(node) if isinstance(x, ast.Name) and x.id == st.targets[0].id) == 2
                ):
                    # a single-use local holding the conditional argument: `w = a if c else b; f(w)` is `f(a if c else b)`
                    nxt.value.args[0] = st.value
                    del blk[i]
                    changed = True
                    continue
                if (
                    isinstance(st, ast.Assign) and len(st.targets) == 1 and isinstance(st.targets[0], ast.Name) and isinstance(nxt, ast.If)
                    and isinstance(st.value, (ast.BoolOp, ast.Compare, ast.UnaryOp))
                    and sum(1 for x in ast.walk(node) if isinstance(x, ast.Name) and x.id == st.targets[0].id) == 2
                ):
                    # a single-use local holding the condition: `c = a and b; if c:` is `if a and b:`
                    t_, neg_ = nxt.test, False
                    while isinstance(t_, ast.UnaryOp) and isinstance(t_.op, ast.Not):
                        t_, neg_ = t_.operand, not neg_
                    if isinstance(t_, ast.Name) and t_.id == st.targets[0].id:
                        nxt.test = ast.UnaryOp(op=ast.Not(), operand=st.value) if neg_ else st.value
                        del blk[i]
                        changed = True
                        continue
                rep_ = _branch_ifexp(st)
                if rep_ is None and inline:
                    r = _inline_call(st, fi, recv, counter, stack)
                    if r is not None:
                        rep_, name = r
                        stack = stack + (name,) if counter[0] > 8 else stack
                if rep_ is not None:
                    blk[i : i + 1] = rep_ or [ast.Pass(lineno=st.lineno, col_offset=st.col_offset)]
                    changed = True
                    i += len(rep_) or 1
                else:
                    i += 1
        if not changed:
            break
    ast.fix_missing_locations(node)
    for p in ast.walk(node):
        for c in ast.iter_child_nodes(p):
            c._parent = p  # type: ignore[attr-defined]
            c._mod = fi.module  # type: ignore[attr-defined]
    node._parent = None  # type: ignore[attr-defined]
    node._mod = fi.module  # type: ignore[attr-defined]
    out = FunctionInfo(fi.module, fi.qualname, node, fi.cls, None)
    fi.__dict__["_c07_prepared"] = (inline, out)
    return out


# Deliberate deviations from PyYAML: (options function, fingerprint kind) -> side -> {entry: (count, reason)}.
# An entry here is *allowed*, never required, so removing a deviation keeps the rule quiet.
_DOCSEP = "option blocks have no document markers: the ---/... look-ahead of PyYAML is not ported"
_SIMPLE_KEY = "simple-key bookkeeping of PyYAML's block/flow parser; the option tokenizer has its own key/colon/value state machine"
_REFILL = "yaml.reader.Reader refills its buffer lazily; StreamBuffer holds the whole text"
_SEP_SET = "".join(sorted("\0 \t\r\n\x85\u2028\u2029"))
DEVIATIONS: dict[tuple[str, str], dict[str, dict]] = {
    ("_scan_plain_scalar", "guards"): {"opt": {("peek(0)", "in", "#"): (1, "second `#` test only records State.has_comments")}},
    ("_scan_block_scalar", "guards"): {"yaml": {("v", "<", "1"): (1, "PyYAML clamps `self.indent + 1` because its parent indentation can be -1; the port's parent mapping is at column 0 by contract (a constant, not a parameter of _scan_block_scalar), so the clamp can never fire and may be folded away")}},
    ("_scan_plain_scalar", "flags"): {"opt": {"flag:param": (2, "is_key: a `: ` inside a *value* does not end the scalar (values are never nested mappings); continuation indent is 0 for keys (column 0 by contract) and 1 for values")}},
    ("_scan_plain_spaces", "flags"): {"opt": {"flag:param": (1, "allow_newline: keys are single-line, as YAML's simple-key rule demands")}},
    ("_scan_plain_spaces", "guards"): {"yaml": {("peek(3)", "in", _SEP_SET): (2, _DOCSEP), **{(f"peek({i})", "in", c): (2, _DOCSEP) for i in range(3) for c in "-."}}},
    ("_scan_plain_spaces", "effects"): {"yaml": {f"read:peek({i})": (1, _DOCSEP) for i in (1, 2, 3)}},
    ("_scan_flow_scalar_breaks", "guards"): {"yaml": {("peek(3)", "in", _SEP_SET): (1, _DOCSEP), **{(f"peek({i})", "in", c): (1, _DOCSEP) for i in range(3) for c in "-."}}},
    ("_scan_flow_scalar_breaks", "effects"): {"yaml": {f"read:peek({i})": (1, _DOCSEP) for i in (1, 2, 3)}},
    ("_scan_flow_scalar_non_spaces", "guards"): {"opt": {("v", ">", "1114111"): (1, "range check before chr(): an out-of-range \\U escape is a TokenizeError (PyYAML lets chr() raise)")}},
    ("StreamBuffer.forward", "guards"): {"yaml": {("v", ">=", "v"): (1, _REFILL)}},
    ("StreamBuffer.forward", "emits"): {"yaml": {"store:.charindex+=1": (1, "Reader keeps a second absolute index; StreamBuffer's pointer is absolute already")}},
    ("_scan_to_next_token", "emits"): {"yaml": {"store:.allow_simple_key=True": (1, _SIMPLE_KEY)}},
    ("_scan_plain_scalar", "emits"): {"yaml": {"store:.allow_simple_key=False": (1, _SIMPLE_KEY)}},
    ("_scan_plain_spaces", "emits"): {"yaml": {"store:.allow_simple_key=True": (1, _SIMPLE_KEY), "return:-": (2, _DOCSEP)}},
    ("StreamBuffer.prefix", "guards"): {"yaml": {("v", ">=", "v"): (1, _REFILL)}},
}


def r4_fingerprints(corpus: Corpus, rep: Report, tier: str) -> None:
    m = optmod(corpus)
    # the pairing table must cover exactly the scanner functions of the module
    have = {q for q, f in m.functions.items() if q.startswith("_scan_") and not f.is_lambda and f.parent_func is None}
    want = {o for o, _, _ in PAIRS if not o.startswith("StreamBuffer.")}
    if want - have:
        rep.error("C07.R4", f"pairing table is stale: scanner functions removed {sorted(want - have)}")
    for extra in sorted(have - want):
        rep.listed("C07.R4", f"{m.name}:{extra}|unpaired helper", m.functions[extra].site(), "no PyYAML counterpart: judged in place, inlined into the ported function that calls it")
    for o, rel, y in PAIRS:
        sib = corpus.sibling(rel)
        rep.saw_sibling(rel)
        yf = sib.func(y)
        of = m.func(o)
        rep.saw_function(of.fq)
        side_o = Side(prepared(of, True), False)
        side_y = Side(prepared(yf, False), True, sib.cls(y.split(".")[0]))
        a = side_o.fingerprints()
        b = side_y.fingerprints()
        # does the port lack anything PyYAML has (beyond the tabled deviations)?  If not, unexplained extras are pure
        # additions (a redundant guard, an early return): undecidable here -> ANALYSIS-ERROR, not VIOLATION.
        lacks = False
        for kind, x, yv in zip(("guards", "effects", "emits", "flags"), a, b):
            allowed = DEVIATIONS.get((o, kind), {}).get("yaml", {})
            if any(rest for _, rest, _ in _unexplained(yv - x, allowed)):
                lacks = True
        for kind, x, yv in zip(("guards", "effects", "emits", "flags"), a, b):
            dev = DEVIATIONS.get((o, kind), {})
            if (o, kind) == ("_scan_block_scalar", "guards") and any("indent" in p_ for p_ in of.params):
                dev = {}  # the clamp deviation only holds while the parent indentation is not an input of the function
            only_o, only_y = x - yv, yv - x
            for e, n in (x & yv).items():
                rep.ok("C07.R4", f"{of.fq}|{kind}|{_fmt(e)}", of.site(), f"x{n}, as in {y}")
            for side, diff, allowed in (("opt", only_o, dev.get("opt", {})), ("yaml", only_y, dev.get("yaml", {}))):
                for e, rest, reason in _unexplained(diff, allowed):
                    n, cnt = rest, 0
                    if rest == 0:
                        rep.assumed("C07.R4", f"{of.fq}|{kind}|{'only here' if side == 'opt' else 'only in PyYAML'}: {_fmt(e)}", of.site(), f"deliberate deviation: {reason}")
                    elif side == "opt" and not lacks and kind in ("effects", "emits") and isinstance(e, str) and e.startswith(("do:", "emit:")) and side_o.unconditional(e) > side_y.unconditional(e):
                        rep.violation(
                            "C07.R4",
                            f"{of.fq}|{kind}|unconditional here: {_fmt(e)}",
                            _site_of(of, e),
                            f"{o} performs {_fmt(e)} on every call ({side_o.unconditional(e)} unconditional site(s)); PyYAML's {y} does so only under a condition "
                            f"({side_y.unconditional(e)} unconditional): whenever that condition fails the port consumes/emits something the reference does not",
                        )
                    elif side == "opt" and not lacks:
                        rep.error(
                            "C07.R4",
                            f"{_site_of(of, e)} {o} has an additional {kind[:-1]} `{_fmt(e)}` (x{n - cnt}) that PyYAML's {y} lacks while nothing of PyYAML's is missing: "
                            "a redundant guard/early exit or a deliberate deviation - cannot be decided structurally; table it in DEVIATIONS with a reason",
                        )
                    elif side == "opt":
                        rep.violation(
                            "C07.R4",
                            f"{of.fq}|{kind}|only here: {_fmt(e)}",
                            _site_of(of, e),
                            f"{o} has {kind[:-1]} {_fmt(e)} (x{n - cnt}) that PyYAML's {y} does not have: the port tests/consumes/emits something the reference scanner does not (table it in DEVIATIONS with a reason if deliberate)",
                        )
                    else:
                        rep.violation(
                            "C07.R4",
                            f"{of.fq}|{kind}|only in PyYAML: {_fmt(e)}",
                            of.site(),
                            f"PyYAML's {y} has {kind[:-1]} {_fmt(e)} (x{n - cnt}) that {o} lacks: the port no longer tests/consumes/emits what the reference scanner does",
                        )


def _base(e):
    """a fingerprint entry without its loop-depth tag (the deviation table does not care where in a loop a deviation sits)"""
    if isinstance(e, tuple) and isinstance(e[0], str) and "@" in e[0]:
        return (e[0].split("@", 1)[0],) + tuple(e[1:])
    return e


def _unexplained(diff: Counter, allowed: dict) -> list:
    """[(entry, count not covered by the deviation table, reason of the covering entry | None)]"""
    budget = {k_: v[0] for k_, v in allowed.items()}
    out = []
    for e, n in sorted(diff.items(), key=lambda kv: str(kv[0])):
        b = _base(e)
        use = min(n, budget.get(b, 0))
        if use:
            budget[b] -= use
        out.append((e, n - use, allowed[b][1] if b in allowed else None))
    return out


def _fmt(e) -> str:
    if isinstance(e, tuple):
        return " ".join(repr(x) if i == 2 else str(x) for i, x in enumerate(e))
    return str(e)


def _site_of(fi: FunctionInfo, entry) -> str:
    """the line of the first construct of the function that yields the entry, else the function head"""
    side = Side(fi, False)
    for n in sorted(fi.local_nodes(), key=lambda n: (getattr(n, "lineno", 0), getattr(n, "col_offset", 0))):
        if isinstance(entry, tuple) and isinstance(n, ast.Compare) and len(n.ops) == 1:
            g = side.guard(n)
            if g[0] == entry[0] and g[2] == entry[2] and (g[1] == entry[1] or NEG.get(g[1]) == entry[1]):
                return fi.module.site(n)
        elif isinstance(entry, str) and isinstance(n, (ast.Call, ast.Return)):
            toks = side.effects([n]) if isinstance(n, ast.Call) else ["return:" + side.norm(n.value)]
            if entry in toks:
                return fi.module.site(n)
    return fi.site()


# ---------------------------------------------------------------------------
# E9 character facts over parsers/options.py (guard refinement, advance summaries, counters)


def _offarg(call: ast.Call):
    """the offset/length argument of stream.peek/prefix/forward, positional or by keyword (None: defaulted)"""
    if call.args:
        return call.args[0]
    for k in call.keywords:
        if k.arg in ("index", "length"):
            return k.value
    return None


def _header(st) -> list:
    if isinstance(st, (ast.If, ast.While)):
        return [st.test]
    if isinstance(st, ast.For):
        return [st.iter]
    if isinstance(st, ast.With):
        return [i.context_expr for i in st.items]
    if isinstance(st, (ast.Try, ast.FunctionDef, ast.AsyncFunctionDef, ast.ClassDef)):
        return []
    return [st]


def _assigned(st) -> set:
    out: set = set()

    def tgt(t):
        if isinstance(t, ast.Name):
            out.add(t.id)
        elif isinstance(t, (ast.Tuple, ast.List)):
            for e in t.elts:
                tgt(e)

    if isinstance(st, ast.Assign):
        for t in st.targets:
            tgt(t)
    elif isinstance(st, ast.AugAssign):
        tgt(st.target)
    elif isinstance(st, ast.AnnAssign) and st.value is not None:
        tgt(st.target)
    elif isinstance(st, ast.For):
        tgt(st.target)
    return out


def _nid(n):
    if isinstance(n, tuple):
        return (n[0], id(n[1]))
    if isinstance(n, str):
        return n
    return id(n)


def _names(e) -> frozenset:
    return frozenset(n.id for n in ast.walk(e) if isinstance(n, ast.Name)) if e is not None else frozenset()


class E9:
    def __init__(self, corpus: Corpus):
        self.c = corpus
        self.m = optmod(corpus)
        self.g = get_callgraph(corpus)
        self.sb = self.m.cls("StreamBuffer")
        self._may: dict = {}
        self._reach: dict = {}
        self._memo: dict = {}
        self._busy: set = set()

    # -- calls ---------------------------------------------------------------
    def is_stream(self, e, fi) -> bool:
        t = self.g.expr_type(e, fi)
        return bool(t and t[0] == "is" and t[1].fq == self.sb.fq)

    def classify(self, call: ast.Call, fi: FunctionInfo):
        key = ("cls", id(call))
        if key in self._memo:
            return self._memo[key]
        r = self._classify(call, fi)
        self._memo[key] = r
        return r

    def _classify(self, call, fi):
        f = call.func
        if isinstance(f, ast.Attribute) and self.is_stream(f.value, fi):
            if f.attr in ("forward", "peek", "prefix"):
                return (f.attr, None)
            if f.attr == "get_position":
                return ("pos", None)
            runs = _run_methods(self.m)
            if f.attr in runs:
                return ("run", runs[f.attr])  # measures the run of characters (not) in its argument; the cursor stays
            meth = self.c.lookup_method(self.sb, f.attr)
            if meth is not None and not any(
                (isinstance(n, (ast.Assign, ast.AugAssign, ast.AnnAssign)) and any(isinstance(t, ast.Attribute) for t in ast.walk(n.targets[0] if isinstance(n, ast.Assign) else n.target)))
                or (isinstance(n, ast.Call) and not (isinstance(n.func, ast.Attribute) and n.func.attr in ("peek", "prefix", "get_position")) and not isinstance(n.func, ast.Name))
                for n in meth.local_nodes()
            ):
                return ("pure", None)  # reads the buffer only
            raise Unsupported(f"StreamBuffer method {f.attr}() at {fi.module.site(call)} is not one the character analysis knows")
        if isinstance(f, ast.Name) and f.id in self.m.functions and not self.m.functions[f.id].is_lambda:
            return ("func", self.m.functions[f.id])
        if not (isinstance(f, ast.Name) and f.id == "cast"):
            for a in list(call.args) + [k.value for k in call.keywords]:
                if self.is_stream(a, fi):
                    raise Unsupported(f"the stream is handed to an unknown callee at {fi.module.site(call)}")
        return ("neutral", None)

    def calls(self, st) -> list:
        key = ("calls", id(st))
        if key not in self._memo:
            out = []
            for h in _header(st):
                out += [n for n in [h] + list(walk_local(h)) if isinstance(n, ast.Call)]
            self._memo[key] = out
        return self._memo[key]

    def uncond_calls(self, st) -> list:
        """calls evaluated whenever the statement('s header) is evaluated"""
        out: list = []

        def rec(n):
            if isinstance(n, (ast.Lambda, ast.ListComp, ast.SetComp, ast.DictComp, ast.GeneratorExp)):
                return
            if isinstance(n, ast.BoolOp):
                rec(n.values[0])
                return
            if isinstance(n, ast.IfExp):
                rec(n.test)
                return
            if isinstance(n, ast.Call):
                out.append(n)
            for c in ast.iter_child_nodes(n):
                rec(c)

        for h in _header(st):
            rec(h)
        return out

    def may_advance(self, fi: FunctionInfo) -> bool:
        if fi.fq in self._may:
            return self._may[fi.fq]
        self._may[fi.fq] = False
        r = False
        for n in fi.local_nodes():
            if isinstance(n, ast.Call):
                k, t = self.classify(n, fi)
                if k == "forward" or (k == "func" and self.may_advance(t)):
                    r = True
        self._may[fi.fq] = r
        return r

    def stmt_may_advance(self, st, fi) -> bool:
        for c in self.calls(st):
            k, t = self.classify(c, fi)
            if k == "forward" or (k == "func" and self.may_advance(t)):
                return True
        return False

    # -- graph helpers ---------------------------------------------------------
    def reach(self, cfg, start, avoid) -> set:
        """nodes reachable from ``start`` over >= 1 edge without entering ``avoid``"""
        key = (id(cfg), _nid(start), _nid(avoid))
        r = self._reach.get(key)
        if r is None:
            r = set()
            work = list(cfg.succ.get(start, []))
            while work:
                n = work.pop()
                if n in r or n == avoid:
                    continue
                r.add(n)
                work.extend(cfg.succ.get(n, []))
            self._reach[key] = r
        return r

    def killers(self, fi, names=frozenset()) -> list:
        key = ("kill", fi.fq, frozenset(names))
        if key not in self._memo:
            cfg = get_cfg(fi)
            self._memo[key] = [st for st in cfg.nodes if isinstance(st, ast.stmt) and (self.stmt_may_advance(st, fi) or (_assigned(st) & set(names)))]
        return self._memo[key]

    def intervening(self, cfg, origin, use, killers) -> bool:
        """may the cursor/counter change between ``origin`` and (an arrival at) ``use`` without re-passing ``origin``?"""
        r0 = self.reach(cfg, origin, origin)
        for k in killers:
            if k in r0 and use in self.reach(cfg, k, origin):
                return True
        return False

    def defs_of(self, fi, name) -> list:
        key = ("defs", fi.fq, name)
        if key not in self._memo:
            cfg = get_cfg(fi)
            d = [st for st in cfg.nodes if isinstance(st, ast.stmt) and name in _assigned(st)]
            if name in fi.params:
                d.append(ENTRY)
            self._memo[key] = d
        return self._memo[key]

    def reaching(self, fi, name, at, transparent_aug=False) -> list:
        cfg = get_cfg(fi)
        defs = self.defs_of(fi, name)
        blockers = {_nid(d) for d in defs if not (transparent_aug and isinstance(d, ast.AugAssign))}
        out = []
        for d in defs:
            seen: set = set()
            work = list(cfg.succ.get(d, []))
            hit = False
            while work and not hit:
                n = work.pop()
                if _nid(n) in seen:
                    continue
                seen.add(_nid(n))
                if n is at:
                    hit = True
                    break
                if _nid(n) in blockers:
                    continue
                work.extend(cfg.succ.get(n, []))
            if hit:
                out.append(d)
        return out

    # -- character facts ----------------------------------------------------------
    @staticmethod
    def offkey(arg) -> str:
        if arg is None:
            return "0"
        if isinstance(arg, ast.Constant) and isinstance(arg.value, int):
            return str(arg.value)
        return unparse(arg)

    def peek_target(self, e, fi, at):
        """(offset key, names in the offset, defining statement | None) when ``e`` denotes the character at an offset"""
        if isinstance(e, ast.Call) and self.classify(e, fi)[0] == "peek":
            a = _offarg(e)
            return (self.offkey(a), _names(a), None)
        if isinstance(e, ast.Name) and isinstance(at, ast.AST):
            ds = self.reaching(fi, e.id, at)
            if len(ds) == 1 and isinstance(ds[0], ast.Assign) and len(ds[0].targets) == 1 and isinstance(ds[0].targets[0], ast.Name):
                v = ds[0].value
                if isinstance(v, ast.Call) and self.classify(v, fi)[0] == "peek":
                    a = _offarg(v)
                    return (self.offkey(a), _names(a), ds[0])
        return None

    def charset(self, e, fi, at) -> frozenset | None:
        try:
            return as_charset(self.m.eval_const(e))
        except Unsupported:
            pass
        if isinstance(e, ast.Name) and isinstance(at, ast.AST):
            out: set = set()
            ds = self.reaching(fi, e.id, at)
            if not ds:
                return None
            for d in ds:
                if not (isinstance(d, ast.Assign) and isinstance(d.value, ast.Call) and self.classify(d.value, fi)[0] == "peek" and not d.value.args):
                    return None
                f0 = self.facts_at(d.value, fi).get("0", TOP)
                if f0.neg:
                    return None
                out |= f0.chars
            return frozenset(out)
        return None

    def atom_facts(self, t, pol: bool, fi, origin) -> list:
        if not (isinstance(t, ast.Compare) and len(t.ops) == 1):
            return []
        op, left, right = t.ops[0], t.left, t.comparators[0]
        if not isinstance(op, (ast.Eq, ast.NotEq, ast.In, ast.NotIn)):
            return []
        positive = isinstance(op, (ast.Eq, ast.In)) == pol
        if isinstance(left, ast.Call) and self.classify(left, fi)[0] == "prefix":
            if positive and isinstance(op, (ast.Eq, ast.NotEq)) and isinstance(_offarg(left), ast.Constant):
                try:
                    v = self.m.eval_const(right)
                except Unsupported:
                    return []
                if isinstance(v, str) and len(v) == _offarg(left).value:
                    return [(str(i), CS(ch), frozenset(), origin) for i, ch in enumerate(v)]
            return []
        tgt = self.peek_target(left, fi, origin)
        if tgt is None:
            return []
        is_eq = isinstance(op, (ast.Eq, ast.NotEq))
        const = True
        try:
            v = self.m.eval_const(right)
            if is_eq and not (isinstance(v, str) and len(v) == 1):
                return []
            cs = as_charset(v)
        except Unsupported:
            const = False
            cs = self.charset(right, fi, origin) if is_eq else None
        if cs is None:
            return []
        if not const and not positive:
            return []  # `x != <one of S>` says nothing about x
        off, names, o = tgt
        return [(off, CS(cs) if positive else CS(cs, True), names, o if o is not None else origin)]

    def test_facts(self, t, pol: bool, fi, origin) -> list:
        """facts implied by ``t`` evaluating to ``pol``: conjunctions accumulate, disjunctions join"""
        if isinstance(t, ast.UnaryOp) and isinstance(t.op, ast.Not):
            return self.test_facts(t.operand, not pol, fi, origin)
        if isinstance(t, ast.BoolOp):
            parts = [self.test_facts(v, pol, fi, origin) for v in t.values]
            if isinstance(t.op, ast.And) == pol:
                return [f for p in parts for f in p]
            per = []
            for p in parts:
                d: dict = {}
                for off, cs, names, o in p:
                    if off in d:
                        d[off] = (d[off][0].meet(cs), d[off][1] | names, d[off][2] if d[off][2] is o else None)
                    else:
                        d[off] = (cs, frozenset(names), o)
                per.append(d)
            out = []
            for off in set.intersection(*(set(d) for d in per)) if per else ():
                cs = per[0][off][0]
                names = per[0][off][1]
                o = per[0][off][2]
                for d in per[1:]:
                    cs = cs.join(d[off][0])
                    names = names | d[off][1]
                    o = o if o is d[off][2] else None
                if o is not None:
                    out.append((off, cs, names, o))
            return out
        return self.atom_facts(t, pol, fi, origin)

    def short_circuit(self, node, st) -> list:
        out = []
        n = node
        while n is not None and n is not st:
            p = parent(n)
            if isinstance(p, ast.BoolOp):
                i = next((j for j, v in enumerate(p.values) if v is n), 0)
                for v in p.values[:i]:
                    out += split_facts(v, isinstance(p.op, ast.And))
            elif isinstance(p, ast.IfExp) and n is not p.test:
                out += split_facts(p.test, n is p.body)
            n = p
        return out

    def facts_at(self, node, fi) -> dict:
        """offset key -> CS that holds whenever ``node`` (an expression or statement of ``fi``) is evaluated"""
        key = ("facts", id(node))
        if key in self._memo:
            return self._memo[key]
        if key in self._busy:
            return {}
        self._busy.add(key)
        try:
            cfg = get_cfg(fi)
            st = cfg.stmt_of(node)
            atoms = []
            for d in cfg.dom().get(st, ()):
                if isinstance(d, tuple) and d[0] in ("T", "F") and isinstance(d[1], (ast.If, ast.While)):
                    if self.stmt_may_advance(d[1], fi):
                        continue  # the test itself moves the cursor: its character guards are stale
                    atoms.append((d[1].test, d[0] == "T", d[1]))
            sc = self.short_circuit(node, st) if node is not st else []
            if sc and self.stmt_may_advance(st, fi):
                raise Unsupported(f"character guard and cursor movement in one expression at {fi.module.site(st)}")
            atoms += [(t, pol, st) for t, pol in sc]
            out: dict = {}
            for t, pol, origin in atoms:
                for off, cs, names, o in self.test_facts(t, pol, fi, origin):
                    if o is not st and self.intervening(cfg, o, st, self.killers(fi, names)):
                        continue
                    out[off] = out.get(off, TOP).meet(cs)
            ef = self.entry_fact(fi)
            if not ef.is_top() and not self.intervening(cfg, ENTRY, st, self.killers(fi)):
                out["0"] = out.get("0", TOP).meet(ef)
            self._memo[key] = out
            return out
        finally:
            self._busy.discard(key)

    def entry_fact(self, fi) -> CS:
        """what every call site in the module knows about the character under the cursor"""
        key = ("entry", fi.fq)
        if key in self._memo:
            return self._memo[key]
        self._memo[key] = TOP
        sites = [(cfi, call) for cfi, call in self.g.callers().get(fi.fq, []) if cfi.module is self.m]
        r = TOP
        if sites and fi.cls is None:
            acc = None
            for cfi, call in sites:
                f0 = self.facts_at(call, cfi).get("0", TOP)
                acc = f0 if acc is None else acc.join(f0)
            r = acc
        self._memo[key] = r
        return r

    # -- advance summaries ----------------------------------------------------------
    def value_min(self, v) -> int | None:
        if isinstance(v, ast.Constant) and isinstance(v.value, int) and not isinstance(v.value, bool):
            return v.value
        if isinstance(v, ast.IfExp):
            a, b = self.value_min(v.body), self.value_min(v.orelse)
            return None if a is None or b is None else min(a, b)
        if isinstance(v, ast.Call) and isinstance(v.func, ast.Attribute) and v.func.attr in _run_methods(self.m):
            return 0  # a run length
        if isinstance(v, ast.Subscript) and isinstance(v.value, ast.Name) and v.value.id in self.m.const_nodes:
            try:
                tab = self.m.const(v.value.id)
            except Unsupported:
                return None
            if isinstance(tab, dict) and tab and all(isinstance(x, int) for x in tab.values()):
                return min(tab.values())
        return None

    def sign_info(self, fi, k, st):
        """(min over reaching plain definitions | None, all increments positive?)"""
        plain = [d for d in self.reaching(fi, k, st, transparent_aug=True) if not isinstance(d, ast.AugAssign)]
        augs = [d for d in self.reaching(fi, k, st, transparent_aug=True) if isinstance(d, ast.AugAssign)]
        mins = []
        for d in plain:
            if d == ENTRY or not isinstance(d, (ast.Assign, ast.AnnAssign)) or (isinstance(d, ast.Assign) and not (len(d.targets) == 1 and isinstance(d.targets[0], ast.Name))):
                return None, False
            mins.append(self.value_min(d.value))
        ok_aug = all(isinstance(a.op, ast.Add) and (self.value_min(a.value) or 0) >= 1 for a in augs)
        if not mins or any(x is None for x in mins):
            return None, ok_aug
        return min(mins), ok_aug

    def positive_at(self, fi, k: str, st) -> bool:
        lo, ok_aug = self.sign_info(fi, k, st)
        if lo is None or not ok_aug:
            return False
        if lo >= 1:
            return True
        if lo < 0:
            return False
        cfg = get_cfg(fi)
        assigns = [s for s in cfg.nodes if isinstance(s, ast.stmt) and k in _assigned(s)]
        for d in cfg.dom().get(st, ()):
            if isinstance(d, tuple) and d[0] in ("T", "F") and isinstance(d[1], (ast.If, ast.While)):
                for t, pol in split_facts(d[1].test, d[0] == "T"):
                    hit = False
                    if isinstance(t, ast.Name) and t.id == k and pol:
                        hit = True
                    elif isinstance(t, ast.Compare) and len(t.ops) == 1 and isinstance(t.left, ast.Name) and t.left.id == k and isinstance(t.comparators[0], ast.Constant):
                        c, op = t.comparators[0].value, t.ops[0]
                        if (c == 0 and ((isinstance(op, ast.Eq) and not pol) or (isinstance(op, (ast.NotEq, ast.Gt)) and pol))) or (c == 1 and isinstance(op, ast.GtE) and pol):
                            hit = True
                    if hit and not self.intervening(cfg, d[1], st, assigns):
                        return True
        return False

    def run_in_bounds(self, call: ast.Call, fi):
        """(ok?, why) for a run-counting call: counting characters *in* S stops at END iff END is not in S, counting
        characters *not in* S stops at END iff END is in S; None when S is not a constant"""
        pol = self.classify(call, fi)[1]
        if len(call.args) != 1:
            return None
        try:
            cs = as_charset(self.m.eval_const(call.args[0]))
        except Unsupported:
            cs = None
        if cs is None:
            return None
        if pol == "in":
            return (END not in cs, f"the run consists of characters in {''.join(sorted(cs))!r}" + ("" if END not in cs else ", which includes END"))
        return (END in cs, f"the run ends at the first character in {''.join(sorted(cs))!r}" + (", END among them" if END in cs else ", which does not include END"))

    def offset_positive(self, a, fi, st) -> bool:
        """forward(a) moves by at least one character (a conditional expression is a branch: every arm must)"""
        if a is None:
            return True
        if isinstance(a, ast.Constant):
            return isinstance(a.value, int) and not isinstance(a.value, bool) and a.value >= 1
        if isinstance(a, ast.Name):
            return self.positive_at(fi, a.id, st)
        if isinstance(a, ast.IfExp):
            return self.offset_positive(a.body, fi, st) and self.offset_positive(a.orelse, fi, st)
        return False

    @staticmethod
    def offset_arms(a, conds=()) -> list:
        """[(arm expression, [(test, polarity)...])] of a (nested) conditional-expression offset"""
        if isinstance(a, ast.IfExp):
            return E9.offset_arms(a.body, conds + ((a.test, True),)) + E9.offset_arms(a.orelse, conds + ((a.test, False),))
        return [(a, list(conds))]

    def def_adv(self, fi) -> set:
        """CFG nodes (statements, branch edges) that strictly advance the cursor whenever they are passed"""
        key = ("adv", fi.fq)
        if key in self._memo:
            return self._memo[key]
        self._memo[key] = set()
        cfg = get_cfg(fi)
        out: set = set()
        for st in cfg.nodes:
            if not isinstance(st, ast.stmt):
                continue
            for call in self.uncond_calls(st):
                k, t = self.classify(call, fi)
                if k == "forward":
                    a = _offarg(call)
                    if self.offset_positive(a, fi, st):
                        out.add(st)
                elif k == "func":
                    if self.must_advance(t):
                        out.add(st)
                    else:
                        adv = self.adv_set(t)
                        if adv and self.facts_at(call, fi).get("0", TOP).subset_of(adv):
                            out.add(st)
            if isinstance(st, ast.If):
                t, pol = st.test, True
                while isinstance(t, ast.UnaryOp) and isinstance(t.op, ast.Not):
                    t, pol = t.operand, not pol
                if isinstance(t, ast.Call):
                    k, g_ = self.classify(t, fi)
                    if k == "func" and self.truthy_adv(g_):
                        out.add(("T" if pol else "F", st))
        self._memo[key] = out
        return out

    def must_advance(self, fi) -> bool:
        key = ("must", fi.fq)
        if key not in self._memo:
            self._memo[key] = False
            adv = self.def_adv(fi)
            self._memo[key] = not get_cfg(fi).paths_avoiding(ENTRY, EXIT, lambda n: n in adv)
        return self._memo[key]

    def adv_set(self, fi) -> frozenset:
        """characters under the cursor at entry for which ``fi`` strictly advances (read off its own guards)"""
        key = ("advset", fi.fq)
        if key in self._memo:
            return self._memo[key]
        self._memo[key] = frozenset()
        cfg = get_cfg(fi)
        adv = self.def_adv(fi)
        yes: set = set()
        no: set = set()
        for g_ in cfg.nodes:
            if not isinstance(g_, ast.If) or self.intervening(cfg, ENTRY, g_, self.killers(fi)):
                continue
            cs = None
            for off, c, names, o in self.test_facts(g_.test, True, fi, g_):
                if off == "0" and (o is g_ or not self.intervening(cfg, o, g_, self.killers(fi, names))):
                    cs = c if cs is None else cs.meet(c)
            if cs is None or cs.neg:
                continue
            if cfg.paths_avoiding(("T", g_), EXIT, lambda n: n in adv):
                no |= cs.chars
            else:
                yes |= cs.chars
        self._memo[key] = frozenset(yes - no)
        return self._memo[key]

    def only_adv_set(self, fi) -> frozenset | None:
        """S such that ``fi`` can move the cursor only if the character at entry is in S (None: not of that shape)"""
        key = ("onlyadv", fi.fq)
        if key in self._memo:
            return self._memo[key]
        self._memo[key] = None
        cfg = get_cfg(fi)
        out: set = set()
        for mv in self.killers(fi):
            found = None
            for d in cfg.dom().get(mv, ()):
                if isinstance(d, tuple) and d[0] == "T" and isinstance(d[1], ast.If) and not self.intervening(cfg, ENTRY, d[1], self.killers(fi)):
                    cs = None
                    for off, c, names, o in self.test_facts(d[1].test, True, fi, d[1]):
                        if off == "0" and (o is d[1] or not self.intervening(cfg, o, d[1], self.killers(fi, names))):
                            cs = c if cs is None else cs.meet(c)
                    if cs is not None and not cs.neg:
                        found = cs.chars if found is None else (found & cs.chars)
            if found is None:
                return None
            out |= found
        self._memo[key] = frozenset(out)
        return self._memo[key]

    def surely_idle_for_some_char(self, st, fi) -> bool:
        """every may-advance call of ``st`` is a callee that stays put for some character the facts allow here"""
        calls = [c for c in self.calls(st) if self.classify(c, fi)[0] == "forward" or (self.classify(c, fi)[0] == "func" and self.may_advance(self.classify(c, fi)[1]))]
        if len(calls) != 1 or self.classify(calls[0], fi)[0] != "func":
            return False
        only = self.only_adv_set(self.classify(calls[0], fi)[1])
        f0 = self.facts_at(calls[0], fi).get("0", TOP)
        return only is not None and not f0.neg and bool(f0.chars - only)

    def _returns(self, fi):
        cfg = get_cfg(fi)
        if any(not isinstance(p, ast.Return) for p in cfg.pred.get(EXIT, [])):
            return None  # falls off the end somewhere
        return [p for p in cfg.pred.get(EXIT, [])]

    @staticmethod
    def _falsy_const(v) -> bool:
        return v is None or (isinstance(v, ast.Constant) and not v.value)

    def truthy_adv(self, fi) -> bool:
        """a truthy return value implies the cursor advanced"""
        key = ("truthy", fi.fq)
        if key not in self._memo:
            self._memo[key] = False
            rets = self._returns(fi)
            adv = self.def_adv(fi)
            cfg = get_cfg(fi)
            ok = rets is not None and any(not self._falsy_const(r.value) for r in rets)
            for r in rets or []:
                if not self._falsy_const(r.value) and cfg.paths_avoiding(ENTRY, r, lambda n: n in adv):
                    ok = False
            self._memo[key] = ok
        return self._memo[key]

    def falsy_noadv(self, fi) -> bool:
        """a falsy return value implies the cursor did not move"""
        key = ("falsy", fi.fq)
        if key not in self._memo:
            self._memo[key] = False
            rets = self._returns(fi)
            cfg = get_cfg(fi)
            ok = rets is not None
            movers = self.killers(fi)
            from_entry = self.reach(cfg, ENTRY, None)
            for r in rets or []:
                if self._falsy_const(r.value):
                    if any(k in from_entry and r in self.reach(cfg, k, None) for k in movers):
                        ok = False
                elif isinstance(r.value, ast.Constant):
                    pass
                elif not (isinstance(r.value, ast.Name) and self.peek_target(r.value, fi, r) is not None):
                    ok = False  # truthiness of the returned value unknown
            self._memo[key] = ok
        return self._memo[key]

    # -- counters ------------------------------------------------------------------
    def counter_ok(self, fi, k: str, st) -> tuple[bool, str]:
        """at ``st``: k counts characters from the cursor none of which is END, and the cursor has not moved since k = 0"""
        cfg = get_cfg(fi)
        ds = self.reaching(fi, k, st, transparent_aug=True)
        plain = [d for d in ds if not isinstance(d, ast.AugAssign)]
        augs = [d for d in ds if isinstance(d, ast.AugAssign)]
        if not plain:
            return False, f"{k} has no reaching definition"
        for d in plain:
            if d == ENTRY or not (isinstance(d, (ast.Assign, ast.AnnAssign)) and self.value_min(d.value) == 0 and isinstance(d.value, ast.Constant)):
                return False, f"{k} is not a look-ahead counter here (definition `{short(d, 40) if d != ENTRY else 'parameter'}` reaches)"
            if self.intervening(cfg, d, st, self.killers(fi)):
                return False, f"the cursor may move between `{short(d, 30)}` and the use"
        for a in augs:
            if not (isinstance(a.op, ast.Add) and isinstance(a.value, ast.Constant) and a.value.value == 1):
                return False, f"`{short(a, 30)}` is not a unit increment"
            f = self.facts_at(a, fi).get(k, TOP)
            if f.has(END):
                return False, f"`{short(a, 30)}` counts a character that may be the END sentinel (nothing excludes it)"
        return True, f"{k} counts non-END characters ({len(augs)} increment site(s))"

    def hex_loop(self, fi, n_name: str, st, within=None):
        """a `for k in range(N)` validation loop before ``st`` that leaves only when N characters are non-END"""
        cfg = get_cfg(fi)
        for L in cfg.nodes:
            if not (isinstance(L, ast.For) and isinstance(L.target, ast.Name) and isinstance(L.iter, ast.Call) and dotted(L.iter.func) == "range" and len(L.iter.args) == 1 and unparse(L.iter.args[0]) == n_name):
                continue
            if not self.validating_loop(fi, L, within):
                continue
            if ("F", L) in cfg.dom().get(st, ()) and not any(isinstance(b, ast.Break) for b in ast.walk(L)) and not self.intervening(cfg, L, st, self.killers(fi, {n_name})):
                return L
        return None

    def prefix_len_name(self, e, fi, at):
        """(N, origin statement | None) when ``e`` denotes stream.prefix(N), N a name (directly or through a local)"""
        if isinstance(e, ast.Call) and self.classify(e, fi)[0] == "prefix" and isinstance(_offarg(e), ast.Name):
            return _offarg(e).id, None
        if isinstance(e, ast.Name) and isinstance(at, ast.AST):
            ds = self.reaching(fi, e.id, at)
            if len(ds) == 1 and isinstance(ds[0], ast.Assign) and len(ds[0].targets) == 1 and isinstance(ds[0].targets[0], ast.Name):
                r = self.prefix_len_name(ds[0].value, fi, None)
                if r is not None:
                    return r[0], ds[0]
        return None

    def validated_slice(self, fi, n_name: str, st, within=None):
        """a character-by-character check of prefix(N) before ``st`` with the cursor unmoved since the slice was taken:
        a slice cut short by the end of the buffer contains the sentinel, so passing the check means N non-END characters"""
        cfg = get_cfg(fi)
        for it, node in self._slice_checks(fi, st, within):
            src_ = self.prefix_len_name(it, fi, node)
            if src_ is None or src_[0] != n_name:
                continue
            origin = src_[1] if src_[1] is not None else node
            if not self.intervening(cfg, origin, st, self.killers(fi, {n_name})):
                return node
        return None

    def _slice_checks(self, fi, st, within=None):
        """[(iterated expression, guard/loop node)] for `if any(c not in S for c in X): raise`, `not all(c in S ...)` and
        `for c in X: if c not in S: raise` that must have passed before ``st`` (END not in S, S within ``within``)"""
        cfg = get_cfg(fi)
        out = []

        def good(cmp_, var, want):
            if not (isinstance(cmp_, ast.Compare) and len(cmp_.ops) == 1 and isinstance(cmp_.ops[0], want) and isinstance(cmp_.left, ast.Name) and cmp_.left.id == var):
                return False
            try:
                cs = as_charset(self.m.eval_const(cmp_.comparators[0]))
            except Unsupported:
                return False
            return cs is not None and END not in cs and (within is None or cs <= within)

        for g_ in cfg.nodes:
            if isinstance(g_, ast.If) and not g_.orelse and g_.body and isinstance(g_.body[-1], (ast.Raise, ast.Return)) and ("F", g_) in cfg.dom().get(st, ()):
                for t, pol in split_facts(g_.test, False):
                    if isinstance(t, ast.Call) and isinstance(t.func, ast.Name) and t.func.id in ("any", "all") and (t.func.id == "all") == pol and len(t.args) == 1 and isinstance(t.args[0], ast.GeneratorExp):
                        ge = t.args[0]
                        if len(ge.generators) == 1 and not ge.generators[0].ifs and isinstance(ge.generators[0].target, ast.Name) and good(ge.elt, ge.generators[0].target.id, ast.In if t.func.id == "all" else ast.NotIn):
                            out.append((ge.generators[0].iter, g_))
            elif isinstance(g_, ast.For) and isinstance(g_.target, ast.Name) and ("F", g_) in cfg.dom().get(st, ()) and not any(isinstance(b, ast.Break) for b in ast.walk(g_)):
                for s_ in g_.body:
                    if isinstance(s_, ast.If) and not s_.orelse and s_.body and isinstance(s_.body[-1], (ast.Raise, ast.Return)) and good(s_.test, g_.target.id, ast.NotIn):
                        out.append((g_.iter, g_))
        return out

    def validated_value(self, fi, alias: str, st, within=None):
        """the local ``alias`` (a slice taken earlier) was checked character by character before ``st``"""
        if len(self.defs_of(fi, alias)) != 1:
            return None
        for it, node in self._slice_checks(fi, st, within):
            if isinstance(it, ast.Name) and it.id == alias:
                return node
        return None

    def validated_parse(self, fi, n_name: str, st):
        """`try: int(prefix(N), base) except ValueError: raise/return` before ``st``: int() rejects a string containing NUL,
        and a slice cut short by the end of the buffer contains the sentinel, so a successful parse means N non-END characters"""
        cfg = get_cfg(fi)
        for tr in cfg.nodes:
            if not isinstance(tr, ast.Try) or tr.finalbody:
                continue
            hs = [h for h in tr.handlers if h.type is None or any(nm in unparse(h.type) for nm in ("ValueError", "Exception"))]
            if not hs or not all(h.body and isinstance(h.body[-1], (ast.Raise, ast.Return)) for h in tr.handlers):
                continue
            for s_ in tr.body:
                for c in self.calls(s_):
                    if not (isinstance(c.func, ast.Name) and c.func.id == "int" and c.args):
                        continue
                    src_ = self.prefix_len_name(c.args[0], fi, s_)
                    if src_ is None or src_[0] != n_name:
                        continue
                    origin = src_[1] if src_[1] is not None else s_
                    if cfg.dominates(s_, st) and s_ is not st and not any(st in self.reach(cfg, ("H", h), None) for h in tr.handlers) and not self.intervening(cfg, origin, st, self.killers(fi, {n_name})):
                        return tr
        return None

    def validated(self, fi, n_name: str, st, within=None):
        r = self.hex_loop(fi, n_name, st, within) or self.validated_slice(fi, n_name, st, within)
        if r is None and within is None:
            r = self.validated_parse(fi, n_name, st)
        return r

    def validating_loop(self, fi, L: ast.For, within=None) -> bool:
        k = L.target.id
        if any(self.stmt_may_advance(s, fi) for s in ast.walk(L) if isinstance(s, ast.stmt) and s is not L):
            return False
        for s in L.body:
            if isinstance(s, ast.If) and s.body and isinstance(s.body[-1], (ast.Raise, ast.Return)) and not s.orelse:
                for off, cs, names, o in self.test_facts(s.test, False, fi, s):
                    if off == k and not cs.has(END) and (within is None or cs.subset_of(within)):
                        return True
        return False


def get_e9(corpus: Corpus) -> E9:
    return corpus.cache("c07-e9", lambda: E9(corpus))


# ---------------------------------------------------------------------------
# R2 termination

# Loops whose progress needs a relational argument the character facts do not carry; keyed by
# (function, loop test).  Each is still required to have a may-advance call on every cyclic path.
ASSUMED_LOOPS = {
    ("_scan_flow_scalar", ("peek(0) != 'peek(0)'",)): (
        "_scan_flow_scalar_non_spaces returns only with the cursor on a quote or on END/space/tab/line break; while the "
        "guard holds it is the latter, and _scan_flow_scalar_spaces then consumes >= 1 blank or a line break, or raises at END"
    ),
    ("_scan_block_scalar", (".column == 'v'", "peek(0) notin '\\x00'")): (
        "after the counting loop and forward(length) the cursor is on END or a line break; on a line break _scan_line_break "
        "advances; on END nothing moves and the re-test `peek() != END` leaves through `break`"
    ),
}


def _loops(fi: FunctionInfo):
    seen: Counter = Counter()
    for n in sorted((n for n in fi.local_nodes() if isinstance(n, (ast.While, ast.For))), key=lambda n: (n.lineno, n.col_offset)):
        text = f"while {unparse(n.test)}" if isinstance(n, ast.While) else f"for {unparse(n.target)} in {short(n.iter, 50)}"
        seen[text] += 1
        yield n, text + (f" #{seen[text]}" if seen[text] > 1 else "")


def _in_loop(w, st) -> bool:
    return any(st is x for x in ast.walk(w))


def loop_verdict(e9: E9, fi: FunctionInfo, w: ast.While):
    """('proved'|'assumed'|'broken'|'unknown', explanation)"""
    cfg = get_cfg(fi)
    adv = e9.def_adv(fi)
    inside = [s for s in ast.walk(w) if isinstance(s, ast.stmt) and s is not w]
    progress: dict = {}
    for n in adv:
        st = n[1] if isinstance(n, tuple) else n
        if _in_loop(w, st):
            progress[n] = "advance"
    assigned_in_loop: Counter = Counter()
    for s in inside:
        for nm in _assigned(s):
            assigned_in_loop[nm] += 1
    head_exprs = [w.test] + (_header(w.body[0]) if w.body else [])
    peeked = set()
    for h in head_exprs:
        for c in [h] + list(walk_local(h)):
            if isinstance(c, ast.Call) and e9.classify(c, fi)[0] == "peek" and _offarg(c) is not None:
                peeked |= _names(_offarg(c))
        if fi.cls is not None and fi.cls.fq == e9.sb.fq:
            for c in [h] + list(walk_local(h)):
                if isinstance(c, ast.Subscript) and unparse(c.value) == "self._buffer":  # the stream's own look-ahead read
                    peeked |= _names(c.slice) - {"self"}
    for s in inside:
        if isinstance(s, ast.AugAssign) and isinstance(s.target, ast.Name) and isinstance(s.value, ast.Constant) and isinstance(s.value.value, int) and s.value.value >= 1:
            k = s.target.id
            only_aug = all(isinstance(x, ast.AugAssign) and isinstance(x.op, type(s.op)) for x in inside if k in _assigned(x))
            if isinstance(s.op, ast.Add) and only_aug and k in peeked:
                progress[s] = "counter"  # peek(k) is read every iteration: bounded by the buffer
            if isinstance(s.op, ast.Sub) and only_aug and isinstance(w.test, ast.Name) and w.test.id == k:
                progress[s] = "counter"
    t, pol = w.test, True
    while isinstance(t, ast.UnaryOp) and isinstance(t.op, ast.Not):
        t, pol = t.operand, not pol
    if isinstance(t, ast.Name):
        for s in inside:
            if isinstance(s, ast.Assign) and len(s.targets) == 1 and isinstance(s.targets[0], ast.Name) and s.targets[0].id == t.id and isinstance(s.value, ast.Constant) and bool(s.value.value) != pol:
                progress[s] = "exit flag"
    start = ("T", w)
    body_ids = {id(x) for b in w.body for x in ast.walk(b)}

    def outside(n) -> bool:  # a cyclic path of *this* loop never leaves its body
        st = n[1] if isinstance(n, tuple) else n
        return st is not w and id(st) not in body_ids

    if not cfg.paths_avoiding(start, w, lambda n: n in progress or outside(n)):
        kinds = sorted(set(progress.values()))
        return "proved", "every cyclic path passes: " + ", ".join(kinds)
    # weak form: may-advance
    weak = dict(progress)
    for s in inside:
        if not e9.stmt_may_advance(s, fi):
            continue
        if isinstance(s, ast.If):
            tt, p2 = s.test, True
            while isinstance(tt, ast.UnaryOp) and isinstance(tt.op, ast.Not):
                tt, p2 = tt.operand, not p2
            if isinstance(tt, ast.Call):
                k, g_ = e9.classify(tt, fi)
                if k == "func" and e9.falsy_noadv(g_):
                    weak[("T" if p2 else "F", s)] = "may advance"  # only the truthy outcome can have moved
                    continue
        if e9.surely_idle_for_some_char(s, fi):
            continue  # for some character the facts allow here, the callee provably does not move
        weak[s] = "may advance"
    if cfg.paths_avoiding(start, w, lambda n: n in weak or outside(n)):
        return "broken", "a cyclic path neither moves the cursor, nor a look-ahead counter, nor sets the exit flag"
    side = Side(fi, False)
    sig = tuple(sorted(_fmt(side._guard(c)) for c in ast.walk(w.test) if isinstance(c, ast.Compare) and len(c.ops) == 1))
    reason = ASSUMED_LOOPS.get((fi.qualname, sig))
    if reason:
        return "assumed", reason + " (weak form checked: every cyclic path contains a may-advance call)"
    return "unknown", "every cyclic path may advance, but none of the progress arguments proves that it must"


@rule("C07.R2")
def r2_termination(corpus: Corpus, rep: Report, tier: str):
    rep.rule("C07.R2", "every loop of parsers/options.py terminates: each cyclic path strictly advances the cursor, a look-ahead counter or the exit flag")
    m = optmod(corpus)
    e9 = get_e9(corpus)
    for fi in m.functions.values():
        if fi.is_lambda:
            continue
        for w, text in _loops(fi):
            k = f"{fi.fq}|{text}"
            site = m.site(w)
            if isinstance(w, ast.For):
                it = w.iter
                if isinstance(it, ast.Call) and dotted(it.func) == "range":
                    rep.ok("C07.R2", k, site, "bounded: range()")
                elif isinstance(it, ast.Call) and isinstance(it.func, ast.Name) and it.func.id in m.functions and m.functions[it.func.id].is_generator():
                    rep.ok("C07.R2", k, site, f"delegated: the generator {it.func.id} ends iff its own loops do (checked here)")
                elif isinstance(it, (ast.Tuple, ast.List, ast.Constant)) or (isinstance(it, ast.Call) and e9.classify(it, fi)[0] == "prefix"):
                    rep.ok("C07.R2", k, site, "bounded: a literal / a slice of the buffer")
                elif isinstance(it, ast.Name) and it.id not in fi.params and all(
                    isinstance(d, (ast.Assign, ast.AnnAssign)) and (isinstance(d.value, (ast.List, ast.Tuple, ast.Constant, ast.ListComp, ast.JoinedStr)) or (isinstance(d.value, ast.Call) and e9.classify(d.value, fi)[0] in ("prefix", "neutral") and not (isinstance(d.value.func, ast.Name) and d.value.func.id in m.functions)))
                    for d in e9.defs_of(fi, it.id)
                ) and e9.defs_of(fi, it.id):
                    rep.ok("C07.R2", k, site, f"bounded: {it.id} is a finite local value (string / list), not a generator of the module")
                else:
                    rep.error("C07.R2", f"{site} for-loop over {short(it, 40)}: iteration source not understood")
                continue
            status, why = loop_verdict(e9, fi, w)
            if status == "proved":
                rep.ok("C07.R2", k, site, why)
            elif status == "assumed":
                rep.assumed("C07.R2", k, site, why)
            elif status == "broken":
                rep.violation("C07.R2", k, site, f"loop may not terminate: {why}")
            else:
                rep.error("C07.R2", f"{site} {k}: {why}")
    rep.expect_min("C07.R2", 12, "loops of the option tokenizer")


# ---------------------------------------------------------------------------
# R3 in-bounds


def _fact_text(facts: dict) -> str:
    return "; ".join(f"peek({k}) in {v!r}" for k, v in sorted(facts.items())) or "nothing known about the cursor"


@rule("C07.R3")
def r3_in_bounds(corpus: Corpus, rep: Report, tier: str):
    rep.rule("C07.R3", "no forward()/peek(k) steps over the END sentinel: every advance is dominated by character facts that exclude END")
    m = optmod(corpus)
    e9 = get_e9(corpus)
    for fi in m.functions.values():
        if fi.is_lambda or (fi.cls is not None and fi.cls.fq == e9.sb.fq):
            continue
        seen: Counter = Counter()
        calls = sorted((c for c in fi.local_nodes() if isinstance(c, ast.Call)), key=lambda c: (c.lineno, c.col_offset))
        for call in calls:
            kind, pol_ = e9.classify(call, fi)
            if kind == "run":
                # the stream's own run counter: it stops at the sentinel only if the set says so
                k = f"{fi.fq}|{unparse(call)}"
                seen[k] += 1
                k += f" #{seen[k]}" if seen[k] > 1 else ""
                why = e9.run_in_bounds(call, fi)
                if why is None:
                    rep.error("C07.R3", f"{m.site(call)} {unparse(call)}: character set argument not a constant")
                elif why[0]:
                    rep.ok("C07.R3", k, m.site(call), why[1])
                else:
                    rep.violation("C07.R3", k, m.site(call), f"{unparse(call)}: {why[1]}; the count runs over the end-of-buffer sentinel (IndexError out of options_to_items)")
                continue
            if kind not in ("forward", "peek"):
                continue
            a = _offarg(call)
            if kind == "peek" and (a is None or (isinstance(a, ast.Constant) and a.value == 0)):
                continue
            cfg = get_cfg(fi)
            st = cfg.stmt_of(call)
            facts = e9.facts_at(call, fi)
            text = f"{fi.fq}|{unparse(call)}|{_fact_text(facts)}"
            seen[text] += 1
            k = text + (f" #{seen[text]}" if seen[text] > 1 else "")
            site = m.site(call)
            what = "forward" if kind == "forward" else "look-ahead"
            if isinstance(a, ast.Name):
                # a local that just holds a constant / conditional offset computed at the same cursor position
                ds = e9.reaching(fi, a.id, st)
                if len(ds) == 1 and isinstance(ds[0], ast.Assign) and len(ds[0].targets) == 1 and isinstance(ds[0].value, (ast.IfExp, ast.Constant)) and e9.value_min(ds[0].value) is not None:
                    if not e9.intervening(cfg, ds[0], st, e9.killers(fi)):
                        a = ds[0].value
                elif len(ds) == 1 and isinstance(ds[0], ast.Assign) and len(ds[0].targets) == 1 and isinstance(ds[0].value, ast.Call) and e9.classify(ds[0].value, fi)[0] == "run":
                    if not e9.intervening(cfg, ds[0], st, e9.killers(fi)):
                        a = ds[0].value  # the run was measured at this very cursor position
            if isinstance(a, ast.Call) and e9.classify(a, fi)[0] == "run" and kind in ("forward", "peek"):
                why = e9.run_in_bounds(a, fi)
                if why is None:
                    rep.error("C07.R3", f"{site} {unparse(call)}: character set of the run not a constant")
                elif why[0]:
                    rep.ok("C07.R3", k, site, "J3: " + why[1])
                else:
                    rep.violation("C07.R3", k, site, f"{unparse(call)}: {why[1]}; the {what} can pass the END sentinel (IndexError out of options_to_items)")
                continue
            if isinstance(a, ast.IfExp) and all(isinstance(x, ast.Constant) and isinstance(x.value, int) and not isinstance(x.value, bool) for x, _ in e9.offset_arms(a)):
                # a conditional-expression offset is a branch: judge every arm under its condition
                problems = []
                for arm, conds in e9.offset_arms(a):
                    af = dict(facts)
                    for t, pol in conds:
                        for off, cs, names, o in e9.test_facts(t, pol, fi, st):
                            af[off] = af.get(off, TOP).meet(cs)
                    bad = [j for j in range(arm.value) if af.get(str(j), TOP).has(END)]
                    if arm.value < 0 or bad:
                        problems.append(f"arm {arm.value} (when {' and '.join(('' if p else 'not ') + unparse(t) for t, p in conds)}): END not excluded at offset {bad[0] if bad else 0} ({_fact_text(af)})")
                if problems:
                    rep.violation("C07.R3", k, site, f"{unparse(call)} may step over the end-of-buffer sentinel: " + "; ".join(problems) + "; the next peek() then raises IndexError out of options_to_items")
                else:
                    rep.ok("C07.R3", k, site, "J1/J4 per arm of the conditional offset")
                continue
            if a is None or (isinstance(a, ast.Constant) and isinstance(a.value, int)):
                n = 1 if a is None else a.value
                bad = [j for j in range(n) if facts.get(str(j), TOP).has(END)]
                if n < 0:
                    rep.violation("C07.R3", k, site, "negative offset")
                elif not bad:
                    rep.ok("C07.R3", k, site, f"J1/J2/J4/J6: {_fact_text(facts)}")
                else:
                    rep.violation(
                        "C07.R3",
                        k,
                        site,
                        f"{unparse(call)} may step over the end-of-buffer sentinel: nothing on the way here excludes END at offset {bad[0]} ({_fact_text(facts)}); "
                        "the next peek() then raises IndexError out of options_to_items",
                    )
                continue
            base, plus = a, 0
            if isinstance(a, ast.BinOp) and isinstance(a.op, ast.Add) and isinstance(a.right, ast.Constant) and a.right.value == 1 and kind == "peek":
                base, plus = a.left, 1
            if not isinstance(base, ast.Name):
                rep.error("C07.R3", f"{site} {unparse(call)}: offset expression not understood")
                continue
            nm = base.id
            loop = next((L for L in ast.walk(fi.node) if isinstance(L, ast.For) and isinstance(L.target, ast.Name) and L.target.id == nm and any(call is x for x in ast.walk(L))), None)
            if loop is not None and plus == 0 and kind == "peek":
                if e9.validating_loop(fi, loop):
                    rep.ok("C07.R3", k, site, "J5: the loop leaves at the first character outside its (END-free) set, so offset k is read only after k such characters")
                else:
                    rep.violation("C07.R3", k, site, f"{unparse(call)} inside `for {nm} in range(...)`: the loop does not stop at the first character outside an END-free set, so the look-ahead can run past the sentinel (IndexError)")
                continue
            if plus == 0 and e9.validated(fi, nm, st) is not None:
                rep.ok("C07.R3", k, site, f"J5: a validation of the next {nm} characters against an END-free set precedes (loop over peek(k), or any()/all() over prefix({nm}))")
                continue
            ok, why = e9.counter_ok(fi, nm, st)
            if ok and plus:
                f = facts.get(nm, TOP)
                if f.has(END):
                    ok, why = False, f"peek({nm}) may be END when peek({nm} + 1) is read"
                else:
                    why = f"J4: peek({nm}) in {f!r}; " + why
            if ok:
                rep.ok("C07.R3", k, site, ("J3: " if not plus else "") + why)
            elif "not a look-ahead counter" in why and (e9.sign_info(fi, nm, st)[0] or 0) < 1 and not any(isinstance(L, ast.For) and any(isinstance(c, ast.Call) and e9.classify(c, fi)[0] == "peek" for c in ast.walk(L)) for L in ast.walk(fi.node)):
                # the offset is computed some other way and nothing in the function looks like the validation idiom
                rep.error("C07.R3", f"{site} {unparse(call)}: {why}; no counting or validating loop recognised - idiom outside the analysed subset")
            else:
                rep.violation("C07.R3", k, site, f"{unparse(call)} is not covered by a look-ahead invariant: {why}; the {what} can pass the END sentinel (IndexError out of options_to_items)")
    # StreamBuffer.forward: the one read behind the cursor
    fw = m.func("StreamBuffer.forward")
    cfg = get_cfg(fw)
    incs = [s for s in cfg.nodes if isinstance(s, ast.AugAssign) and unparse(s.target) == "self._index"]
    def rel_offset(n):
        """offset of a look-ahead inside forward() relative to self._index: a buffer subscript or self.peek(k)"""
        if isinstance(n, ast.Subscript):
            sl = n.slice
            if unparse(sl) == "self._index":
                return 0
            if isinstance(sl, ast.BinOp) and isinstance(sl.op, (ast.Add, ast.Sub)):
                base, c = (sl.left, sl.right) if unparse(sl.left) == "self._index" else (sl.right, sl.left) if isinstance(sl.op, ast.Add) else (None, None)
                if base is not None and unparse(base) == "self._index" and isinstance(c, ast.Constant) and isinstance(c.value, int):
                    return c.value if isinstance(sl.op, ast.Add) else -c.value
            return None
        a_ = _offarg(n)
        return 0 if a_ is None else a_.value if isinstance(a_, ast.Constant) and isinstance(a_.value, int) else None

    reads = [n for n in fw.local_nodes() if isinstance(n, ast.Subscript) and isinstance(n.ctx, ast.Load) and unparse(n.value) == "self._buffer"]
    reads += [n for n in fw.local_nodes() if isinstance(n, ast.Call) and isinstance(n.func, ast.Attribute) and n.func.attr == "peek" and unparse(n.func.value) == "self"]
    if not incs or not reads:
        raise Unsupported("StreamBuffer.forward: cursor increment / buffer reads not found")
    seen_rd: Counter = Counter()
    for rd in sorted(reads, key=lambda n: (n.lineno, n.col_offset)):
        st = cfg.stmt_of(rd)
        after = any(cfg.dominates(i, st) for i in incs)
        off = rel_offset(rd)
        k = f"{fw.fq}|{unparse(rd)} {'after the increment' if after else 'at the cursor'}"
        seen_rd[k] += 1
        k += f" #{seen_rd[k]}" if seen_rd[k] > 1 else ""
        if off is None:
            rep.error("C07.R3", f"{m.site(rd)} forward(): look-ahead `{unparse(rd)}` has an offset the rule cannot read")
        elif not after and 0 <= off <= 1:
            rep.ok("C07.R3", k, m.site(rd), "read at the cursor (callers keep it on a character before the sentinel)")
        elif after and -1 <= off <= 0:
            rep.ok("C07.R3", k, m.site(rd), "the consumed character is never the sentinel (all forward() sites above), so the next index is at most the sentinel's")
        else:
            rep.violation(
                "C07.R3",
                k,
                m.site(rd),
                f"forward() looks at offset {off:+d} from the {'already advanced ' if after else ''}index: after consuming the last character of the text the index is the sentinel's, "
                "so this read is outside the buffer (IndexError out of options_to_items); it also judges CR LF by the wrong character",
            )
    lp = [w for w in fw.local_nodes() if isinstance(w, ast.While)]
    k = f"{fw.fq}|one cursor step per count"
    if len(lp) == 1 and len([i for i in incs if _in_loop(lp[0], i)]) == 1 and isinstance(incs[0].value, ast.Constant) and incs[0].value.value == 1 and incs[0] in lp[0].body:
        rep.ok("C07.R3", k, m.site(lp[0]))
    else:
        rep.violation("C07.R3", k, fw.site(), "forward(n) no longer moves the cursor by exactly one character per counted step: the END-free look-ahead counts do not bound the cursor any more")
    rep.expect_min("C07.R3", 20, "forward()/peek(k) sites")


# ---------------------------------------------------------------------------
# the key / colon / value protocol between _tokenize and _to_tokens


def _honours_is_key(f: FunctionInfo, m: Module, depth: int = 0) -> bool:
    """every return of ``f`` is a KeyToken exactly when its parameter is_key is true (else a ValueToken)"""
    if "is_key" not in f.params or depth > 2:
        return False
    cfg = get_cfg(f)
    rets = [r for r in f.local_nodes() if isinstance(r, ast.Return)]
    if not rets:
        return False

    def kind(e, pol_known):
        """'key' / 'value' / 'by-flag' / None for a returned expression"""
        if isinstance(e, ast.IfExp) and isinstance(e.test, ast.Name) and e.test.id == "is_key":
            return "by-flag" if kind(e.body, None) == "key" and kind(e.orelse, None) == "value" else None
        if isinstance(e, ast.Call) and isinstance(e.func, ast.Name):
            if e.func.id == "KeyToken":
                return "key"
            if e.func.id == "ValueToken":
                return "value"
            h = m.functions.get(e.func.id)
            if h is not None and "is_key" in h.params and _honours_is_key(h, m, depth + 1):
                i = h.params.index("is_key")
                a = e.args[i] if i < len(e.args) else next((k.value for k in e.keywords if k.arg == "is_key"), None)
                if isinstance(a, ast.Name) and a.id == "is_key":
                    return "by-flag"
        return None

    for r in rets:
        k = kind(r.value, None)
        if k == "by-flag":
            continue
        facts_ = [(unparse(t), pol) for t, pol in cfg.guards(cfg.stmt_of(r))]
        if k == "key" and ("is_key", True) in facts_:
            continue
        if k == "value" and (("is_key", False) in facts_):
            continue
        return False
    return True


def _token_kind(e, fi: FunctionInfo, m: Module) -> str:
    """'key' | 'value' | 'colon' | 'unknown' for an expression yielded by _tokenize"""
    if not (isinstance(e, ast.Call) and isinstance(e.func, ast.Name)):
        return "unknown"
    if e.func.id in ("KeyToken", "ValueToken", "ColonToken"):
        return {"KeyToken": "key", "ValueToken": "value", "ColonToken": "colon"}[e.func.id]
    callee = m.functions.get(e.func.id)
    if callee is None or callee.is_lambda:
        return "unknown"
    if "is_key" in callee.params:
        if not _honours_is_key(callee, m):
            return "unknown"
        i = callee.params.index("is_key")
        a = e.args[i] if i < len(e.args) else next((k.value for k in e.keywords if k.arg == "is_key"), None)
        if a is None:
            d, pos = callee.node.args.defaults, callee.node.args.args
            j = i - (len(pos) - len(d))
            a = d[j] if 0 <= j < len(d) else None
        if isinstance(a, ast.Constant) and isinstance(a.value, bool):
            return "key" if a.value else "value"
        return "unknown"
    ann = unparse(callee.node.returns) if callee.node.returns is not None else ""
    return {"KeyToken": "key", "ValueToken": "value", "ColonToken": "colon"}.get(ann.strip("'\""), "unknown")


def protocol_proof(corpus: Corpus) -> tuple[bool, str]:
    """Is the invariant 'a value token is only yielded after its key token, and the pending key is reset only after its value'
    established by _tokenize / _to_tokens?  (ok, explanation naming the invariant or the path that breaks it)"""
    cached = corpus._cache.get("c07-protocol")
    if cached is not None:
        return cached
    m = optmod(corpus)
    tok, tt = m.func("_tokenize"), m.func("_to_tokens")
    res = _protocol_proof(m, tok, tt)
    corpus._cache["c07-protocol"] = res
    return res


def _protocol_proof(m: Module, tok: FunctionInfo, tt: FunctionInfo) -> tuple[bool, str]:
    # (P1) producer: between two value tokens (and before the first) _tokenize yields a key token
    cfg = get_cfg(tok)
    yields = [s for s in cfg.nodes if isinstance(s, ast.Expr) and isinstance(s.value, (ast.Yield, ast.YieldFrom))]
    kinds = {}
    for y in yields:
        if isinstance(y.value, ast.YieldFrom) or y.value.value is None:
            return False, f"_tokenize yields something that is not a single token at line {y.lineno}"
        kinds[y] = _token_kind(y.value.value, tok, m)
        if kinds[y] == "unknown":
            return False, f"_tokenize: the kind of token yielded by `{short(y.value.value, 50)}` cannot be determined"
    values = [y for y in yields if kinds[y] == "value"]
    keys = {id(y) for y in yields if kinds[y] == "key"}
    if not values or not keys:
        return False, "_tokenize: key / value yields not found"
    for start in [ENTRY] + values:
        bad = _reach1(cfg, start, values, lambda n: id(n) in keys)
        if bad:
            frm = "the start of the stream" if start == ENTRY else f"the value yielded at line {start.lineno}"
            return False, f"_tokenize can yield the value at line {bad[0].lineno} after {frm} without a key token in between"
    # (P2) consumer: the pending key is set on every key token, reset only right after a value token was paired, untouched otherwise
    cfg = get_cfg(tt)
    kvs = [n.target.id for n in tt.local_nodes() if isinstance(n, ast.AnnAssign) and isinstance(n.target, ast.Name) and "KeyToken" in unparse(n.annotation)]
    loops = [n for n in tt.local_nodes() if isinstance(n, ast.For) and isinstance(n.iter, ast.Call) and dotted(n.iter.func) == "_tokenize" and isinstance(n.target, ast.Name)]
    if len(kvs) != 1 or len(loops) != 1:
        return False, "_to_tokens: pending-key variable / loop over _tokenize not found"
    kv, loop, tv = kvs[0], loops[0], loops[0].target.id
    in_loop = {id(x) for b in loop.body for x in ast.walk(b)}

    def branch_of(st):
        """which isinstance(token, X) outcomes dominate ``st``: {'key': bool, 'value': bool}"""
        out = {}
        for t, pol in cfg.guards(st):
            if isinstance(t, ast.Call) and dotted(t.func) == "isinstance" and len(t.args) == 2 and unparse(t.args[0]) == tv:
                nm = unparse(t.args[1])
                if nm in ("KeyToken", "ValueToken"):
                    out["key" if nm == "KeyToken" else "value"] = pol
        return out

    for s in cfg.nodes:
        if not (isinstance(s, (ast.Assign, ast.AnnAssign)) and kv in _assigned(s)):
            continue
        is_none = isinstance(s.value, ast.Constant) and s.value.value is None
        if id(s) not in in_loop:
            if not is_none and cfg.is_reachable(s) and any(id(x) in in_loop for x in cfg.reachable_from(s) if isinstance(x, ast.AST)):
                return False, f"_to_tokens sets {kv} before the loop to something else than None"
            continue
        br = branch_of(s)
        if is_none:
            if br.get("value") is not True:
                return False, f"_to_tokens resets {kv} at line {s.lineno} outside the value-token branch"
            # ... and only after the pair was yielded
            ys = [y for y in cfg.nodes if isinstance(y, ast.Expr) and isinstance(y.value, ast.Yield) and y.value.value is not None and kv in {n.id for n in ast.walk(y.value.value) if isinstance(n, ast.Name)} and branch_of(y).get("value") is True]
            if not any(cfg.dominates(y, s) for y in ys):
                return False, f"_to_tokens resets {kv} at line {s.lineno} before the (key, value) pair is yielded"
        else:
            if not (br.get("key") is True and unparse(s.value) == tv):
                return False, f"_to_tokens assigns {kv} at line {s.lineno} from something else than a key token"
    # every key token reaches the assignment: from the T edge of isinstance(token, KeyToken) no path to the loop head avoids it
    key_tests = [s for s in cfg.nodes if isinstance(s, ast.If) and id(s) in in_loop and unparse(s.test) == f"isinstance({tv}, KeyToken)"]
    sets = [s for s in cfg.nodes if isinstance(s, ast.Assign) and id(s) in in_loop and kv in _assigned(s) and unparse(s.value) == tv]
    if len(key_tests) != 1 or not sets:
        return False, "_to_tokens: the key-token branch was not found"
    if _reach1(cfg, ("T", key_tests[0]), [loop], lambda n: any(n is s for s in sets)):
        return False, f"_to_tokens can process a key token without storing it in {kv}"
    return True, (
        f"invariant: _tokenize yields every value token after a key token with only the colon in between (checked on its CFG: no path from the start "
        f"or from a value yield to a value yield avoids a key yield; is_key decides the token class); _to_tokens stores every key token in {kv}, "
        f"leaves it alone for other tokens and resets it only after the (key, value) pair was yielded - so {kv} is not None whenever a value token arrives"
    )


# ---------------------------------------------------------------------------
# R6 state machine around the scanners: dispatch sets, key/value roles, pair assembly


def yaml_dispatch(corpus: Corpus) -> dict:
    """{'block': chars, 'flow': chars}: the characters on which PyYAML's fetch_more_tokens starts a block / quoted scalar"""
    sib = corpus.sibling("yaml/scanner.py")
    f = sib.func("Scanner.fetch_more_tokens")
    kinds = {"fetch_literal": "block", "fetch_folded": "block", "fetch_single": "flow", "fetch_double": "flow"}
    out: dict = {"block": set(), "flow": set()}
    for st in f.node.body:
        if not (isinstance(st, ast.If) and len(st.body) == 1 and isinstance(st.body[0], ast.Return) and isinstance(st.body[0].value, ast.Call)):
            continue
        name = (dotted(st.body[0].value.func) or "").replace("self.", "")
        if name not in kinds:
            continue
        cmp_ = next((c for c in ast.walk(st.test) if isinstance(c, ast.Compare) and len(c.ops) == 1 and isinstance(c.ops[0], ast.Eq) and isinstance(c.comparators[0], ast.Constant)), None)
        if cmp_ is None:
            raise Unsupported("fetch_more_tokens: dispatch test not understood")
        ch = cmp_.comparators[0].value
        # the style handed on must be that very character
        g = sib.func(f"Scanner.{name}")
        styles = [kw.value.value for c in ast.walk(g.node) if isinstance(c, ast.Call) for kw in c.keywords if kw.arg == "style" and isinstance(kw.value, ast.Constant)]
        if styles != [ch]:
            raise Unsupported(f"PyYAML {name}: style {styles} does not match its dispatch character {ch!r}")
        out[kinds[name]].add(ch)
    if len(out["block"]) != 2 or len(out["flow"]) != 2:
        raise Unsupported("fetch_more_tokens: block/quoted scalar dispatch not found")
    return {k: frozenset(v) for k, v in out.items()}


def yaml_key_capable(corpus: Corpus) -> dict:
    """{'block': bool, 'flow': bool, 'plain': bool}: may a scalar of that kind be a simple key in PyYAML?  Read from the scanner:
    fetch_flow_scalar / fetch_plain call save_possible_simple_key(), fetch_block_scalar calls remove_possible_simple_key().
    At the column of the enclosing block mapping a possible simple key is *required* (save_possible_simple_key: `required =
    not self.flow_level and self.indent == self.column`), so such a scalar there is the next key or an error, never the value;
    a scalar that cannot be a key is the value wherever it stands."""
    sib = corpus.sibling("yaml/scanner.py")
    out = {}
    for kind, fn in (("block", "Scanner.fetch_block_scalar"), ("flow", "Scanner.fetch_flow_scalar"), ("plain", "Scanner.fetch_plain")):
        f = sib.func(fn)
        names = {(dotted(c.func) or "") for c in f.local_nodes() if isinstance(c, ast.Call)}
        saves, removes = "self.save_possible_simple_key" in names, "self.remove_possible_simple_key" in names
        if saves == removes:
            raise Unsupported(f"PyYAML {fn}: simple-key handling not understood")
        out[kind] = saves
    spk = sib.func("Scanner.save_possible_simple_key")
    if not any(isinstance(n, ast.Compare) and "self.indent" in unparse(n) and "self.column" in unparse(n) for n in spk.local_nodes()):
        raise Unsupported("PyYAML save_possible_simple_key: the 'required at the mapping's column' test was not found")
    return out


def _eval3(e, col0: bool, ch: str, is_ch, is_column, consts):
    """three-valued evaluation (True / False / None) of a dispatch test under 'the cursor is [not] at column 0 on character ch'"""
    if isinstance(e, ast.UnaryOp) and isinstance(e.op, ast.Not):
        v = _eval3(e.operand, col0, ch, is_ch, is_column, consts)
        return None if v is None else not v
    if isinstance(e, ast.BoolOp):
        vals = [_eval3(v, col0, ch, is_ch, is_column, consts) for v in e.values]
        if isinstance(e.op, ast.And):
            return False if any(v is False for v in vals) else None if any(v is None for v in vals) else True
        return True if any(v is True for v in vals) else None if any(v is None for v in vals) else False
    if isinstance(e, ast.Compare) and len(e.ops) == 1:
        left, op, right = e.left, e.ops[0], e.comparators[0]
        if is_column(left) and col0:
            try:
                c = consts(right)
            except Unsupported:
                return None
            if isinstance(c, int):
                return {ast.Eq: 0 == c, ast.NotEq: 0 != c, ast.Lt: 0 < c, ast.LtE: 0 <= c, ast.Gt: 0 > c, ast.GtE: 0 >= c}.get(type(op))
            return None
        if is_ch(left) is not None:
            ch = is_ch(left)
            try:
                c = consts(right)
            except Unsupported:
                return None
            if isinstance(op, (ast.In, ast.NotIn)):
                cs = as_charset(c)
                if cs is None:
                    return None
                return (ch in cs) if isinstance(op, ast.In) else (ch not in cs)
            if isinstance(op, (ast.Eq, ast.NotEq)) and isinstance(c, str):
                return (ch == c) if isinstance(op, ast.Eq) else (ch != c)
        return None
    if is_column(e) and col0:
        return False  # `if stream.column:` at column 0
    if isinstance(e, ast.Constant):
        return bool(e.value)
    if isinstance(e, ast.Name) and is_ch(e) is None:
        d = getattr(is_column, "resolve", lambda _n: None)(e)  # a local holding a test made at this cursor position
        if d is not None:
            return _eval3(d, col0, ch, is_ch, is_column, consts)
    return None


def _reach1(cfg, start, stops, avoid) -> list:
    """stop nodes reachable from ``start`` over >= 1 edge without passing an ``avoid`` node"""
    seen: set = set()
    hit = []
    work = list(cfg.succ.get(start, []))
    while work:
        n = work.pop()
        if _nid(n) in seen:
            continue
        seen.add(_nid(n))
        if avoid(n):
            continue
        if any(n is s or n == s for s in stops):
            hit.append(n)
            continue
        work.extend(cfg.succ.get(n, []))
    return hit


@rule("C07.R6")
def r6_state_machine(corpus: Corpus, rep: Report, tier: str):
    rep.rule("C07.R6", "scalar dispatch sets and styles agree with PyYAML's fetch_more_tokens; key/value roles are not crossed; every key is emitted exactly once; pairs are (key.value, value.value or '')")
    m = optmod(corpus)
    e9 = get_e9(corpus)
    tok = m.func("_tokenize")
    cfg = get_cfg(tok)
    oracle = yaml_dispatch(corpus)
    rep.saw_sibling("yaml/scanner.py")
    kinds = {"_scan_block_scalar": "block", "_scan_flow_scalar": "flow"}
    # the colon: the forward() executed under the fact peek() == ':'
    colon = None
    for c in tok.local_nodes():
        if isinstance(c, ast.Call) and e9.classify(c, tok)[0] == "forward":
            f0 = e9.facts_at(c, tok).get("0", TOP)
            if not f0.neg and f0.chars == frozenset(":"):
                colon = cfg.stmt_of(c)
    if colon is None:
        raise Unsupported("_tokenize: the statement consuming ':' was not found")
    n_disp = 0
    seen: Counter = Counter()
    for call in sorted((c for c in tok.local_nodes() if isinstance(c, ast.Call) and isinstance(c.func, ast.Name) and c.func.id in m.functions), key=lambda c: (c.lineno, c.col_offset)):
        callee = m.functions[call.func.id]
        side = "value" if cfg.dominates(colon, cfg.stmt_of(call)) else "key"
        seen[(callee.name, side)] += 1
        tag = f"{tok.fq}|{side} {callee.name}" + (f" #{seen[(callee.name, side)]}" if seen[(callee.name, side)] > 1 else "")
        site = m.site(call)
        if callee.name in kinds:
            n_disp += 1
            want = oracle[kinds[callee.name]]
            f0 = e9.facts_at(call, tok).get("0", TOP)
            k = f"{tag}|dispatch set"
            if not f0.neg and f0.chars == want:
                rep.ok("C07.R6", k, site, f"called exactly on {''.join(sorted(want))!r}, as PyYAML")
            elif f0.is_top():
                rep.error("C07.R6", f"{site} {callee.name}: the characters it is dispatched on could not be determined")
            else:
                rep.violation("C07.R6", k, site, f"{callee.name} is dispatched on {f0!r}; PyYAML starts a {kinds[callee.name]} scalar on exactly {''.join(sorted(want))!r}: the other indicator is read as a plain scalar (or a foreign character as an indicator)")
            # the style argument is the dispatch character itself
            if "style" in callee.params:
                i = callee.params.index("style")
                a = call.args[i] if i < len(call.args) else next((kw.value for kw in call.keywords if kw.arg == "style"), None)
                while isinstance(a, ast.Call) and dotted(a.func) == "cast" and len(a.args) == 2:
                    a = a.args[1]
                k = f"{tag}|style is the dispatch character"
                tgt = e9.peek_target(a, tok, cfg.stmt_of(call)) if a is not None else None
                if tgt is not None and tgt[0] == "0" and (tgt[2] is None or not e9.intervening(cfg, tgt[2], cfg.stmt_of(call), e9.killers(tok))):
                    rep.ok("C07.R6", k, site)
                elif isinstance(a, ast.Constant):
                    rep.violation("C07.R6", k, site, f"style is the constant {a.value!r} while the scanner is entered on {''.join(sorted(want))!r}: the other style is scanned with the wrong folding/quoting rules")
                else:
                    rep.error("C07.R6", f"{site} {callee.name}: style argument {short(a, 30) if a is not None else '<missing>'} not understood")
        if "is_key" in callee.params:
            i = callee.params.index("is_key")
            a = call.args[i] if i < len(call.args) else next((kw.value for kw in call.keywords if kw.arg == "is_key"), None)
            if a is None:
                d = callee.node.args.defaults
                pos = callee.node.args.args
                j = i - (len(pos) - len(d))
                a = d[j] if 0 <= j < len(d) else None
            k = f"{tag}|is_key"
            if isinstance(a, ast.Constant) and isinstance(a.value, bool):
                if a.value == (side == "key"):
                    rep.ok("C07.R6", k, site)
                else:
                    rep.violation("C07.R6", k, site, f"{callee.name} on the {side} side of ':' is called with is_key={a.value}: a {side} is scanned/typed as the other role, so pairs are mis-assembled (and ': ' handling / line folding follow the wrong rules)")
            else:
                rep.error("C07.R6", f"{site} {callee.name}: is_key argument not a literal")
    if n_disp < 3:
        rep.error("C07.R6", f"expected the quoted-key, block-value and quoted-value dispatches in _tokenize, found {n_disp}")
    # which first characters start the *value* when the text after 'key:' continues at column 0 (the mapping's own column)?
    # PyYAML: a scalar that may be a simple key is, there, the next key; one that cannot (a block scalar header) is the value.
    capable = yaml_key_capable(corpus)
    cfg = get_cfg(tok)
    kind_of = {"_scan_block_scalar": "block", "_scan_flow_scalar": "flow", "_scan_plain_scalar": "plain"}
    probes = {"block": sorted(oracle["block"]), "flow": sorted(oracle["flow"]), "plain": ["a", "-", "0"]}

    env: dict = {}

    def is_ch(x):
        """the probe character of the look-ahead ``x`` reads (offset 0 = the first character of the would-be value)"""
        t_ = e9.peek_target(x, tok, st_) if isinstance(x, (ast.Name, ast.Call)) else None
        return env.get(t_[0]) if t_ is not None else None

    def is_column(x):
        return isinstance(x, ast.Attribute) and x.attr == "column" and e9.is_stream(x.value, tok)

    def resolve_local(nm):
        ds = e9.reaching(tok, nm.id, st_)
        if len(ds) == 1 and isinstance(ds[0], ast.Assign) and len(ds[0].targets) == 1 and isinstance(ds[0].targets[0], ast.Name) and not e9.intervening(cfg, ds[0], st_, e9.killers(tok)):
            return ds[0].value
        return None

    is_column.resolve = resolve_local
    seen_v: Counter = Counter()
    for call in sorted((c for c in tok.local_nodes() if isinstance(c, ast.Call) and isinstance(c.func, ast.Name) and c.func.id in kind_of), key=lambda c: (c.lineno, c.col_offset)):
        st_ = cfg.stmt_of(call)
        if not cfg.dominates(colon, st_):
            continue
        kd = kind_of[call.func.id]
        k = f"{tok.fq}|value continuing at column 0: {call.func.id}"
        seen_v[k] += 1
        k += f" #{seen_v[k]}" if seen_v[k] > 1 else ""
        # only tests made at this very cursor position count (earlier ones speak about consumed characters)
        guards = []
        for d_ in cfg.dom().get(st_, ()):
            if isinstance(d_, tuple) and d_[0] in ("T", "F") and isinstance(d_[1], (ast.If, ast.While)) and not e9.intervening(cfg, d_[1], st_, e9.killers(tok)):
                guards += split_facts(d_[1].test, d_[0] == "T")
        # PyYAML decides on the first character alone, so the obligation holds for every following character: probe the
        # characters the tests on the next offset mention, plus some they do not
        nexts = {" ", "\n", END, "-", "+", "2", "x", ":"}
        for t_, _ in guards:
            for cmp_ in ast.walk(t_):
                if isinstance(cmp_, ast.Compare) and len(cmp_.ops) == 1:
                    tg = e9.peek_target(cmp_.left, tok, st_) if isinstance(cmp_.left, (ast.Name, ast.Call)) else None
                    if tg is not None and tg[0] != "0":
                        try:
                            nexts |= set(as_charset(m.eval_const(cmp_.comparators[0])) or ())
                        except Unsupported:
                            pass
        verdicts = {}
        for c_ in probes[kd]:
            per_next = {}
            for n_ in sorted(nexts):
                env.clear()
                env.update({"0": c_, "1": n_})
                vals = [(_eval3(t_, True, c_, is_ch, is_column, m.eval_const), pol) for t_, pol in guards]
                per_next[n_] = "unreachable" if any(v is not None and v != pol for v, pol in vals) else "reached" if all(v is not None for v, _ in vals) else "unknown"
            kinds_ = set(per_next.values())
            if kinds_ == {"reached"} or kinds_ == {"unreachable"}:
                verdicts[c_] = kinds_.pop()
            elif "unknown" in kinds_:
                verdicts[c_] = "unknown"
            else:  # depends on the following character
                odd = sorted(n_ for n_, v in per_next.items() if v == ("unreachable" if not capable[kd] else "reached"))
                verdicts[c_ + odd[0]] = "unreachable" if not capable[kd] else "reached"
        want = "unreachable" if capable[kd] else "reached"
        wrong = sorted(c_ for c_, v in verdicts.items() if v not in (want, "unknown"))
        unknown = sorted(c_ for c_, v in verdicts.items() if v == "unknown")
        if wrong and capable[kd]:
            rep.violation("C07.R6", k, m.site(call), f"after 'key:' a {kd} scalar starting with {wrong!r} at column 0 is scanned as the value; PyYAML's scanner requires a possible simple key at the mapping's column (save_possible_simple_key), so it reads it as the next key: `a:` then `'b': c` gives [('a', ''), ('b', 'c')] in YAML")
        elif wrong:
            rep.violation("C07.R6", k, m.site(call), f"after 'key:' a block scalar header {wrong!r} (header character and, where it matters, the character after it) standing at column 0 does not reach {call.func.id}: it is taken for the next key (TokenizeError \"expected ':' after key\", or a wrong pair), where PyYAML - whose fetch_block_scalar can never be a simple key - reads it as the value ('a:' / '|' / ' x' gives [('a', 'x\\n')])")
        elif unknown:
            rep.error("C07.R6", f"{m.site(call)} {call.func.id}: cannot decide whether it is reached at column 0 for {unknown!r} (a dispatch test the rule cannot evaluate)")
        else:
            rep.ok("C07.R6", k, m.site(call), ("never the value at column 0 (a possible simple key is required there)" if capable[kd] else f"reached at column 0 for {''.join(probes[kd])!r} (cannot be a key)"))
    # -- _to_tokens: every key is emitted exactly once
    tt = m.func("_to_tokens")
    cfg = get_cfg(tt)
    keyvars = [n.target.id for n in tt.local_nodes() if isinstance(n, ast.AnnAssign) and isinstance(n.target, ast.Name) and "KeyToken" in unparse(n.annotation)]
    if len(keyvars) != 1:
        raise Unsupported("_to_tokens: the pending-key variable (annotated KeyToken | None) was not found")
    kv = keyvars[0]
    assigns = [s for s in cfg.nodes if isinstance(s, (ast.Assign, ast.AnnAssign)) and kv in _assigned(s)]
    live = [s for s in assigns if not (isinstance(s.value, ast.Constant) and s.value.value is None)]

    def yields_key(n) -> bool:
        return isinstance(n, ast.Expr) and isinstance(n.value, ast.Yield) and n.value.value is not None and any(isinstance(x, ast.Name) and x.id == kv for x in ast.walk(n.value.value))

    def none_edge(n) -> bool:  # branch outcomes that say "no key pending"
        if not (isinstance(n, tuple) and n[0] in ("T", "F") and isinstance(n[1], (ast.If, ast.While))):
            return False
        for t, pol in split_facts(n[1].test, n[0] == "T"):
            txt = unparse(t)
            if (txt == f"{kv} is None" and pol) or (txt in (f"{kv} is not None", kv) and not pol):
                return True
        return False

    yields = [s for s in cfg.nodes if yields_key(s)]
    if not live or not yields:
        raise Unsupported("_to_tokens: key assignment / yield not found")
    for a in live:
        k = f"{tt.fq}|{short(a, 40)} reaches a yield before it is overwritten or the generator ends"
        lost = _reach1(cfg, a, assigns + [EXIT], lambda n: yields_key(n) or none_edge(n))
        if lost:
            where = "the end of the generator" if any(x == EXIT for x in lost) else f"`{short(lost[0], 40)}`"
            rep.violation("C07.R6", k, m.site(a), f"a pending key can reach {where} without being yielded: a key without value (`a:` followed by another key, or at the end of the block) is dropped from the result, where YAML returns (key, '')")
        else:
            rep.ok("C07.R6", k, m.site(a))
    seen = Counter()
    for y in sorted(yields, key=lambda s: s.lineno):
        seen[unparse(y)] += 1
        k = f"{tt.fq}|{unparse(y)}" + (f" #{seen[unparse(y)]}" if seen[unparse(y)] > 1 else "") + " is followed by a re-assignment before the next yield"
        again = _reach1(cfg, y, yields, lambda n: (isinstance(n, ast.stmt) and kv in _assigned(n)) or none_edge(n))
        if again:
            rep.violation("C07.R6", k, m.site(y), f"after this yield the same key can be yielded again (`{short(again[0], 40)}`) without {kv} being re-assigned: a key with a value is reported a second time with ''")
        else:
            rep.ok("C07.R6", k, m.site(y))
    ok_, why_ = protocol_proof(corpus)
    k = f"{tt.fq}|a value token arrives only while a key is pending"
    if ok_:
        rep.ok("C07.R6", k, tt.site(), why_)
    else:
        # not a defect by itself while _to_tokens still answers that state with its TokenizeError; an assert there is then not discharged (C07.R1)
        rep.listed("C07.R6", k, tt.site(), "not established: " + why_)
    # -- options_to_items: (key.value, value.value if value is not None else "")
    oti = m.func("options_to_items")
    loops = [n for n in oti.local_nodes() if isinstance(n, (ast.For, ast.comprehension)) and isinstance(n.iter, ast.Call) and dotted(n.iter.func) == "_to_tokens"]
    if len(loops) != 1 or not (isinstance(loops[0].target, ast.Tuple) and len(loops[0].target.elts) == 2 and all(isinstance(e, ast.Name) for e in loops[0].target.elts)):
        raise Unsupported("options_to_items: iteration over _to_tokens with a (key, value) target not found")
    kn, vn = (e.id for e in loops[0].target.elts)
    loop0 = loops[0]
    k_seq = f"{oti.fq}|one pair per (key, value) token pair, in a sequence"
    # (a) the pairs are collected in a sequence: a mapping / set keyed by the key text collapses repeated keys and reorders them
    keyed = []
    for n in oti.local_nodes():
        if isinstance(n, (ast.Assign, ast.AugAssign)):
            for t in (n.targets if isinstance(n, ast.Assign) else [n.target]):
                if isinstance(t, ast.Subscript) and any(isinstance(x, ast.Name) and x.id == kn for x in ast.walk(t.slice)):
                    keyed.append((n, f"`{short(n, 60)}` stores the value under its key"))
        elif isinstance(n, (ast.DictComp, ast.SetComp)) and any(g_ is loop0 for g_ in n.generators):
            keyed.append((n, f"`{short(n, 60)}` builds a {'dict' if isinstance(n, ast.DictComp) else 'set'}"))
        elif isinstance(n, ast.Call) and isinstance(n.func, ast.Attribute) and n.func.attr in ("add", "update", "setdefault") and any(isinstance(x, ast.Name) and x.id in (kn, vn) for a_ in n.args for x in ast.walk(a_)):
            keyed.append((n, f"`{short(n, 60)}` feeds a set / mapping"))
        elif isinstance(n, ast.Call) and isinstance(n.func, ast.Name) and n.func.id in ("dict", "set", "frozenset") and any(isinstance(x, (ast.GeneratorExp, ast.ListComp)) and any(g_ is loop0 for g_ in x.generators) for x in n.args):
            keyed.append((n, f"`{short(n, 60)}` turns the pairs into a {n.func.id}"))
    if keyed:
        rep.violation(
            "C07.R6",
            k_seq,
            m.site(keyed[0][0]),
            f"{keyed[0][1]}: a repeated key collapses into one pair (with the last value at the position of the first occurrence), where YAML's event "
            "stream - and the documented (key, value) list - keeps every pair in order",
        )
    # (b) every iteration adds exactly one pair
    if isinstance(loop0, ast.For):
        cfg_o = get_cfg(oti)
        acc_names = set()
        for r_ in oti.local_nodes():
            if isinstance(r_, ast.Return) and r_.value is not None:
                comp_ = r_.value.elts[0] if isinstance(r_.value, ast.Tuple) and r_.value.elts else r_.value
                acc_names |= {x.id for x in ast.walk(comp_) if isinstance(x, ast.Name)}
        touches = lambda e_: any(isinstance(x, ast.Name) and x.id in (kn, vn) for x in ast.walk(e_))
        sinks = [st for st in cfg_o.nodes if isinstance(st, ast.stmt) and any(st is x for b_ in loop0.body for x in ast.walk(b_)) and any(
            isinstance(c, ast.Call) and isinstance(c.func, ast.Attribute) and c.func.attr in ("append", "extend", "insert")
            and ((isinstance(c.func.value, ast.Name) and c.func.value.id in acc_names) or any(touches(a_) for a_ in c.args))
            for h_ in _header(st) for c in [h_] + list(walk_local(h_)) if isinstance(c, ast.Call)
        )] + [st for st, _ in keyed if isinstance(st, ast.stmt)] + [
            st for st in cfg_o.nodes
            if isinstance(st, ast.AugAssign) and isinstance(st.op, ast.Add) and any(st is x for b_ in loop0.body for x in ast.walk(b_))
            and ((isinstance(st.target, ast.Name) and st.target.id in acc_names) or touches(st.value))
        ]
        per_iter = cfg_o.counts(("T", loop0), [loop0], lambda n: 1 if any(n is s_ for s_ in sinks) else 0).get(loop0, set())
        if not keyed:
            if per_iter == {1}:
                rep.ok("C07.R6", k_seq, m.site(loop0), "every path through the loop body appends exactly one pair to a list")
            elif not sinks:
                raise Unsupported("options_to_items: no statement in the loop over _to_tokens adds a pair to the result")
            else:
                rep.violation("C07.R6", k_seq, m.site(sinks[0]), f"an iteration over _to_tokens can add {sorted(per_iter)} pair(s) to the result (2 = two or more): pairs are dropped or duplicated relative to YAML's event stream")
    elif not keyed:
        if loop0.ifs:
            rep.violation("C07.R6", k_seq, m.site(loop0.ifs[0]), f"the comprehension over _to_tokens filters pairs (`if {short(loop0.ifs[0], 40)}`): dropped pairs are missing relative to YAML's event stream")
        else:
            rep.ok("C07.R6", k_seq, m.site(loop0.iter), "list comprehension without filter")
    # (c) what a pair is made of: (key.value, value.value if value is not None else "")
    pairs = []  # (first expr, second expr, site node)
    for t in oti.local_nodes():
        if isinstance(t, ast.Tuple) and isinstance(t.ctx, ast.Load) and len(t.elts) == 2 and any(isinstance(x, ast.Name) and x.id in (kn, vn) for x in ast.walk(t)) and not (isinstance(parent(t), (ast.For, ast.comprehension)) and parent(t).target is t):
            pairs.append((t.elts[0], t.elts[1], t))
    for n, _ in keyed:
        if isinstance(n, ast.Assign) and isinstance(n.targets[0], ast.Subscript):
            pairs.append((n.targets[0].slice, n.value, n))
        elif isinstance(n, ast.DictComp):
            pairs.append((n.key, n.value, n))
    if not pairs:
        raise Unsupported("options_to_items: the (key, value) pair construction was not found")
    cfg_o = get_cfg(oti) if isinstance(loop0, ast.For) else None
    seen_p: Counter = Counter()
    for first, second, node in pairs:
        k = f"{oti.fq}|pair = (key.value, value.value or '')"
        seen_p[k] += 1
        k += f" #{seen_p[k]}" if seen_p[k] > 1 else ""
        problems = []
        # is the value token known (not) to be None where this pair is built?
        known = None
        if cfg_o is not None:
            for t_, pol in cfg_o.guards(cfg_o.stmt_of(node)):
                txt = unparse(t_)
                if txt in (f"{vn} is not None", vn):
                    known = pol
                elif txt == f"{vn} is None":
                    known = not pol
        if unparse(first) != f"{kn}.value":
            problems.append(f"first component is `{short(first, 40)}`, not {kn}.value")
        if isinstance(second, ast.IfExp):
            t = unparse(second.test)
            some, none = (second.body, second.orelse) if t in (f"{vn} is not None", vn) else (second.orelse, second.body) if t in (f"{vn} is None", f"not {vn}") else (None, None)
            if some is None:
                rep.error("C07.R6", f"{m.site(second)} options_to_items: value test `{t}` not understood")
            else:
                if unparse(some) != f"{vn}.value":
                    problems.append(f"with a value token the second component is `{short(some, 40)}`, not {vn}.value" + (" (None.value raises AttributeError out of options_to_items)" if unparse(none) == f"{vn}.value" else ""))
                if not (isinstance(none, ast.Constant) and none.value == ""):
                    problems.append(f"without a value token the second component is `{short(none, 40)}`, not '' (YAML's empty scalar read as a string)")
        elif unparse(second) == f"{vn}.value":
            if known is not True:
                problems.append(f"{vn} may be None (a key without value): {vn}.value raises AttributeError out of options_to_items")
        elif isinstance(second, ast.Constant) and second.value == "" and known is False:
            pass
        elif isinstance(second, ast.Constant) and known is False:
            problems.append(f"without a value token the second component is `{short(second, 40)}`, not '' (YAML's empty scalar read as a string)")
        else:
            rep.error("C07.R6", f"{m.site(second)} options_to_items: second component `{short(second, 40)}` not understood")
        if problems:
            rep.violation("C07.R6", k, m.site(node), "; ".join(problems))
        else:
            rep.ok("C07.R6", k, m.site(node))
    # every result of options_to_items comes out of the tokenizer: no second, unscanned way of producing pairs
    loop = loops[0]
    loop_stmt = loop if isinstance(loop, ast.For) else next((p_ for p_ in _ancestors_until(loop) if isinstance(p_, (ast.ListComp, ast.GeneratorExp))), None)

    def from_tokenizer(e, depth=0) -> str | None:
        """None when ``e`` (the pairs component of a return value) can only hold pairs built in the _to_tokens iteration"""
        if isinstance(e, (ast.List, ast.Tuple)) and not e.elts:
            return None
        if isinstance(e, ast.Call) and isinstance(e.func, ast.Name) and e.func.id in ("list", "tuple") and len(e.args) == 1:
            return from_tokenizer(e.args[0], depth)
        if isinstance(e, ast.Call) and isinstance(e.func, ast.Attribute) and e.func.attr == "items" and not e.args:
            return from_tokenizer(e.func.value, depth)  # (a mapping accumulator is judged by the sequence clause)
        if isinstance(e, (ast.Dict, ast.Set)) and not getattr(e, "keys", getattr(e, "elts", [])):
            return None
        if isinstance(e, (ast.DictComp, ast.SetComp)):
            return None if any(g_ is loop for g_ in e.generators) else f"`{short(e, 50)}` is not the iteration over _to_tokens"
        if isinstance(e, (ast.ListComp, ast.GeneratorExp)):
            return None if e is loop_stmt else f"`{short(e, 50)}` is not the iteration over _to_tokens"
        if isinstance(e, ast.Name) and depth < 3:
            defs = [n for n in oti.local_nodes() if isinstance(n, (ast.Assign, ast.AnnAssign)) and e.id in _assigned(n)]
            if not defs:
                return f"`{e.id}` has no definition in options_to_items"
            for d_ in defs:
                w = from_tokenizer(d_.value, depth + 1)
                if w:
                    return w
            for c in oti.local_nodes():
                grows = isinstance(c, ast.Call) and isinstance(c.func, ast.Attribute) and isinstance(c.func.value, ast.Name) and c.func.value.id == e.id and c.func.attr in ("append", "extend", "insert", "__iadd__", "update", "add", "setdefault")
                grows = grows or (isinstance(c, ast.AugAssign) and isinstance(c.target, ast.Name) and c.target.id == e.id)
                grows = grows or (isinstance(c, ast.Assign) and any(isinstance(t_, ast.Subscript) and isinstance(t_.value, ast.Name) and t_.value.id == e.id for t_ in c.targets))
                if grows and not (isinstance(loop_stmt, ast.For) and any(c is x for x in ast.walk(loop_stmt))):
                    return f"`{short(c, 50)}` adds to the result outside the iteration over _to_tokens"
            return None
        return f"`{short(e, 50)}` is built without the tokenizer"

    rets = [r for r in oti.local_nodes() if isinstance(r, ast.Return)]
    if not rets:
        raise Unsupported("options_to_items: no return statement")
    seen = Counter()
    for r in sorted(rets, key=lambda r: r.lineno):
        comp = r.value.elts[0] if isinstance(r.value, ast.Tuple) and r.value.elts else r.value
        txt = short(comp, 40) if comp is not None else "None"
        seen[txt] += 1
        k = f"{oti.fq}|return {txt}" + (f" #{seen[txt]}" if seen[txt] > 1 else "") + " comes out of the tokenizer"
        why = from_tokenizer(comp) if comp is not None else "returns no pairs object"
        if why is None:
            rep.ok("C07.R6", k, m.site(r))
        else:
            rep.violation(
                "C07.R6",
                k,
                m.site(r),
                f"options_to_items returns pairs that bypass the scanner ({why}): a second, unscanned reading of the text - none of the "
                "agreement/termination/position guarantees established for the tokenizer applies to it (e.g. trailing blanks, comments, escapes)",
            )
    rep.expect_min("C07.R6", 12, "dispatches, role flags, key life-cycle and pair construction")


RULES = [r1_closed_failure_mode, r2_termination, r3_in_bounds, r4_tables, r5_positions, r6_state_machine]


def _ancestors_until(n):
    p = parent(n)
    while p is not None and not isinstance(p, (ast.FunctionDef, ast.AsyncFunctionDef)):
        yield p
        p = parent(p)


def _sub(m: Module, node, text: str) -> str:
    return splice(m.src, node, text)


def mutants(corpus: Corpus):
    m = optmod(corpus)
    out: list = []

    def add(mid, rule_id, fq, pred, text, expect, canary=False, nth=0):
        """replace the nth node of function ``fq`` matching ``pred`` by ``text`` (a str or a function of the node)"""
        try:
            fi = m.func(fq)
        except AnchorMissing:
            out.append((mid, f"function {fq} not found"))
            return
        cands = sorted((n for n in fi.local_nodes() if pred(n)), key=lambda n: (n.lineno, n.col_offset))
        if len(cands) <= nth:
            out.append((mid, f"construct not found in {fq}"))
            return
        node = cands[nth]
        out.append(Mutant(mid, rule_id, m.rel, _sub(m, node, text(node) if callable(text) else text), expect=expect, canary=canary))

    def is_call(n, text):
        return isinstance(n, ast.Call) and unparse(n) == text

    def is_cmp(text):
        return lambda n: isinstance(n, ast.Compare) and unparse(n) == text

    def expr_stmt(text):
        return lambda n: isinstance(n, ast.Expr) and unparse(n) == text

    nl = "_scan_flow_scalar_non_spaces"
    # --- R1 ---
    add("c07-chr-range-check-dropped", "C07.R1", nl, lambda n: isinstance(n, ast.If) and unparse(n.test).startswith("code >"), lambda n: ast.get_source_segment(m.src, n).replace(ast.get_source_segment(m.src, n.test), "False", 1), "chr(code)", canary=True)
    add("c07-foreign-raise", "C07.R1", "_scan_block_scalar_indicators", lambda n: isinstance(n, ast.Call) and dotted(n.func) == "TokenizeError", lambda n: "ValueError(" + ast.get_source_segment(m.src, n.args[0]) + ")", "ValueError")
    add("c07-escape-lookup-guard-widened", "C07.R1", nl, is_cmp("ch in _ESCAPE_CODES"), 'ch in "xuU8"', "_ESCAPE_CODES[ch]")
    add("c07-digit-guard-widened", "C07.R1", "_scan_block_scalar_indicators", is_cmp("ch in '0123456789'"), 'ch in "0123456789abcdef"', "int(ch)")
    # --- R2 ---
    add("c07-space-skip-forward-dropped", "C07.R2", "_scan_to_next_token", expr_stmt("stream.forward()"), "pass", "while stream.peek() == ' '", canary=True, nth=1)
    add("c07-lookahead-counter-dropped", "C07.R2", "_scan_flow_scalar_spaces", lambda n: isinstance(n, ast.AugAssign), "pass", "while stream.peek(length)")
    add("c07-found-flag-never-set", "C07.R2", "_scan_to_next_token", lambda n: isinstance(n, ast.Assign) and unparse(n) == "found = True", "found = False", "while not found")
    add("c07-plain-spaces-branch-on-wrong-char", "C07.R2", "_scan_plain_spaces", is_cmp("stream.peek() == ' '"), 'stream.peek() == "\\n"', "_CHARS_SPACE_NEWLINE")
    add("c07-forward-decrement-dropped", "C07.R2", "StreamBuffer.forward", lambda n: isinstance(n, ast.AugAssign) and unparse(n.target) == "length", "pass", "while length")
    add("c07-block-breaks-not-consumed", "C07.R2", "_scan_block_scalar_breaks", lambda n: isinstance(n, ast.Expr) and unparse(n) == "chunks.append(_scan_line_break(stream))", 'chunks.append("\\n")', "_CHARS_NEWLINE")
    # --- R3 ---
    add("c07-crlf-test-flipped", "C07.R3", "_scan_line_break", is_cmp("stream.prefix(2) == '\\r\\n'"), 'stream.prefix(2) != "\\r\\n"', "forward(2)", canary=True)
    add("c07-comment-scan-ignores-end", "C07.R3", "_scan_block_scalar_ignored_line", is_cmp("stream.peek() not in _CHARS_END_NEWLINE"), "stream.peek() not in _CHARS_NEWLINE", "stream.forward()")
    add("c07-flow-lookahead-ignores-end", "C07.R3", nl, lambda n: isinstance(n, ast.BinOp) and unparse(n.right) == "_CHARS_END_SPACE_TAB_NEWLINE", lambda n: ast.get_source_segment(m.src, n.left) + " + _CHARS_SPACE_NEWLINE", "stream.peek(length)")
    add("c07-hex-validation-off-by-one", "C07.R3", nl, lambda n: is_call(n, "range(length)"), "range(length - 1)", "stream.forward(length)")
    add("c07-quote-doubling-lookahead-unguarded", "C07.R3", nl, lambda n: isinstance(n, ast.BoolOp) and unparse(n) == "not double and ch == \"'\" and (stream.peek(1) == \"'\")", "not double and stream.peek(1) == \"'\"", "stream.peek(1)")
    add("c07-colon-forward-unguarded", "C07.R3", "_tokenize", lambda n: isinstance(n, ast.If) and unparse(n.test) == "stream.peek() != ':'", "pass", "stream.forward()")
    # --- R4 ---
    tabnode = m.const_nodes.get("_ESCAPE_REPLACEMENTS")
    if isinstance(tabnode, ast.Dict):
        i = next((j for j, k in enumerate(tabnode.keys) if isinstance(k, ast.Constant) and k.value == "n"), None)
        if i is not None:
            out.append(Mutant("c07-escape-n-is-cr", "C07.R4", m.rel, _sub(m, tabnode.values[i], '"\\x0d"'), expect="_ESCAPE_REPLACEMENTS['n']", canary=True))
    else:
        out.append(("c07-escape-n-is-cr", "table not a dict literal"))
    nlnode = m.const_nodes.get("_CHARS_NEWLINE")
    if nlnode is not None:
        out.append(Mutant("c07-newline-class-loses-nel", "C07.R4", m.rel, _sub(m, nlnode, '"\\r\\n\\u2028\\u2029"'), expect="_CHARS_NEWLINE"))
    init = m.func("StreamBuffer.__init__")
    sent = find_node(init, lambda n: isinstance(n, ast.BinOp) and unparse(n.right) == "_CHARS_END")
    if sent is not None:
        out.append(Mutant("c07-sentinel-dropped", "C07.R4", m.rel, _sub(m, sent, unparse(sent.left)), expect="sentinel"))
    add("c07-plain-fold-polarity", "C07.R4", "_scan_plain_spaces", is_cmp("line_break != '\\n'"), 'line_break == "\\n"', "_scan_plain_spaces")
    add("c07-keep-chomping-confused", "C07.R4", "_scan_block_scalar", is_cmp("chomping is not False"), "chomping is True", "_scan_block_scalar|guards")
    add("c07-single-quote-flag-flipped", "C07.R4", nl, lambda n: isinstance(n, ast.UnaryOp) and unparse(n) == "not double", "double", "flags")
    add("c07-flow-fold-emits-nothing", "C07.R4", "_scan_flow_scalar_spaces", expr_stmt("chunks.append(' ')"), 'chunks.append("")', "emits")
    add("c07-crlf-counted-twice", "C07.R4", "_scan_line_break", expr_stmt("stream.forward(2)"), "stream.forward()", "effects")
    add("c07-line-break-not-normalised", "C07.R4", "_scan_line_break", lambda n: isinstance(n, ast.Return) and unparse(n) == "return '\\n'", "return ch", "emits")
    add("c07-nel-not-a-line", "C07.R4", "StreamBuffer.forward", is_cmp("ch in '\\n\\x85\\u2028\\u2029'"), 'ch in "\\n\\u2028\\u2029"', "StreamBuffer.forward|guards")
    add("c07-block-indent-comparison", "C07.R4", "_scan_block_scalar", is_cmp("stream.column == indent"), "stream.column >= indent", "_scan_block_scalar|guards")
    add("c07-plain-indent-comparison", "C07.R4", "_scan_plain_scalar", is_cmp("stream.column < indent"), "stream.column <= indent", "_scan_plain_scalar|guards")
    add("c07-leading-tab-not-space", "C07.R4", "_scan_block_scalar", is_cmp("stream.peek() not in ' \\t'"), 'stream.peek() not in " "', "_scan_block_scalar|guards")
    add("c07-tab-ends-plain-chunk-dropped", "C07.R4", "_scan_plain_scalar", lambda n: isinstance(n, ast.Name) and n.id == "_CHARS_END_SPACE_TAB_NEWLINE", "_CHARS_END_SPACE_NEWLINE", "_scan_plain_scalar|guards")
    add("c07-escape-code-not-consumed", "C07.R4", nl, expr_stmt("stream.forward(length)"), "stream.forward()", "effects", nth=1)
    # --- R5 ---
    add("c07-problem-mark-none", "C07.R5", "_to_tokens", lambda n: isinstance(n, ast.Attribute) and unparse(n) == "token.start", "None", "problem_mark", canary=False)
    add("c07-mark-is-an-index", "C07.R5", "_scan_flow_scalar_spaces", lambda n: is_call(n, "stream.get_position()"), "stream.index", "problem_mark")
    add("c07-clone-context-offsets-crossed", "C07.R5", "TokenizeError.clone", lambda n: isinstance(n, ast.BinOp) and unparse(n) == "self.context_mark.line + line_offset", "self.context_mark.line + column_offset", "context_mark shifted")
    add("c07-clone-none-guard-dropped", "C07.R5", "TokenizeError.clone", lambda n: isinstance(n, ast.IfExp), lambda n: ast.get_source_segment(m.src, n.orelse), "None-guard")
    add("c07-clone-args-swapped", "C07.R5", "_to_tokens", lambda n: isinstance(n, ast.Call) and isinstance(n.func, ast.Attribute) and n.func.attr == "clone", "exc.clone(column_offset, line_offset)", "clone(")
    add("c07-clone-only-when-both-offsets", "C07.R5", "_to_tokens", lambda n: isinstance(n, ast.BoolOp) and unparse(n) == "line_offset or column_offset", "line_offset and column_offset", "either offset")
    # --- round 2: classes of edits the first round would have missed or only caught indirectly ---
    add("c07-hex-set-widened", "C07.R1", nl, lambda n: isinstance(n, ast.Constant) and n.value == "0123456789ABCDEFabcdef", '"0123456789ABCDEFabcdefg"', "int(stream.prefix(length), 16)")
    # (a) NEL dropped consistently from every class, the line-break scanner and the line accounting
    edits = []
    for name, node in m.const_nodes.items():
        if name.startswith("_CHARS_") and isinstance(node, ast.Constant) and isinstance(node.value, str) and "\x85" in node.value:
            edits.append((node, repr(node.value.replace("\x85", ""))))
    for fq in ("_scan_line_break", "StreamBuffer.forward"):
        for n in m.func(fq).local_nodes():
            if isinstance(n, ast.Constant) and isinstance(n.value, str) and "\x85" in n.value and len(n.value) > 1:
                edits.append((n, repr(n.value.replace("\x85", ""))))
    if len(edits) >= 7:
        src2 = m.src
        for node, text in sorted(edits, key=lambda e: (-e[0].lineno, -e[0].col_offset)):
            src2 = splice(src2, node, text)
        out.append(Mutant("c07-nel-dropped-everywhere", "C07.R4", m.rel, src2, expect="_CHARS_NEWLINE"))
    else:
        out.append(("c07-nel-dropped-everywhere", "NEL literals not found"))
    # (b) a character moved between two classes: TAB leaves END_SPACE_TAB_NEWLINE and joins END_SPACE_NEWLINE
    a_, b_ = m.const_nodes.get("_CHARS_END_SPACE_TAB_NEWLINE"), m.const_nodes.get("_CHARS_END_SPACE_NEWLINE")
    if isinstance(a_, ast.Constant) and isinstance(b_, ast.Constant):
        src2 = m.src
        for node, text in sorted(((a_, repr(b_.value)), (b_, repr(a_.value))), key=lambda e: -e[0].lineno):
            src2 = splice(src2, node, text)
        out.append(Mutant("c07-tab-moved-between-classes", "C07.R4", m.rel, src2, expect="_CHARS_END_SPACE_NEWLINE"))
    else:
        out.append(("c07-tab-moved-between-classes", "class constants are not literals"))
    # (c) clone(): offsets applied to the first line only / one line too far
    add("c07-clone-column-first-line-only", "C07.R5", "TokenizeError.clone", lambda n: isinstance(n, ast.BinOp) and unparse(n) == "self.problem_mark.column + column_offset", "self.problem_mark.column + (column_offset if self.problem_mark.line == 0 else 0)", "self.problem_mark shifted")
    add("c07-clone-line-off-by-one", "C07.R5", "TokenizeError.clone", lambda n: isinstance(n, ast.BinOp) and unparse(n) == "self.context_mark.line + line_offset", "self.context_mark.line + line_offset + 1", "self.context_mark shifted")
    add("c07-position-fields-crossed", "C07.R5", "StreamBuffer.get_position", lambda n: isinstance(n, ast.Call) and dotted(n.func) == "Position", "Position(self._index, self._column, self._line)", "Position.line")
    # (d) the state machine around the scanners
    add("c07-folded-indicator-not-dispatched", "C07.R6", "_tokenize", lambda n: isinstance(n, ast.Tuple) and unparse(n) == "('|', '>')" and isinstance(parent(n), ast.Compare) and isinstance(parent(n).ops[0], ast.In), '("|",)', "dispatch set")
    add("c07-block-style-constant", "C07.R6", "_tokenize", lambda n: isinstance(n, ast.Call) and dotted(n.func) == "cast" and "'|'" in unparse(n.args[0]), '"|"', "style is the dispatch character")
    add("c07-value-scanned-as-key", "C07.R6", "_tokenize", lambda n: isinstance(n, ast.keyword) and n.arg == "is_key" and unparse(n.value) == "False", "is_key=True", "is_key", nth=1)
    add("c07-trailing-key-dropped", "C07.R6", "_to_tokens", lambda n: isinstance(n, ast.If) and unparse(n.test) == "key_token is not None" and not any(isinstance(a, (ast.For, ast.While)) for a in _ancestors_until(n)), "pass", "reaches a yield")
    add("c07-pending-key-overwritten", "C07.R6", "_to_tokens", lambda n: isinstance(n, ast.If) and unparse(n.test) == "key_token is not None" and any(isinstance(a, ast.For) for a in _ancestors_until(n)), "pass", "reaches a yield")
    add("c07-key-not-cleared-after-value", "C07.R6", "_to_tokens", lambda n: isinstance(n, ast.Assign) and unparse(n) == "key_token = None" and any(isinstance(a, ast.For) for a in _ancestors_until(n)), "pass", "re-assignment before the next yield")
    add("c07-missing-value-is-none", "C07.R6", "options_to_items", lambda n: isinstance(n, ast.IfExp), lambda n: ast.get_source_segment(m.src, n.body) + " if " + ast.get_source_segment(m.src, n.test) + " else None", "pair =")
    add("c07-value-test-inverted", "C07.R6", "options_to_items", lambda n: isinstance(n, ast.Compare) and unparse(n) == "value_token is not None", "value_token is None", "pair =")
    # --- round 3: defects written in the refactored spellings the normal form understands ---
    add("c07-crlf-conditional-offset-swapped", "C07.R3", "_scan_line_break", lambda n: isinstance(n, ast.If) and unparse(n.test) == "stream.prefix(2) == '\\r\\n'", 'stream.forward(1 if stream.prefix(2) == "\\r\\n" else 2)', "stream.forward(1 if")
    add("c07-chomping-conditional-inverted", "C07.R4", "_scan_block_scalar_indicators", lambda n: isinstance(n, ast.Assign) and unparse(n) == "chomping = ch == '+'", 'chomping = False if ch == "+" else True', "_scan_block_scalar_indicators|guards")
    # the digit block moved into a helper, and one call site's guard widened: int() fails inside the helper
    f_ = m.func("_scan_block_scalar_indicators")
    blocks = []
    for blk in _blocks(f_.node):
        for i, st in enumerate(blk):
            if isinstance(st, ast.Assign) and unparse(st) == "increment = int(ch)" and i + 2 < len(blk) and isinstance(blk[i + 1], ast.If) and unparse(blk[i + 2]) == "stream.forward()":
                blocks.append((st, blk[i + 2]))
    guard = find_node(f_, lambda n: isinstance(n, ast.If) and unparse(n.test) == "ch in '0123456789'" and any(isinstance(x, ast.Assign) and unparse(x) == "increment = int(ch)" for x in n.body) and isinstance(parent(n), ast.If) and n in parent(n).orelse)
    nxt_ = m.functions.get("_scan_block_scalar_ignored_line")
    if len(blocks) == 2 and guard is not None and nxt_ is not None:
        lines = m.src.splitlines(keepends=True)
        helper = (
            "def _read_increment(stream: StreamBuffer, digit: str, start_mark: Position) -> int:\n"
            "    increment = int(digit)\n"
            "    if increment == 0:\n"
            "        raise TokenizeError('expected indentation indicator in the range 1-9, but found 0', stream.get_position(), 'while scanning a block scalar', start_mark)\n"
            "    stream.forward()\n"
            "    return increment\n\n\n"
        )
        edits = [(nxt_.node.lineno, nxt_.node.lineno - 1, helper)]  # insert before the next function
        for first, last in blocks:
            ind = " " * first.col_offset
            edits.append((first.lineno, last.end_lineno, f"{ind}increment = _read_increment(stream, ch, start_mark)\n"))
        edits.append((guard.test.lineno, guard.test.lineno, lines[guard.test.lineno - 1].replace('"0123456789"', '"0123456789abcdef"')))
        for a_, b_, text in sorted(edits, key=lambda e: -e[0]):
            lines[a_ - 1 : b_] = [text]
        out.append(Mutant("c07-digit-helper-guard-widened", "C07.R1", m.rel, "".join(lines), expect="int(digit)"))
    else:
        out.append(("c07-digit-helper-guard-widened", "digit blocks not found"))
    # --- round 4: code motion of an emission, de-duplicated clone(), int() as the validator ---
    f_ = m.func("_scan_block_scalar")
    loop = find_node(f_, lambda n: isinstance(n, ast.While) and "column" in unparse(n.test))
    if loop is not None and unparse(loop.body[0]) == "chunks.extend(breaks)":
        inner = next((x for x in loop.body if isinstance(x, ast.If) and "column" in unparse(x.test) and x.orelse), None)
        if inner is not None:
            ind_l = " " * loop.col_offset
            ind_i = " " * inner.body[0].col_offset
            lines = m.src.splitlines(keepends=True)
            edits = [
                (inner.body[-1].end_lineno + 1, inner.body[-1].end_lineno, f"{ind_i}chunks.extend(breaks)\n"),
                (loop.body[0].lineno, loop.body[0].end_lineno, ""),
                (loop.lineno, loop.lineno - 1, f"{ind_l}chunks.extend(breaks)\n"),
            ]
            for a_, b_, text in sorted(edits, key=lambda e: -e[0]):
                lines[a_ - 1 : b_] = [text] if text else []
            out.append(Mutant("c07-leading-breaks-emitted-before-loop", "C07.R4", m.rel, "".join(lines), expect="unconditional here"))
    else:
        out.append(("c07-leading-breaks-emitted-before-loop", "block scalar loop not found"))
    add("c07-trailing-spaces-emitted", "C07.R4", "_scan_plain_scalar", lambda n: isinstance(n, ast.Return), lambda n: "chunks.extend(spaces)\n    " + ast.get_source_segment(m.src, n), "unconditional here")
    add(
        "c07-clone-generator-without-none-guard",
        "C07.R5",
        "TokenizeError.clone",
        lambda n: isinstance(n, ast.Return),
        "problem_mark, context_mark = (replace(mark, line=mark.line + line_offset, column=mark.column + column_offset) for mark in (self.problem_mark, self.context_mark))\n"
        "        return TokenizeError(self.problem, problem_mark, self.context, context_mark)",
        "None-guard",
    )
    f_ = m.func(nl)
    loop = find_node(f_, lambda n: isinstance(n, ast.For) and unparse(n.iter) == "range(length)")
    if loop is not None:
        blk = next(b for b in _blocks(f_.node) if any(x is loop for x in b))
        nxt = blk[[i for i, x in enumerate(blk) if x is loop][0] + 1]
        if isinstance(nxt, ast.Assign) and unparse(nxt).startswith("code = int("):
            ind = " " * loop.col_offset
            text = (
                f"try:\n{ind}    {unparse(nxt)}\n{ind}except ValueError:\n"
                f"{ind}    raise TokenizeError('expected hexadecimal escape', stream.get_position(), 'while scanning a double-quoted scalar', start_mark) from None\n"
            )
            lines = m.src.splitlines(keepends=True)
            lines[loop.lineno - 1 : nxt.end_lineno] = [ind + text]
            out.append(Mutant("c07-hex-check-replaced-by-int-parse", "C07.R1", m.rel, "".join(lines), expect="chr(code)"))
    else:
        out.append(("c07-hex-check-replaced-by-int-parse", "validation loop not found"))
    # --- round 5: a second way to produce pairs, a per-line test hoisted out of its loop, consuming before validating ---
    add(
        "c07-fast-path-bypasses-scanner",
        "C07.R6",
        "options_to_items",
        lambda n: isinstance(n, ast.For),
        lambda n: "if text.count(':') == 1 and '\\n' not in text and '#' not in text:\n        k_, v_ = text.split(':')\n        return [(k_.strip(), v_.lstrip())], state\n    " + ast.get_source_segment(m.src, n),
        "comes out of the tokenizer",
    )
    add("c07-result-padded-after-loop", "C07.R6", "options_to_items", lambda n: isinstance(n, ast.Return), lambda n: "output.extend([])\n    output.append(('', ''))\n    " + ast.get_source_segment(m.src, n), "comes out of the tokenizer")
    f_ = m.func("_scan_block_scalar")
    loop = find_node(f_, lambda n: isinstance(n, ast.While) and "column" in unparse(n.test))
    flag = find_node(f_, lambda n: isinstance(n, ast.Assign) and unparse(n).startswith("leading_non_space = ")) if loop is not None else None
    if loop is not None and flag is not None and any(flag is x for x in loop.body):
        lines = m.src.splitlines(keepends=True)
        text = " " * loop.col_offset + lines[flag.lineno - 1].lstrip()
        del lines[flag.lineno - 1 : flag.end_lineno]
        lines[loop.lineno - 1 : loop.lineno - 1] = [text]
        out.append(Mutant("c07-per-line-flag-hoisted", "C07.R4", m.rel, "".join(lines), expect="_scan_block_scalar|guards"))
    else:
        out.append(("c07-per-line-flag-hoisted", "per-line flag not found in the content loop"))
    f_ = m.func(nl)
    loop = find_node(f_, lambda n: isinstance(n, ast.For) and unparse(n.iter) == "range(length)")
    fw = [n for n in f_.local_nodes() if isinstance(n, ast.Expr) and unparse(n) == "stream.forward(length)"]
    fw = [n for n in fw if loop is not None and n.lineno > loop.end_lineno]
    if loop is not None and fw:
        lines = m.src.splitlines(keepends=True)
        text = " " * loop.col_offset + lines[fw[0].lineno - 1].lstrip()
        del lines[fw[0].lineno - 1 : fw[0].end_lineno]
        lines[loop.lineno - 1 : loop.lineno - 1] = [text]
        out.append(Mutant("c07-escape-consumed-before-validation", "C07.R3", m.rel, "".join(lines), expect="stream.forward(length)"))
    else:
        out.append(("c07-escape-consumed-before-validation", "escape forward not found"))
    # --- round 6 ---
    rd_ = lambda n: isinstance(n, ast.Subscript) and unparse(n) == "self._buffer[self._index]" and isinstance(parent(n), ast.Compare)
    add("c07-forward-lookahead-via-peek-one-too-far", "C07.R4", "StreamBuffer.forward", rd_, "self.peek(1)", "StreamBuffer.forward|guards")
    add("c07-forward-lookahead-index-one-too-far", "C07.R3", "StreamBuffer.forward", rd_, "self._buffer[self._index + 1]", "after the increment")
    add(
        "c07-clone-helper-without-none-guard",
        "C07.R5",
        "TokenizeError.clone",
        lambda n: isinstance(n, ast.Return),
        "def _shift(mark):\n            return replace(mark, line=mark.line + line_offset, column=mark.column + column_offset)\n\n"
        "        return TokenizeError(self.problem, _shift(self.problem_mark), self.context, _shift(self.context_mark))",
        "None-guard",
    )
    # --- round 7: the unreachable "expected key before value" branch as an assert - discharged only while the protocol holds ---
    tt_ = m.func("_to_tokens")
    guard_ = find_node(tt_, lambda n: isinstance(n, ast.If) and unparse(n.test) == "key_token is None" and any(isinstance(x, ast.Raise) for x in n.body))
    tok_ = m.func("_tokenize")
    keycall = find_node(tok_, lambda n: isinstance(n, ast.keyword) and n.arg == "is_key" and unparse(n.value) == "True" and isinstance(parent(n), ast.Call) and dotted(parent(n).func) == "_scan_plain_scalar")
    setkey = find_node(tt_, lambda n: isinstance(n, ast.Assign) and unparse(n) == "key_token = token")
    if guard_ is not None and keycall is not None and setkey is not None:
        for mid, node, text in (
            ("c07-assert-with-key-scanned-as-value", keycall, "is_key=False"),
            ("c07-assert-with-key-not-stored", setkey, "key_token = None"),
        ):
            src2 = m.src
            for n_, t_ in sorted(((guard_, "assert key_token is not None"), (node, text)), key=lambda e: (-e[0].lineno, -e[0].col_offset)):
                src2 = splice(src2, n_, t_)
            out.append(Mutant(mid, "C07.R1", m.rel, src2, expect="assert key_token is not None"))
    else:
        out.append(("c07-assert-with-key-scanned-as-value", "guard / key call not found"))
    # --- round 8: how the pairs are collected ---
    oti_ = m.func("options_to_items")
    app_ = find_node(oti_, lambda n: isinstance(n, ast.Expr) and isinstance(n.value, ast.Call) and unparse(n.value.func) == "output.append")
    init_ = find_node(oti_, lambda n: isinstance(n, ast.Assign) and unparse(n) == "output = []")
    ret_ = find_node(oti_, lambda n: isinstance(n, ast.Return))
    if app_ is not None and init_ is not None and ret_ is not None and isinstance(app_.value.args[0], ast.Tuple):
        k_src, v_src = (ast.get_source_segment(m.src, e) for e in app_.value.args[0].elts)
        src2 = m.src
        for n_, t_ in sorted(((ret_, "return list(output.items()), state"), (app_, f"output[{k_src}] = {v_src}"), (init_, "output = {}")), key=lambda e: -e[0].lineno):
            src2 = splice(src2, n_, t_)
        out.append(Mutant("c07-pairs-collected-in-a-dict", "C07.R6", m.rel, src2, expect="in a sequence"))
        ind = " " * app_.col_offset
        seg = ast.get_source_segment(m.src, app_)
        out.append(Mutant("c07-valueless-keys-dropped", "C07.R6", m.rel, splice(m.src, app_, "if value_token is not None:\n" + ind + "    " + seg.replace("\n", "\n    ")), expect="in a sequence"))
        out.append(Mutant("c07-pair-appended-twice", "C07.R6", m.rel, splice(m.src, app_, seg + "\n" + ind + "if value_token is None:\n" + ind + "    " + seg.replace("\n", "\n    ")), expect="in a sequence"))
    else:
        out.append(("c07-pairs-collected-in-a-dict", "append of the pair not found"))
    # --- round 9: classes of the sixth-round seeds that had no mutant of their own yet ---
    add("c07-fold-elif-became-if", "C07.R4", "_scan_plain_spaces", lambda n: isinstance(n, ast.If) and unparse(n.test) == "line_break != '\\n'" and n.orelse, lambda n: ast.get_source_segment(m.src, n).replace("elif not breaks", "if not breaks", 1), "_scan_plain_spaces")
    add("c07-flow-spaces-ignore-tab", "C07.R4", "_scan_flow_scalar_spaces", is_cmp("stream.peek(length) in ' \\t'"), 'stream.peek(length) == " "', "_scan_flow_scalar_spaces|guards")
    add("c07-digit-test-isdigit", "C07.R1", "_scan_block_scalar_indicators", is_cmp("ch in '0123456789'"), "ch.isdigit()", "int(ch)", nth=1)
    # --- round 12 ---
    f_ = m.func(nl)
    rng = find_node(f_, lambda n: isinstance(n, ast.If) and unparse(n.test).startswith("code >") and any(isinstance(x, ast.Raise) for x in n.body))
    if rng is not None:
        blk = next(b for b in _blocks(f_.node) if any(x is rng for x in b))
        nxt = blk[[i for i, x in enumerate(blk) if x is rng][0] + 1]
        if isinstance(nxt, ast.Expr) and "chr(code)" in unparse(nxt):
            ind = " " * rng.col_offset
            text = (
                f"try:\n{ind}    {unparse(nxt)}\n{ind}except ValueError:\n"
                f"{ind}    raise TokenizeError('not a valid Unicode code point', stream.get_position(), 'while scanning a double-quoted scalar', start_mark) from None\n"
            )
            lines = m.src.splitlines(keepends=True)
            lines[rng.lineno - 1 : nxt.end_lineno] = [ind + text]
            out.append(Mutant("c07-chr-range-check-became-except-valueerror", "C07.R1", m.rel, "".join(lines), expect="OverflowError"))
    else:
        out.append(("c07-chr-range-check-became-except-valueerror", "range check not found"))
    add("c07-block-continuation-ignores-end", "C07.R4", "_scan_block_scalar", lambda n: isinstance(n, ast.If) and unparse(n.test) == "stream.column == indent and stream.peek() != _CHARS_END", lambda n: ast.get_source_segment(m.src, n).replace(ast.get_source_segment(m.src, n.test), "stream.column == indent", 1), "_scan_block_scalar|guards")
    # --- round 14: which first characters start the value when the text after 'key:' continues at column 0 (fix 2caf706) ---
    col0 = lambda n: isinstance(n, ast.If) and "stream.column == 0" in unparse(n.test) and "not in" in unparse(n.test)
    tst = lambda n: ast.get_source_segment(m.src, n.test)
    add("c07-block-header-at-column-0-is-next-key", "C07.R6", "_tokenize", col0, lambda n: ast.get_source_segment(m.src, n).replace(tst(n), "stream.column == 0", 1), "value continuing at column 0: _scan_block_scalar", canary=False)
    add("c07-folded-header-at-column-0-is-next-key", "C07.R6", "_tokenize", col0, lambda n: ast.get_source_segment(m.src, n).replace(tst(n), 'stream.column == 0 and ch != "|"', 1), "value continuing at column 0: _scan_block_scalar")
    add("c07-quoted-scalar-at-column-0-is-the-value", "C07.R6", "_tokenize", col0, lambda n: ast.get_source_segment(m.src, n).replace(tst(n), 'stream.column == 0 and ch not in ("|", ">", "\'", \'"\')', 1), "value continuing at column 0: _scan_flow_scalar")
    add("c07-anything-at-column-0-is-the-value", "C07.R6", "_tokenize", col0, lambda n: ast.get_source_segment(m.src, n).replace(tst(n), "False", 1), "value continuing at column 0: _scan_plain_scalar")
    # --- round 16: the column-0 header guard narrowed by what follows the header character ---
    add("c07-column-0-header-with-indicator-is-next-key", "C07.R6", "_tokenize", col0, lambda n: ast.get_source_segment(m.src, n).replace(tst(n), 'stream.column == 0 and not (ch in ("|", ">") and stream.peek(1) in _CHARS_END_SPACE_NEWLINE)', 1), "value continuing at column 0: _scan_block_scalar")
    add("c07-column-0-header-before-digit-is-next-key", "C07.R6", "_tokenize", col0, lambda n: ast.get_source_segment(m.src, n).replace(tst(n), 'stream.column == 0 and (ch not in ("|", ">") or stream.peek(1) in "123456789")', 1), "value continuing at column 0: _scan_block_scalar")
    return out
