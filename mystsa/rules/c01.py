"""C01 - parsing is total: failure-mode closure, re-entry guards, loop progress."""

from __future__ import annotations

import ast

from ..callgraph import get_callgraph
from ..corpus import (
    AnchorMissing,
    Corpus,
    Unsupported,
    FunctionInfo,
    ancestors,
    calls_in,
    dotted,
    enclosing_function,
    parent,
    short,
    splice,
    stmt_key,
    unparse,
    walk_local,
)
from ..flow import get_cfg
from ..report import Report
from ..mutant import Mutant
from .common import delete_stmt, escape_closure, find_node, find_stmt, replace_node, rule, unwrap_try

PROP = "C01"
READY = True

FRONT_ENTRIES: list[tuple[str | None, str, list[str]]] = [
    ("docutils", "parsers.docutils_:Parser.parse", []),
    ("sphinx", "parsers.sphinx_:MystParser.parse", []),
    (None, "mdit_to_docutils.transforms:UnreferencedFootnotesDetector.apply", []),
    (None, "mdit_to_docutils.transforms:SortFootnotes.apply", []),
    (None, "mdit_to_docutils.transforms:CollectFootnotes.apply", []),
    (None, "mdit_to_docutils.transforms:ResolveAnchorIds.apply", []),
    ("sphinx", "sphinx_ext.myst_refs:MystReferenceResolver.run", []),
    ("sphinx", "sphinx_ext.directives:FigureMarkdown.run", []),
    ("sphinx", "sphinx_ext.directives:SubstitutionReferenceRole.run", []),
]
API_ENTRIES: list[tuple[str | None, str, list[str]]] = [
    (None, "parsers.options:options_to_items", ["myst_parser.parsers.options.TokenizeError"]),
    (None, "parsers.directives:parse_directive_text", ["docutils.parsers.rst.states.MarkupError"]),
    (None, "inventory:load", ["builtins.ValueError", "builtins.OSError", "zlib.error"]),
    (None, "inventory:fetch_inventory", ["builtins.ValueError", "builtins.OSError", "zlib.error"]),
]

META = {
    "explanation": (
        "Static failure-mode closure. An inter-procedural exception-escape analysis (summaries of (exception class, "
        "origin site) per function, filtered by enclosing except/suppress handlers, fixpoint over the resolved call graph "
        "with the renderer's dynamic dispatch and the docutils callback edges frozen as special edges) shows that no "
        "exception MyST raises itself, and no exception a catalogued fallible library call on document-, front-matter- "
        "or file-controlled data can raise, reaches one of the nine front-end entry points (both parse methods, the four "
        "transforms, the Sphinx reference resolver, figure-md, sub-ref); API functions may only leak their documented "
        "class. Further rules: token_line() without default only where the token is known to carry a map (R2); HTML "
        "attribute values cannot be None where str methods are applied (R3); text re-entering nested_render_text that "
        "is not a substring of the text being rendered (include, substitution) is behind a cycle guard with paired "
        "insert/remove (R4); every while loop outside the option tokenizer has a recognised progress variant (R5); "
        "values read out of yaml.safe_load are isinstance-narrowed before use (R6)."
    ),
    "not_decided": (
        "Implicit AttributeError/KeyError/IndexError/TypeError of arbitrary expressions (only the targeted sub-rules R3, R6); "
        "exceptions inside third-party directive/role bodies and inside docutils/Sphinx transforms; termination and totality of "
        "markdown-it itself; value-dependent builtins such as max() of an empty sequence."
    ),
    "trusted_base": [
        "CPython ast",
        "frozen special call edges (DESIGN E3)",
        "catalogue of fallible library calls (DESIGN C01.R1)",
        "docutils callback contracts (directives raise DirectiveError only; option converters raise ValueError/TypeError)",
        "halt_level above SEVERE so reporter calls return a node",
    ],
    "assumptions": [
        "third-party directives/roles follow the docutils contract",
        "markdown-it terminates and sets token.map on block tokens",
    ],
}


@rule("C01.R1")
def r1_failure_mode_closure(corpus: Corpus, rep: Report, tier: str):
    analyses = escape_closure(
        corpus,
        rep,
        "C01.R1",
        FRONT_ENTRIES + API_ENTRIES,
        "Esc(entry) is empty for the nine front-end entries and within the documented class for API functions",
    )
    corpus._cache["c01-analyses"] = analyses
    # catalogue entry "tuple-unpack of a split-derived sequence": constructs outside the modelled subset are
    # fail-closed here (the engine records them, other properties ignore them); raising ones get their witness
    seen_unsupported = set()
    witnesses: dict[tuple[str, str], str] = {}
    for ea in analyses.values():
        for fq_, text, site, why in ea.unsupported:
            if (fq_, text) not in seen_unsupported:
                seen_unsupported.add((fq_, text))
                rep.error("C01.R1", f"{site}: tuple-unpack of `{text}` in {fq_.split(':')[1]}: {why}")
        witnesses.update(ea.unpack_witness)
    for it in rep.items:
        if it.rule == "C01.R1" and it.status == "violation" and "|origin=" in it.key:
            fq_, _, text = it.key.split("|origin=", 1)[1].partition("|")
            w = witnesses.get((fq_, text))
            if w and w not in it.what:
                it.what += f" [unpacking raises ValueError: {w}]"
    rep.expect_min("C01.R1", 60, "raise sites, asserts and catalogued calls reachable from the entries")


# ---------------------------------------------------------------------------
# R2 token_line discipline

# handlers whose token is known to carry a map (block rule assigns it, or the token is an
# inline child that received its parent's map in _render_tokens); confirmed by reading the
# markdown-it / mdit-py-plugins block rules, re-read in the thorough tier.
TOKEN_LINE_OK = {
    "DocutilsRenderer.render_html_block": "html_block: block rule sets map; html_inline: inline child",
    "DocutilsRenderer.render_footnote_reference": "footnote_reference_open.map assigned in footnote_def",
    "DocutilsRenderer.render_dl": "dt/dd tokens: deflist rule assigns map",
    "DocutilsRenderer.render_field_list": "fieldlist_name: field_list rule assigns map",
    "DocutilsRenderer.render_restructuredtext": "fence / colon_fence block tokens carry map",
    "DocutilsRenderer.render_directive": "fence / colon_fence block tokens carry map",
    "DocutilsRenderer.render_substitution": "substitution_block sets map; substitution_inline is an inline child",
}


@rule("C01.R2")
def r2_token_line(corpus: Corpus, rep: Report, tier: str):
    rep.rule("C01.R2", "token_line(tok) without default only under `if tok.map`, inside suppress/try, or in a handler whose token carries a map")
    base = corpus.mod("mdit_to_docutils.base")
    analyses = corpus._cache.get("c01-analyses") or {}
    seen = set()
    n = 0
    # every call of token_line in the package
    for fi in corpus.all_functions():
        if fi.is_lambda:
            continue
        for call in calls_in(fi.node, into_lambdas=False):
            if (dotted(call.func) or "").split(".")[-1] != "token_line":
                continue
            k = stmt_key(fi, call)
            if k in seen:
                continue
            seen.add(k)
            n += 1
            site = fi.module.site(call)
            d = call.args[1] if len(call.args) > 1 else None
            for kw in call.keywords:
                if kw.arg == "default":
                    d = kw.value
            if d is not None and not (isinstance(d, ast.Constant) and d.value is None):
                rep.ok("C01.R2", k, site, "default given")
                continue
            tok = unparse(call.args[0]) if call.args else ""
            guarded = False
            node: ast.AST = call
            for a in ancestors(call):
                if isinstance(a, (ast.FunctionDef, ast.Lambda)):
                    break
                if isinstance(a, (ast.If, ast.IfExp)) and unparse(a.test) == f"{tok}.map":
                    body = a.body if isinstance(a.body, list) else [a.body]
                    if node in body:
                        guarded = True
                if isinstance(a, ast.With) and any("suppress(ValueError" in unparse(i.context_expr) for i in a.items):
                    guarded = True
                if isinstance(a, ast.Try) and node in a.body and any(
                    h.type is None or "ValueError" in unparse(h.type) or unparse(h.type) in ("Exception", "BaseException") for h in a.handlers
                ):
                    guarded = True
                node = a
            if guarded:
                rep.ok("C01.R2", k, site, "guarded by map test / suppress / try")
            elif fi.qualname in TOKEN_LINE_OK:
                rep.assumed("C01.R2", k, site, TOKEN_LINE_OK[fi.qualname])
            else:
                rep.violation("C01.R2", k, site, f"token_line({tok}) without default can raise ValueError: {fi.qualname} is not a handler whose token is known to carry a map")
    # the propagation loop that gives inline children their parent's map
    rt = base.func("DocutilsRenderer._render_tokens")
    ok = False
    for n_ in walk_local(rt.node):
        if isinstance(n_, ast.For) and isinstance(n_.target, ast.Name):
            for inner in n_.body:
                if isinstance(inner, ast.For) and "children" in unparse(inner.iter):
                    for s in inner.body:
                        if isinstance(s, ast.Assign) and unparse(s.targets[0]).endswith(".map") and unparse(s.value) == f"{n_.target.id}.map":
                            ok = True
    k = f"{rt.fq}|inline children receive the parent's map"
    if ok:
        rep.ok("C01.R2", k, rt.site())
    else:
        rep.violation("C01.R2", k, rt.site(), "_render_tokens no longer copies each block token's map to its inline children unconditionally")
    rep.expect_min("C01.R2", 20, "token_line call sites")


# ---------------------------------------------------------------------------
# R3 HTML attribute nullability


@rule("C01.R3")
def r3_html_attr_none(corpus: Corpus, rep: Report, tier: str):
    rep.rule("C01.R3", "HTMLParser delivers None for value-less attributes: Attribute.__getitem__ must not return None")
    m = corpus.mod("parsers.parse_html")
    gi = m.func("Attribute.__getitem__")
    rets = [n for n in walk_local(gi.node) if isinstance(n, ast.Return)]
    if not rets:
        rep.violation("C01.R3", f"{gi.fq}|no return", gi.site(), "Attribute.__getitem__ returns None implicitly")
    for r in rets:
        k = stmt_key(gi, r)
        if _never_none(r.value):
            rep.ok("C01.R3", k, m.site(r))
        else:
            # accepted alternative: the parser callbacks sanitise the attribute list
            if _callbacks_sanitise(corpus):
                rep.ok("C01.R3", k, m.site(r), "callbacks replace None values before building Attribute")
            else:
                rep.violation(
                    "C01.R3",
                    k,
                    m.site(r),
                    "`<img src>` / `<div class>`: HTMLParser passes (name, None); Attribute.__getitem__ hands the None to "
                    "consumers that call str methods on it (Attribute.classes -> .split(), html_to_nodes -> run_directive first_line)",
                )
    # consumers that exist today (listed so that the rule is not vacuous)
    cons = 0
    for fi in corpus.all_functions():
        if fi.is_lambda:
            continue
        for n in walk_local(fi.node):
            if isinstance(n, ast.Subscript) and isinstance(n.value, ast.Attribute) and n.value.attr == "attrs" and fi.module.name.endswith(("html_to_nodes", "parse_html")):
                cons += 1
                rep.listed("C01.R3", stmt_key(fi, n), fi.module.site(n), "consumer of Attribute.__getitem__")
    for n in walk_local(m.func("Attribute.classes").node):
        if isinstance(n, ast.Subscript) and unparse(n.value) == "self":
            cons += 1
    if cons < 2:
        rep.error("C01.R3", f"expected consumers of Attribute.__getitem__ (found {cons})")


def _never_none(e: ast.expr | None) -> bool:
    if e is None:
        return False
    if isinstance(e, ast.Constant):
        return e.value is not None
    if isinstance(e, ast.JoinedStr):
        return True
    if isinstance(e, ast.BoolOp) and isinstance(e.op, ast.Or):
        return _never_none(e.values[-1])
    if isinstance(e, ast.Call) and dotted(e.func) in ("str",):
        return True
    if isinstance(e, ast.IfExp):
        return _never_none(e.body) and _never_none(e.orelse)
    return False


def _callbacks_sanitise(corpus: Corpus) -> bool:
    m = corpus.mod("parsers.parse_html")
    for q in ("HtmlToAst.handle_starttag", "HtmlToAst.handle_startendtag"):
        f = m.func(q)
        text = unparse(f.node)
        if " or ''" not in text and ' or ""' not in text and "is None" not in text:
            return False
    return True


# ---------------------------------------------------------------------------
# R4 re-entry guards


FOREIGN_TEXT_SOURCES = ("read_text", "render", "read")


@rule("C01.R4")
def r4_reentry_guards(corpus: Corpus, rep: Report, tier: str):
    rep.rule("C01.R4", "re-entry into nested_render_text with text that is not a substring of the current text needs a cycle guard")
    g = get_callgraph(corpus)
    nrt = corpus.func("mdit_to_docutils.base:DocutilsRenderer.nested_render_text")
    callers = g.callers().get(nrt.fq, [])
    n_foreign = 0
    for fi, call in callers:
        text_arg = call.args[0] if call.args else None
        if text_arg is None:
            continue
        origin = _text_origin(text_arg, fi)
        k = f"{fi.fq}|nested_render_text({short(text_arg, 40)})"
        site = fi.module.site(call)
        if origin is None:
            rep.ok("C01.R4", k, site, "text derives from token content / caller-supplied block (strictly shorter substring)")
            continue
        n_foreign += 1
        guard = _cycle_guard(fi, call)
        if guard is True:
            rep.ok("C01.R4", k, site, f"foreign text ({origin}) behind a paired in-progress guard")
        else:
            rep.violation(
                "C01.R4",
                f"{fi.fq}|nested_render_text of {origin} without cycle guard",
                site,
                f"text from {origin} re-enters the renderer without an in-progress guard ({guard}): a self-referencing input recurses until RecursionError",
            )
    if n_foreign < 2:
        rep.error("C01.R4", f"expected the include and substitution re-entries, found {n_foreign} foreign-text call(s)")
    rep.expect_min("C01.R4", 6, "callers of nested_render_text")


def _text_origin(arg: ast.expr, fi: FunctionInfo) -> str | None:
    """'file content' / 'template output' when the text argument derives from a file read or Jinja render."""
    names = {n.id for n in ast.walk(arg) if isinstance(n, ast.Name)}
    work = list(names)
    seen = set()
    while work:
        nm = work.pop()
        if nm in seen:
            continue
        seen.add(nm)
        for n in walk_local(fi.node):
            if isinstance(n, ast.Assign) and any(isinstance(t, ast.Name) and t.id == nm for t in n.targets):
                for c in ast.walk(n.value):
                    if isinstance(c, ast.Call) and isinstance(c.func, ast.Attribute):
                        if c.func.attr in ("read_text", "read_bytes"):
                            return "file content (read_text)"
                        if c.func.attr == "render" and isinstance(c.func.value, ast.Call) and "from_string" in unparse(c.func.value.func):
                            return "Jinja template output"
                    if isinstance(c, ast.Name) and c.id not in seen:
                        work.append(c.id)
    return None


def _cycle_guard(fi: FunctionInfo, call: ast.Call):
    """True, or a reason string."""
    # the call must be in a try whose finally removes from a collection rooted in the document
    coll = None
    tr = None
    node: ast.AST = call
    for a in ancestors(call):
        if isinstance(a, (ast.FunctionDef, ast.Lambda)):
            break
        if isinstance(a, ast.Try) and a.finalbody and any(node is s or node in ast.walk(s) for s in a.body):
            for s in a.finalbody:
                for c in ast.walk(s):
                    if isinstance(c, ast.Call) and isinstance(c.func, ast.Attribute) and c.func.attr in ("difference_update", "discard", "remove", "pop"):
                        recv = unparse(c.func.value)
                        if "document" in recv:
                            coll, tr = recv, a
        node = a
    if coll is None:
        return "no finally that removes an in-progress marker"
    blk_stmts = sorted((s for s in walk_local(fi.node) if isinstance(s, ast.stmt) and s.lineno < tr.lineno), key=lambda s: s.lineno)
    inserted = any(
        isinstance(c, ast.Call) and isinstance(c.func, ast.Attribute) and c.func.attr in ("update", "add", "append") and unparse(c.func.value) == coll
        for s in blk_stmts
        for c in ast.walk(s)
    )
    if not inserted:
        return "marker never inserted before the nested render"
    # a test on the collection that leaves the function
    derived = {coll}
    tested = False
    for s in blk_stmts:
        if isinstance(s, ast.Assign) and any(d in unparse(s.value) for d in derived):
            for t in s.targets:
                if isinstance(t, ast.Name):
                    derived.add(t.id)
        if isinstance(s, ast.If) and s.body and isinstance(s.body[-1], (ast.Return, ast.Raise)):
            tt = unparse(s.test)
            if any(d in tt for d in derived):
                tested = True
    if not tested:
        return "no membership test on the in-progress collection that leaves the function"
    return True


# ---------------------------------------------------------------------------
# R5 loop progress (outside the option tokenizer, which is C07.R2)


@rule("C01.R5")
def r5_loop_progress(corpus: Corpus, rep: Report, tier: str):
    rep.rule("C01.R5", "every while loop outside parsers/options.py has a recognised progress variant")
    g = get_callgraph(corpus)
    n = 0
    for fi in corpus.all_functions():
        if fi.is_lambda or fi.module.name.endswith((".parsers.options", "._docs")):
            continue
        for w in walk_local(fi.node):
            if not isinstance(w, ast.While):
                continue
            n += 1
            k = f"{fi.fq}|while {short(w.test, 60)}"
            site = fi.module.site(w)
            v = _loop_variant(w, fi, corpus)
            if v:
                rep.ok("C01.R5", k, site, v)
            else:
                rep.violation("C01.R5", k, site, "no progress variant recognised: some cyclic path neither shrinks the tested collection, advances the search position, reads the stream nor changes the candidate")
    rep.expect_min("C01.R5", 5, "while loops outside options.py")


def _top_level_or_all_paths(w: ast.While, pred) -> bool:
    """``pred`` holds for a statement every cyclic path executes (top-level statement of the body,
    not after a conditional continue)."""
    for st in w.body:
        if any(pred(c) for c in ast.walk(st) if not isinstance(st, (ast.If, ast.For, ast.While, ast.Try)) or st is c) and not isinstance(st, (ast.If, ast.For, ast.While, ast.Try)):
            return True
        # an `if` whose branches end in break/return/raise does not create a cyclic path around later statements
        if isinstance(st, ast.If):
            ends = lambda b: bool(b) and isinstance(b[-1], (ast.Break, ast.Return, ast.Raise))
            if ends(st.body) and not st.orelse:
                continue
            if st.orelse and ends(st.body) and ends(st.orelse):
                return True
            return False
        if isinstance(st, (ast.Continue,)):
            return False
    return False


def _loop_variant(w: ast.While, fi: FunctionInfo, corpus: Corpus) -> str | None:
    test = w.test
    # pop-until-empty
    if isinstance(test, ast.Name):
        nm = test.id

        def is_pop(c):
            return isinstance(c, ast.Call) and isinstance(c.func, ast.Attribute) and c.func.attr in ("pop", "popleft") and unparse(c.func.value) == nm

        if _top_level_or_all_paths(w, is_pop):
            grows = any(
                isinstance(c, ast.Call) and isinstance(c.func, ast.Attribute) and c.func.attr in ("append", "extend", "insert") and unparse(c.func.value) == nm
                for c in ast.walk(w)
            )
            if not grows:
                return f"pop-until-empty on {nm}"
    # find-then-slice
    if isinstance(test, ast.Compare) and isinstance(test.left, ast.Name) and isinstance(test.ops[0], ast.NotEq) and unparse(test.comparators[0]) == "-1":
        pos = test.left.id
        buf = None
        sliced = refound = False
        for st in w.body:
            if isinstance(st, ast.Assign) and isinstance(st.targets[0], ast.Name):
                t = st.targets[0].id
                v = st.value
                if isinstance(v, ast.Subscript) and isinstance(v.slice, ast.Slice) and unparse(v.value) == t and v.slice.lower is not None and unparse(v.slice.lower) in (f"{pos} + 1",) and v.slice.upper is None:
                    buf, sliced = t, True
                if t == pos and isinstance(v, ast.Call) and isinstance(v.func, ast.Attribute) and v.func.attr == "find" and sliced and unparse(v.func.value) == buf:
                    refound = True
        if sliced and refound:
            return f"find-then-slice: {buf} shrinks by at least one byte per iteration"
    # eof flag set by read
    if isinstance(test, ast.UnaryOp) and isinstance(test.op, ast.Not) and unparse(test.operand) == "self.eof":
        g = get_callgraph(corpus)
        reach = g.reachable([fi]) if False else None
        # every iteration calls read_buffer directly or through readline
        def reads(c):
            return isinstance(c, ast.Call) and isinstance(c.func, ast.Attribute) and c.func.attr in ("read_buffer", "readline") and unparse(c.func.value) == "self"

        if _top_level_or_all_paths(w, reads):
            rb = fi.cls.methods.get("read_buffer") if fi.cls else None
            if rb is not None and any(isinstance(s, ast.Assign) and unparse(s.targets[0]) == "self.eof" and unparse(s.value) == "True" for s in walk_local(rb.node)):
                return "eof flag set by read_buffer() when the stream returns b'' (finite stream assumed)"
    # candidate changes every iteration against an unmodified collection
    if isinstance(test, ast.Compare) and isinstance(test.ops[0], ast.In):
        coll = unparse(test.comparators[0])
        cand_names = {n.id for n in ast.walk(test.left) if isinstance(n, ast.Name)}
        modified_coll = any(
            (isinstance(c, ast.Call) and isinstance(c.func, ast.Attribute) and unparse(c.func.value) == coll and c.func.attr in ("pop", "remove", "discard", "clear"))
            for c in ast.walk(w)
        )
        counters = set()
        for st in w.body:
            if isinstance(st, ast.AugAssign) and isinstance(st.op, ast.Add) and isinstance(st.target, ast.Name) and isinstance(st.value, ast.Constant) and isinstance(st.value.value, int) and st.value.value > 0:
                counters.add(st.target.id)
        changes = False
        for st in w.body:
            if isinstance(st, ast.Assign) and isinstance(st.targets[0], ast.Name) and st.targets[0].id in cand_names:
                if {n.id for n in ast.walk(st.value) if isinstance(n, ast.Name)} & counters:
                    changes = True
        if counters & cand_names:
            changes = True
        if changes and not modified_coll:
            return f"uniquifier: the candidate embeds a counter incremented every iteration; {coll} is finite and unmodified"
    # tree descent: on every cyclic path the cursor is rebound to one of its own children (finite tree)
    for st in w.body:
        if not (isinstance(st, ast.Assign) and len(st.targets) == 1 and isinstance(st.targets[0], ast.Name)):
            continue
        cur = st.targets[0].id

        def from_children(e, depth=0):
            """``e`` denotes a member / sub-list of ``<cur>.children``."""
            if depth > 3:
                return False
            if isinstance(e, ast.Subscript):
                return from_children(e.value, depth + 1)
            if isinstance(e, ast.Attribute) and e.attr == "children" and isinstance(e.value, ast.Name) and e.value.id == cur:
                return True
            if isinstance(e, ast.ListComp) and len(e.generators) == 1:
                gen = e.generators[0]
                return from_children(gen.iter, depth + 1) and isinstance(e.elt, ast.Name) and isinstance(gen.target, ast.Name) and e.elt.id == gen.target.id
            if isinstance(e, ast.Name):
                defs = [d for d in w.body if isinstance(d, ast.Assign) and len(d.targets) == 1 and isinstance(d.targets[0], ast.Name) and d.targets[0].id == e.id]
                return len(defs) == 1 and e.id != cur and from_children(defs[0].value, depth + 1)
            return False

        if isinstance(st.value, ast.Subscript) and from_children(st.value):
            others = [d for d in ast.walk(w) if isinstance(d, ast.Assign) and any(isinstance(t, ast.Name) and t.id == cur for t in d.targets) and d is not st]
            if not others and _top_level_or_all_paths(w, lambda c: c is st):
                return f"tree descent: `{cur}` is rebound to one of its own children on every cyclic path (finite tree)"
    return None


# ---------------------------------------------------------------------------
# R6 YAML values are narrowed before use


@rule("C01.R6")
def r6_yaml_narrowing(corpus: Corpus, rep: Report, tier: str):
    rep.rule(
        "C01.R6",
        "values produced by yaml.safe_load, and values read out of them, are isinstance-narrowed (or validated as a mapping) "
        "before attribute/subscript/iteration/**-unpack use",
    )
    n = 0
    for fi in corpus.all_functions():
        if fi.is_lambda:
            continue
        for st in walk_local(fi.node):
            if not (isinstance(st, ast.Assign) and len(st.targets) == 1 and isinstance(st.targets[0], ast.Name)):
                continue
            if not any(isinstance(c, ast.Call) and fi.module.resolve(dotted(c.func) or "") in ("yaml.safe_load", "yaml.load") for c in ast.walk(st.value)):
                continue
            n += 1
            var = st.targets[0].id
            _check_narrowed(corpus, fi, var, st, fi.node, rep)
            n += _check_derived(corpus, fi, {var}, rep)
    # merge_file_level: the front matter arrives as a parameter (a dict by the callers' narrowing); what is read
    # out of it is YAML_ANY again
    mfl = corpus.func("config.main:merge_file_level")
    if "topmatter" not in mfl.params:
        rep.error("C01.R6", f"{mfl.fq}: the front-matter parameter `topmatter` is gone")
    n += _check_derived(corpus, mfl, {"topmatter"}, rep)
    if n < 6:
        rep.error("C01.R6", f"expected at least 6 YAML-valued locals (4 load sites, the `myst` table and its values), found {n}")


def _check_derived(corpus: Corpus, fi: FunctionInfo, containers: set[str], rep: Report) -> int:
    """Locals that receive a value read OUT of a YAML container (element, `.get`, loop over items/values): each is
    YAML_ANY again.  Aliases of a container (``updates = myst``) are containers too."""
    seen: set[tuple[str, int]] = set()
    work = list(containers)
    done = set()
    count = 0
    while work:
        c = work.pop()
        if c in done:
            continue
        done.add(c)

        def reads_out(e: ast.expr) -> bool:
            if isinstance(e, ast.Subscript) and isinstance(e.value, ast.Name) and e.value.id == c and isinstance(e.ctx, ast.Load):
                return True
            return isinstance(e, ast.Call) and isinstance(e.func, ast.Attribute) and isinstance(e.func.value, ast.Name) and e.func.value.id == c and e.func.attr in ("get", "pop", "setdefault")

        for node in fi.local_nodes():
            new: list[tuple[str, ast.AST, ast.AST]] = []  # (var, defining node, scope)
            if isinstance(node, ast.Assign) and len(node.targets) == 1 and isinstance(node.targets[0], ast.Name):
                if reads_out(node.value):
                    new.append((node.targets[0].id, node, fi.node))
                elif isinstance(node.value, ast.Name) and node.value.id == c and node.targets[0].id != c:
                    work.append(node.targets[0].id)  # alias (the aliasing itself is judged as a use of `c`)
            elif isinstance(node, (ast.For, ast.comprehension)):
                it, tg = node.iter, node.target
                scope = node if isinstance(node, ast.For) else parent(node)
                if isinstance(it, ast.Call) and isinstance(it.func, ast.Attribute) and isinstance(it.func.value, ast.Name) and it.func.value.id == c and not it.args:
                    if it.func.attr == "items" and isinstance(tg, ast.Tuple) and len(tg.elts) == 2 and isinstance(tg.elts[1], ast.Name):
                        new.append((tg.elts[1].id, node, scope))
                    elif it.func.attr == "values" and isinstance(tg, ast.Name):
                        new.append((tg.id, node, scope))
            for var, dnode, scope in new:
                if (var, id(dnode)) in seen:
                    continue
                seen.add((var, id(dnode)))
                count += 1
                _check_narrowed(corpus, fi, var, dnode, scope, rep)
                if var not in done:
                    work.append(var)
    return count


_MAPPING_TYPES = ("dict", "Mapping", "MutableMapping", "OrderedDict")


def _validator_is_mapping(e: ast.expr) -> bool:
    """The validator expression rejects everything that is not a mapping (``**value`` is then safe)."""
    if isinstance(e, ast.List):
        return any(_validator_is_mapping(x) for x in e.elts)
    if not isinstance(e, ast.Call):
        return False
    name = (dotted(e.func) or "").split(".")[-1]
    if name == "instance_of" and len(e.args) == 1:
        t = e.args[0]
        ts = t.elts if isinstance(t, ast.Tuple) else [t]
        return bool(ts) and all((dotted(x) or "").split(".")[-1] in _MAPPING_TYPES for x in ts)
    if name == "deep_mapping":
        mv = e.args[2] if len(e.args) > 2 else None
        for k in e.keywords:
            if k.arg == "mapping_validator":
                mv = k.value
        return mv is not None and _validator_is_mapping(mv)
    return False


def _config_fields(corpus: Corpus) -> dict[str, dict[str, ast.expr]]:
    """name -> metadata dict (key -> value expression) of every MdParserConfig field."""

    def compute():
        ci = corpus.cls("config.main:MdParserConfig")
        out: dict[str, dict[str, ast.expr]] = {}
        for st in ci.node.body:
            if not (isinstance(st, ast.AnnAssign) and isinstance(st.target, ast.Name) and isinstance(st.value, ast.Call)):
                continue
            if (dotted(st.value.func) or "").split(".")[-1] != "field":
                continue
            md = None
            for k in st.value.keywords:
                if k.arg == "metadata":
                    md = k.value
            meta: dict[str, ast.expr] = {}
            if isinstance(md, ast.Dict):
                for k, v in zip(md.keys, md.values):
                    if isinstance(k, ast.Constant) and isinstance(k.value, str):
                        meta[k.value] = v
            elif md is not None:
                raise Unsupported(f"MdParserConfig.{st.target.id}: metadata is not a dict literal")
            out[st.target.id] = meta
        if len(out) < 20:
            raise AnchorMissing(f"MdParserConfig: only {len(out)} dataclass fields found")
        return out

    return corpus.cache("c01-config-fields", compute)


def _validated_as_mapping(corpus: Corpus, fi: FunctionInfo, cfg, var: str, use: ast.AST) -> tuple[str, str]:
    """('ok'|'no'|'violation'|'error', text): the use of the YAML value `var` happens only after
    ``validate_field(inst, FIELD, var)`` completed normally, for fields whose validator admits mappings only."""
    U = cfg.stmt_of(use)
    cands = []
    for c in fi.local_nodes():
        if isinstance(c, ast.Call) and fi.module.resolve(dotted(c.func) or "").split(".")[-1] == "validate_field" and len(c.args) == 3:
            if isinstance(c.args[2], ast.Name) and c.args[2].id == var:
                cands.append(c)
    for c in cands:
        V = cfg.stmt_of(c)
        if V is U or not cfg.dominates(V, U):
            continue
        # every handler that catches a validation failure must not continue to the use
        leak = False
        for a in ancestors(c):
            if isinstance(a, (ast.FunctionDef, ast.Lambda)):
                break
            if isinstance(a, ast.Try) and any(c in ast.walk(s) for s in a.body):
                for h in a.handlers:
                    if cfg.paths_avoiding(("H", h), U, lambda n: n is V):
                        leak = True
        if leak:
            continue
        # the value must not be re-bound between the validation and the use
        rebound = False
        for n in fi.local_nodes():
            if isinstance(n, ast.Name) and n.id == var and isinstance(n.ctx, ast.Store):
                R = cfg.stmt_of(n)
                if R is U and isinstance(R, (ast.Assign, ast.AugAssign, ast.AnnAssign)):
                    starts = list(cfg.succ.get(R, []))  # the right-hand side is evaluated before the store
                else:
                    starts = [R]
                if any(s is U or cfg.paths_avoiding(s, U, lambda m: m is V) for s in starts if s is not V):
                    rebound = True
        if rebound:
            continue
        # which fields reach the use?  (a test on the field's metadata, or on the option name, selects them)
        ftext = unparse(c.args[1])
        key_var = None
        for lp in fi.local_nodes():
            if isinstance(lp, ast.For) and isinstance(lp.target, ast.Tuple) and len(lp.target.elts) == 2:
                a0, a1 = lp.target.elts
                if isinstance(a1, ast.Name) and a1.id == var and isinstance(a0, ast.Name):
                    key_var = a0.id
        flag = None
        names: set[str] | None = None
        unknown_selector = None
        before = {(unparse(t), p_) for t, p_ in cfg.guards(V)}
        for test, pol in cfg.guards(U):
            txt = unparse(test)
            if (txt, pol) in before:
                continue  # held already when the validation ran: not a condition between validation and use
            if isinstance(test, ast.Call) and dotted(test.func) == "isinstance":
                continue
            test = _single_def(fi, test)
            sel = None
            if isinstance(test, ast.Call) and unparse(test.func) == f"{ftext}.metadata.get" and test.args and isinstance(test.args[0], ast.Constant):
                if len(test.args) == 1 or (isinstance(test.args[1], ast.Constant) and not test.args[1].value):
                    sel = test.args[0].value
            elif isinstance(test, ast.Subscript) and unparse(test.value) == f"{ftext}.metadata" and isinstance(test.slice, ast.Constant):
                sel = test.slice.value
            if sel is not None and pol:
                flag = sel
                continue
            if key_var and isinstance(test, ast.Compare) and len(test.ops) == 1 and isinstance(test.left, ast.Name) and test.left.id == key_var:
                r = test.comparators[0]
                consts = None
                if isinstance(r, ast.Constant) and isinstance(r.value, str):
                    consts = {r.value}
                elif isinstance(r, (ast.Tuple, ast.List, ast.Set)) and all(isinstance(x, ast.Constant) and isinstance(x.value, str) for x in r.elts):
                    consts = {x.value for x in r.elts}
                if consts is not None and ((isinstance(test.ops[0], (ast.Eq, ast.In)) and pol) or (isinstance(test.ops[0], (ast.NotEq, ast.NotIn)) and not pol)):
                    names = consts if names is None else names & consts
                    continue
            unknown_selector = txt
        fields = _config_fields(corpus)
        chosen = dict(fields)
        which = []
        if flag is not None:
            chosen = {f: m for f, m in chosen.items() if flag in m and not (isinstance(m[flag], ast.Constant) and not m[flag].value)}
            which.append(f"fields with metadata[{flag!r}]")
        if names is not None:
            chosen = {f: m for f, m in chosen.items() if f in names}
            which.append(f"fields named {sorted(names)}")
        if which and not chosen:
            return ("error", f"no MdParserConfig field is selected by {' and '.join(which)}")
        if not which and unknown_selector is not None:
            return ("error", f"the use is reached under `{unknown_selector}`, which is not a recognised selection of config fields (metadata flag or option name)")
        which = " and ".join(which) or "all fields (the use is unconditional after the validation)"
        bad = [f for f, m in chosen.items() if "validator" not in m or not _validator_is_mapping(m["validator"])]
        if bad:
            return ("violation", f"validated by validate_field, but the validator of `{bad[0]}` ({which}) admits values that are not mappings")
        return ("ok", f"after validate_field succeeded; {which} ({', '.join(sorted(chosen))}) are validated as mappings")
    return ("no", "")


def _single_def(fi: FunctionInfo, e: ast.expr) -> ast.expr:
    """A local that is bound exactly once stands for the expression it was bound to (one level)."""
    if not isinstance(e, ast.Name):
        return e
    defs = []
    for n in fi.local_nodes():
        if isinstance(n, ast.Name) and n.id == e.id and isinstance(n.ctx, ast.Store):
            defs.append(parent(n))
    if len(defs) == 1 and isinstance(defs[0], ast.Assign) and len(defs[0].targets) == 1 and defs[0].targets[0] is not None and isinstance(defs[0].targets[0], ast.Name):
        return defs[0].value
    return e


_USE_ERRORS = ("TypeError", "AttributeError", "KeyError", "IndexError")


def _inside_broad_try(use: ast.AST, mapping_use: bool) -> bool:
    """The use sits in a ``try`` body whose handler catches whatever a wrongly-typed value raises there."""
    node = use
    for a in ancestors(use):
        if isinstance(a, (ast.FunctionDef, ast.Lambda)):
            break
        if isinstance(a, ast.Try) and any(node is s for s in a.body):
            for h in a.handlers:
                elts = [None] if h.type is None else (h.type.elts if isinstance(h.type, ast.Tuple) else [h.type])
                names = {"BaseException" if t is None else (dotted(t) or "").split(".")[-1] for t in elts}
                if names & {"Exception", "BaseException"}:
                    return True
                if mapping_use and "TypeError" in names:
                    return True  # `**x` / `{**x}` of a non-mapping raises TypeError only
        if isinstance(a, ast.With) and any(node is s for s in a.body):
            for it in a.items:
                ce = it.context_expr
                if isinstance(ce, ast.Call) and (dotted(ce.func) or "").split(".")[-1] == "suppress":
                    names = {(dotted(t) or "").split(".")[-1] for t in ce.args}
                    if names & {"Exception", "BaseException"} or (mapping_use and "TypeError" in names):
                        return True
        node = a
    return False


def _check_narrowed(corpus: Corpus, fi: FunctionInfo, var: str, assign: ast.AST, scope: ast.AST, rep: Report) -> None:
    cfg = get_cfg(fi)
    uses = []
    line0 = getattr(assign, "lineno", None) or getattr(getattr(assign, "iter", None), "lineno", 0)
    nodes = walk_local(scope) if scope is not fi.node else fi.local_nodes()
    for n in nodes:
        if getattr(n, "lineno", 0) < line0:
            continue
        risky = None
        if isinstance(n, ast.Attribute) and isinstance(n.value, ast.Name) and n.value.id == var and isinstance(parent(n), ast.Call) and parent(n).func is n:
            risky = n
        elif isinstance(n, ast.Subscript) and isinstance(n.value, ast.Name) and n.value.id == var and isinstance(n.ctx, ast.Load):
            risky = n
        elif isinstance(n, (ast.For, ast.comprehension)) and isinstance(n.iter, ast.Name) and n.iter.id == var:
            risky = n.iter
        elif isinstance(n, ast.keyword) and n.arg is None and isinstance(n.value, ast.Name) and n.value.id == var:
            risky = n.value
        elif isinstance(n, ast.Starred) and isinstance(n.value, ast.Name) and n.value.id == var and isinstance(n.ctx, ast.Load):
            risky = n.value
        elif isinstance(n, ast.Dict) and any(k is None and isinstance(v, ast.Name) and v.id == var for k, v in zip(n.keys, n.values)):
            risky = n
        elif isinstance(n, ast.Assign) and isinstance(n.value, ast.Name) and n.value.id == var and n is not assign:
            risky = n.value  # aliasing: the alias is used un-narrowed later (updates = myst)
        if risky is not None:
            uses.append(risky)
    if isinstance(assign, ast.Assign):
        k0 = f"{fi.fq}|{var} = {short(assign.value, 50)}"
    else:
        k0 = f"{fi.fq}|{var} in {short(assign.iter, 50)}"  # loop / comprehension variable
    site0 = fi.module.site(assign if hasattr(assign, "lineno") else assign.iter)
    if not uses:
        rep.ok("C01.R6", k0, site0, "value is only returned/tested/passed on")
        return
    bad = []
    how = set()
    for u in uses:
        st = cfg.stmt_of(u)
        gs = cfg.guards(st)
        ok = any(pol and isinstance(t, ast.Call) and dotted(t.func) == "isinstance" and t.args and unparse(t.args[0]) == var for t, pol in gs)
        if ok:
            how.add(f"isinstance({var}, ...)")
            continue
        is_mapping_use = isinstance(u, ast.Dict) or isinstance(parent(u), ast.keyword)
        if _inside_broad_try(u, is_mapping_use):
            how.add("a try/except that catches the TypeError/AttributeError of a wrongly-typed value")
            continue
        verdict, text = _validated_as_mapping(corpus, fi, cfg, var, u) if is_mapping_use else ("no", "")
        if verdict == "ok":
            how.add(text)
        elif verdict == "error":
            rep.error("C01.R6", f"{fi.module.site(u)}: use of the YAML value `{var}`: {text}")
            return
        else:
            bad.append((u, text))
    if bad:
        u, text = bad[0]
        shown = parent(u) if not isinstance(u, (ast.Name, ast.Dict)) else u
        rep.violation(
            "C01.R6",
            k0,
            fi.module.site(u),
            f"`{short(shown, 60)}` uses the YAML value `{var}` (dict, list, scalar or None) without a dominating isinstance narrowing"
            + (f" ({text})" if text else " or successful mapping validation"),
        )
    else:
        rep.ok("C01.R6", k0, site0, f"{len(uses)} use(s), all dominated by " + "; ".join(sorted(how)))


RULES = [r1_failure_mode_closure, r2_token_line, r3_html_attr_none, r4_reentry_guards, r5_loop_progress, r6_yaml_narrowing]


# ---------------------------------------------------------------------------
# mutants of the current tree


def mutants(corpus: Corpus):
    out = []
    base = corpus.mod("mdit_to_docutils.base")
    h2n = corpus.mod("mdit_to_docutils.html_to_nodes")
    # 1. drop the try around tokenize_html in html_to_nodes
    f = h2n.func("html_to_nodes")
    tr = find_stmt(f, lambda s: isinstance(s, ast.Try))
    # (since the F23 repair the only raise of HTMLParser.feed is caught inside the parser class itself:
    #  the mutant also reverts that repair, otherwise nothing can escape and dropping the try is harmless)
    ph = corpus.mod("parsers.parse_html")
    pms = ph.functions.get("HtmlToAst.parse_marked_section")
    ptr = find_stmt(pms, lambda s: isinstance(s, ast.Try)) if pms is not None else None
    if tr is not None and ptr is not None:
        out.append(Mutant("c01-html-try-dropped", "C01.R1", h2n.rel, unwrap_try(f, tr), expect="feed", canary=True, more={ph.rel: unwrap_try(pms, ptr)}))
    elif tr is not None:
        out.append(Mutant("c01-html-try-dropped", "C01.R1", h2n.rel, unwrap_try(f, tr), expect="feed", canary=True))
    else:
        out.append(("c01-html-try-dropped", "no try in html_to_nodes"))
    # 2. narrow except Exception in render_substitution
    f = base.func("DocutilsRenderer.render_substitution")
    h = find_node(f, lambda n: isinstance(n, ast.ExceptHandler) and n.type is not None and unparse(n.type) == "Exception")
    if h is not None:
        out.append(Mutant("c01-substitution-except-narrowed", "C01.R1", base.rel, splice(base.src, h.type, "jinja2.TemplateSyntaxError"), expect="render_substitution"))
    # 3. narrow except Exception around fetch_inventory
    f = base.func("DocutilsRenderer.get_inventory_matches")
    h = find_node(f, lambda n: isinstance(n, ast.ExceptHandler) and n.type is not None and unparse(n.type) == "Exception")
    if h is not None:
        out.append(Mutant("c01-inventory-except-narrowed", "C01.R1", base.rel, splice(base.src, h.type, "OSError"), expect="inventory"))
    # 4. merge_file_level: narrow the validation handler
    cm = corpus.mod("config.main")
    f = cm.func("merge_file_level")
    h = find_node(f, lambda n: isinstance(n, ast.ExceptHandler) and n.type is not None and unparse(n.type) == "Exception")
    if h is not None:
        out.append(Mutant("c01-merge-except-narrowed", "C01.R1", cm.rel, splice(cm.src, h.type, "TypeError"), expect="config"))
    # 5. include mock: drop `except Exception` around read_text
    mk = corpus.mod("mocking")
    f = mk.func("MockIncludeDirective.run")
    h = find_node(f, lambda n: isinstance(n, ast.ExceptHandler) and n.type is not None and unparse(n.type) == "Exception")
    if h is not None:
        out.append(Mutant("c01-include-read-except-narrowed", "C01.R1", mk.rel, splice(mk.src, h.type, "PermissionError"), expect="read_text", canary=True))
    # 6. a new raise on a render path
    f = base.func("DocutilsRenderer.render_hr")
    out.append(Mutant("c01-raise-on-render-path", "C01.R1", base.rel, splice(base.src, f.node.body[0], "if token.markup == '___':\n            raise KeyError(token.markup)\n        " + ast.get_source_segment(base.src, f.node.body[0])), expect="render_hr"))
    # 7. suppress(ValueError) replaced around int(token.attrs[...])
    f = base.func("DocutilsRenderer.render_fence")
    w = find_node(f, lambda n: isinstance(n, ast.With) and "suppress(ValueError)" in unparse(n.items[0].context_expr))
    if w is not None:
        out.append(Mutant("c01-suppress-narrowed", "C01.R1", base.rel, splice(base.src, w.items[0].context_expr, "suppress(KeyError)"), expect="lineno-start"))
    # 8. token_line without default in a handler without map knowledge
    f = base.func("DocutilsRenderer.render_s")
    c = find_node(f, lambda n: isinstance(n, ast.Call) and unparse(n.func) == "token_line")
    if c is not None:
        out.append(Mutant("c01-token-line-default-dropped", "C01.R2", base.rel, splice(base.src, c, "token_line(token)"), expect="render_s", canary=True))
    # 9. substitution cycle guard: drop the early return
    f = base.func("DocutilsRenderer.render_substitution")
    iff = find_node(f, lambda n: isinstance(n, ast.If) and unparse(n.test) == "cyclic")
    if iff is not None:
        out.append(Mutant("c01-substitution-guard-dropped", "C01.R4", base.rel, splice(base.src, iff.body[-1], "pass"), expect="Jinja", canary=True))
    # 10. field-list loop loses its pop
    f = base.func("DocutilsRenderer.render_field_list")
    st = find_node(f, lambda n: isinstance(n, ast.Assign) and unparse(n.value) == "children.pop(0)" and isinstance(parent(n), ast.While))
    if st is not None:
        out.append(Mutant("c01-fieldlist-pop-dropped", "C01.R5", base.rel, splice(base.src, st.value, "children[0]"), expect="while children"))
    # 11. front matter: isinstance narrowing dropped
    f = base.func("DocutilsRenderer.render_front_matter")
    iff = find_node(f, lambda n: isinstance(n, ast.If) and "isinstance(data, dict)" in unparse(n.test))
    if iff is not None:
        out.append(Mutant("c01-front-matter-narrowing-dropped", "C01.R6", base.rel, splice(base.src, iff.test, "data is None"), expect="data", canary=True))
    # 12. run_directive no longer catches MockingError
    f = base.func("DocutilsRenderer.run_directive")
    h = find_node(f, lambda n: isinstance(n, ast.ExceptHandler) and n.type is not None and unparse(n.type) == "MockingError")
    if h is not None:
        out.append(Mutant("c01-mockingerror-handler-narrowed", "C01.R1", base.rel, splice(base.src, h.type, "NotImplementedError"), expect="MockingError"))
    # --- regressions of the repaired defects (each fix reverted) ---
    for modname, q, tag in (("config.main", "read_topmatter", "topmatter"), ("mdit_to_docutils.base", "DocutilsRenderer.render_front_matter", "front-matter"), ("parsers.directives", "_parse_directive_options", "as-yaml")):
        m = corpus.mod(modname)
        f = m.func(q)
        h = find_node(f, lambda n: isinstance(n, ast.ExceptHandler) and n.type is not None and "YAMLError" in unparse(n.type))
        if h is not None:
            out.append(Mutant(f"c01-yaml-handler-narrowed-{tag}", "C01.R1", m.rel, splice(m.src, h.type, "(yaml.parser.ParserError, yaml.scanner.ScannerError)"), expect="yaml.safe_load", canary=(tag == "topmatter")))
    om = corpus.mod("parsers.options")
    f = om.func("_scan_flow_scalar_non_spaces")
    iff = find_node(f, lambda n: isinstance(n, ast.If) and unparse(n.test).startswith("code >"))
    if iff is not None:
        out.append(Mutant("c01-chr-range-check-dropped", "C01.R1", om.rel, splice(om.src, iff.test, "False"), expect="chr(code)"))
    f = base.func("DocutilsRenderer.dict_to_fm_field_list")
    h = find_node(f, lambda n: isinstance(n, ast.ExceptHandler) and n.type is not None and "TypeError" in unparse(n.type))
    if h is not None:
        out.append(Mutant("c01-json-dumps-handler-narrowed", "C01.R1", base.rel, splice(base.src, h.type, "RecursionError"), expect="json.dumps"))
    ph = corpus.mod("parsers.parse_html")
    f = ph.func("Attribute.__getitem__")
    r = find_node(f, lambda n: isinstance(n, ast.Return))
    if r is not None and isinstance(r.value, ast.BoolOp):
        out.append(Mutant("c01-attr-none-coalescing-dropped", "C01.R3", ph.rel, splice(ph.src, r.value, unparse(r.value.values[0])), expect="__getitem__"))
    dm = corpus.mod("parsers.directives")
    f = dm.func("_parse_directive_options")
    for n in walk_local(f.node):
        if isinstance(n, ast.Try) and any("converter(" in unparse(b) for b in n.body):
            h = n.handlers[0]
            out.append(Mutant("c01-converter-handler-narrowed", "C01.R1", dm.rel, splice(dm.src, h.type, "(ValueError, TypeError)"), expect="converter(value)"))
    sm = corpus.mod("mdit_to_docutils.sphinx_")
    f = sm.func("SphinxRenderer.render_link_unknown")
    for n in walk_local(f.node):
        if isinstance(n, ast.Try) and any("is_file" in unparse(b) for b in n.body):
            out.append(Mutant("c01-is-file-handler-narrowed", "C01.R1", sm.rel, splice(sm.src, n.handlers[0].type, "FileNotFoundError"), expect="is_file"))
    f = mk.func("MockIncludeDirective.run")
    iff = find_node(f, lambda n: isinstance(n, ast.If) and "myst_include_stack" in unparse(n.test) and " in " in unparse(n.test))
    if iff is not None:
        out.append(Mutant("c01-include-cycle-guard-dropped", "C01.R4", mk.rel, splice(mk.src, iff.body[-1], "pass"), expect="file content"))
    return out
