"""C01 - parsing is total: failure-mode closure, re-entry guards, loop progress."""

from __future__ import annotations

import ast

from ..callgraph import get_callgraph
from ..corpus import (
    AnchorMissing,
    Corpus,
    Unsupported,
    FunctionInfo,
    ancestors,
    calls_in,
    dotted,
    enclosing_function,
    parent,
    short,
    splice,
    stmt_key,
    unparse,
    walk_local,
)
from ..flow import get_cfg
from ..report import Report
from ..mutant import Mutant
from .common import delete_stmt, escape_closure, find_node, find_stmt, replace_node, rule, unwrap_try

PROP = "C01"
READY = True

FRONT_ENTRIES: list[tuple[str | None, str, list[str]]] = [
    ("docutils", "parsers.docutils_:Parser.parse", []),
    ("sphinx", "parsers.sphinx_:MystParser.parse", []),
    (None, "mdit_to_docutils.transforms:UnreferencedFootnotesDetector.apply", []),
    (None, "mdit_to_docutils.transforms:SortFootnotes.apply", []),
    (None, "mdit_to_docutils.transforms:CollectFootnotes.apply", []),
    (None, "mdit_to_docutils.transforms:ResolveAnchorIds.apply", []),
    ("sphinx", "sphinx_ext.myst_refs:MystReferenceResolver.run", []),
    ("sphinx", "sphinx_ext.directives:FigureMarkdown.run", []),
    ("sphinx", "sphinx_ext.directives:SubstitutionReferenceRole.run", []),
]
API_ENTRIES: list[tuple[str | None, str, list[str]]] = [
    (None, "parsers.options:options_to_items", ["myst_parser.parsers.options.TokenizeError"]),
    (None, "parsers.directives:parse_directive_text", ["docutils.parsers.rst.states.MarkupError"]),
    (None, "inventory:load", ["builtins.ValueError", "builtins.OSError", "zlib.error"]),
    (None, "inventory:fetch_inventory", ["builtins.ValueError", "builtins.OSError", "zlib.error"]),
]

META = {
    "explanation": (
        "Static failure-mode closure plus targeted necessary conditions of totality. "
        "R1: an inter-procedural exception-escape analysis (summaries of (exception class, origin) per function, filtered by enclosing "
        "except/suppress handlers, fixpoint over the resolved call graph; the renderer's dynamic dispatch - self.rules[..](x), a local bound "
        "from self.rules.get/[..], getattr(self, <render_* name from an f-string or a class-level table>) - and the docutils callback edges "
        "are special edges, recognised by structure) shows that no exception MyST raises itself and no exception of a catalogued fallible "
        "library call on document-, front-matter- or file-controlled data reaches one of the nine front-end entries; API functions may only "
        "leak their documented class. Catalogue: a directive's run() (foreign code: Exception - docutils' own Figure.run raises IndexError; discharged by the "
        "catch-all of run_directive, which re-raises only docutils' SystemMessage halt), yaml load (YAMLError classes; the plain ValueError / "
        "KeyError / IndexError / AttributeError of PyYAML's scalar constructors for matched and for explicitly tagged scalars, read from "
        "yaml/constructor.py; RecursionError because the Composer recurses per nesting level, read from yaml/composer.py), json.dumps, chr, int(str) (discharged by digit-set tests, also inter-procedurally through a parameter or "
        "a pure observation such as stream.peek()), file/URL access, Path stat, jinja2, HTMLParser.feed, Lexer, parselinenos, import_module, "
        "StreamBuffer.forward(N) executed before the loop that validates the next N characters (IndexError past the end "
        "sentinel), 2-argument getattr (discharged for dataclass field names and for class-level method-name tables), next() (discharged for itertools "
        "infinite iterators), urlparse/urlsplit, Sphinx's env.relfn2path() and download_reference(reftarget=..) on text that went through "
        "percent-decoding (Path.resolve(): 'embedded null byte'; discharged by try/except ValueError, a dominating NUL test, or - for "
        "download_reference - a successful relfn2path of the same text; text that never was percent-decoded is assumed NUL-free because "
        "markdown-it's normalize rule replaces NUL by U+FFFD, verified in its source), zlib/decode, foreign callables, and tuple-unpacking of split-derived sequences (length model "
        "over maxsplit, separator tests, slices, padding, len() guards). An origin that only runs under a flag parameter which every "
        "package-internal call chain fixes to False is dead for entries outside that chain. "
        "R2 token_line() without default only where the token carries a map (the map propagation loop may live in a helper that "
        "_render_tokens always calls; a private helper inherits the table entry of the handlers that are its only callers). R3 HTML attribute values are never None. R4 text re-entering nested_render_text that is not a "
        "substring of the current text (file content, Jinja output - also through a compiled-template helper) sits behind a paired "
        "in-progress guard (try/finally or a @contextmanager that brackets its yield); the guard of included files must be keyed by an "
        "absolute normalised path (normpath/abspath/realpath/resolve). Asserts are discharged when they restate a proved fact: the docutils "
        "directive-result contract wherever the check lives, and `assert x is not None` inside a consumer loop whose generator provably yields "
        "a key-typed token before every value-typed one (yield-protocol check on both CFGs). R5 every while loop outside the option tokenizer has "
        "a recognised progress variant (shrinking list, bounded counter, find-then-slice, stream read / flag from a read, counter in the "
        "candidate, tree descent, tree worklist, popping test); a cyclic path that provably changes nothing the tests read is a violation. "
        "R6 YAML values and values read out of them are narrowed, validated as mappings, or used inside a catching try. R7 a docutils node "
        "is offered to the name registry once per path. R8 a render-environment slot that may hold None is dereferenced only under a None "
        "test. R9 attributes MyST adds to the docutils document are read plainly only where a store/hasattr dominates (in the function or at "
        "every call site) or every parse path guarantees the store. R10 a config field that a markdown-it plugin divides by excludes 0. "
        "R11 config-supplied rule names reach md.disable() only without the block parser's catch-all rule. R12 attributes read from a caught "
        "exception exist on every class the handler catches. R13 a mapping is not subscripted with its loop key after that key was re-bound. R14 every value stored into the renderer's heading "
        "offset is non-negative (constants, restored values, parameters traced to their call sites, include options traced to their docutils "
        "converter), because update_section_level_state takes max() over the levels below the heading's. R15 a value read from "
        "document.nameids (None for duplicated names, confirmed in docutils/nodes.py) is None-tested before it keys document.ids. R16 a myst_* "
        "attribute of document.settings (absent when the parser runs through the rST include directive's :parser: option) is read with "
        "getattr+default unless the package itself stored it: in the function, at every call site, or - for code that only runs after the "
        "parse - on every path of render(). R17 a nodes.transition is attached only to a node that is provably the document or a section, because docutils' "
        "Transitions transform (part of the standard pipeline) asserts that for a transition that is the first child of its parent (read "
        "from docutils/transforms/misc.py; render_hr is the known finding F9). R18 a document cannot choose code that the parse runs: global_only configuration fields are refused in the file-level merge "
        "(every application of a front-matter value - setattr/validate_field or a helper doing it - is dominated by the refusal) and template "
        "expressions are rendered in a jinja2 SandboxedEnvironment (an unsandboxed render is also a SystemExit origin in R1). R19 the "
        "configuration stored on the Sphinx environment controls its pickled state (__getstate__) for fields that can hold a function. R20 a "
        "transform that deletes a node attribute reads it only under a membership test (transforms run twice for rST include with :parser:). "
        "R21 the renderer's finalisation drops queued transforms whose pending node left the document. R22 pending(Filter, component=..) "
        "nodes only name transformer components that always exist (html_meta's component='writer' is a known finding). R27 a key or value of a YAML-loaded mapping (followed into the package methods it is passed to) reaches docutils' Text / "
        "TextElement(raw, text) constructors only as a provable str - str(..), an isinstance guard or the normalisation `if not "
        "isinstance(k, str): k = str(k)` - because nodes.Text raises TypeError for bytes (read from docutils/nodes.py). R23 also covers a "
        "list of traversals materialised before the loop, and a node found by a deep traversal of R that is detached from R itself instead of "
        "from its own parent. R20 accepts the membership test inside the traversal's predicate function; R17/R24 recognise the hiding "
        "transform when its test lives in a predicate method and the replacement in a helper; R5 accepts an iterator-stack tree walk and a "
        "snapshot that is updated together with the shrinking buffer. R18(b) also judges module-level Jinja environments. "
        "R24 a registered transform with a priority below sphinx's HandleCodeBlocks takes every childless block_quote that carries a basic "
        "attribute out of the tree (facts read from sphinx/transforms). R25 every text handed to markdown-it's block parser provably ends "
        "with a line feed (the plugins' block rules read the start of the next line unchecked). R26 render_substitution never renders "
        "block-level text while its `inline` parameter is true (known finding: a value that starts a directive). R5 also accepts a fixpoint "
        "loop on a buffer that only shrinks (html.parser's rawdata, read from the stdlib). A structural self-recursion `child.m()` inside "
        "`m` is a RecursionError origin in R1 (parsed HTML nests without bound); calls resolved by method name only are not followed into "
        "classes whose module the caller does not import, nor through receivers annotated with foreign classes. R23 a loop that "
        "detaches every node of its collection (parent.remove/replace/index, replace_self) iterates one traversal evaluated at loop start, not a "
        "list flattened from the traversals of several roots (a node below two roots would be detached twice: ValueError). R18 also rejects a "
        "package subclass of the sandbox that overrides one of its safety predicates. R5 also flags a "
        "method that re-enters itself without arguments (recursion standing for a loop: depth = number of iterations). R17 accepts a "
        "transition below any parent when a registered transform with a priority below docutils' Transitions replaces every transition whose "
        "parent is not the document / a section (HideNestedTransitions). R11 also requires ignoreInvalid=True when configured names go to MarkdownIt.disable() (it raises "
        "ValueError for unknown names, read from markdown_it/main.py). R28 the per-document slug registry (document.myst_slugs / "
        "env.metadata[doc]['myst_slugs'], also through a local bound once to it) is subscripted only where the same key - compared by text, or as "
        "the same node-attribute read in either spelling node['k'] / node.get('k') - is known to be in it: a dominating or short-circuit "
        "membership test, the predicate (lambda / nested function) of the traversal the loop runs over, a key that enumerates the registry, or "
        "a try catching KeyError; sections spliced in from a separately parsed part (rST include with :parser:) carry slugs the outer "
        "registry does not hold. R29 a positional read `x[N]` of a local in a configuration validator (the functions named in the fields' "
        "validator metadata, their closures and helpers) either stands under a length test of x (len(x) ==/!=/>=/>/</<= n facts, truthiness, "
        "displays, split results) or every validate_field of a front-matter value in merge_file_level (or its helper) sits in a handler that "
        "catches IndexError (IndexError / LookupError / Exception): either half may change alone, the pair may not (a len() fact of an unknown "
        "form or a re-bound local is an ANALYSIS-ERROR)."
    ),
    "not_decided": (
        "Implicit AttributeError/KeyError/IndexError/TypeError of arbitrary expressions (only the targeted sub-rules R3, R6, R8, R9, R12, R13, R15, R16) - "
        "in particular comparisons / min() / max() between attribute values that a library may leave None (MockState.nest_line_block_lines compared "
        "docutils line `.indent` values, None for a blank first line: TypeError, repaired in 5273152) are not decided: the nullability of foreign "
        "attributes is not modelled; "
        "exceptions inside third-party directive/role bodies and inside docutils/Sphinx transforms; termination and totality of markdown-it "
        "itself beyond the catch-all block rule (R11); value-dependent builtins such as max() of an empty sequence or pop() of an empty list; "
        "implicit IndexError of `children[0]` / `stack.pop()` on structures a directive or the HTML tokenizer may leave empty (FigureMarkdown.run "
        "a3d15c8, Tree.enclose 3911a89) and implicit KeyError of docutils node attributes whose presence is a writer-side invariant (only the "
        "self-inflicted case - an attribute the same transform deletes - is decided, R20); "
        "None values placed into node lists (C14.R5); loops whose progress goes through helper functions or aliases (ANALYSIS-ERROR); "
        "recursion DEPTH on pathologically nested input is decided for the catalogued PyYAML entry points only (yaml.safe_load/load: "
        "RecursionError is part of the catalogue entry because Composer.compose_node recurses per nesting level, read from yaml/composer.py); "
        "Element.deepcopy/render in html_to_nodes on ~1200 nested inline tags, deeply nested block quotes/lists in the renderer and other "
        "recursive walks over docutils / markdown-it trees stay not decided (parsed HTML is decided: self-recursive methods are RecursionError origins) (R4 only decides re-entry on text that is NOT a sub-structure); NUL bytes introduced by other means than the catalogued percent-decoders."
    ),
    "trusted_base": [
        "CPython ast",
        "frozen special call edges (DESIGN E3) plus the structurally recognised spellings of the render dispatch",
        "catalogue of fallible library calls (DESIGN C01.R1, extended in rounds 2-5)",
        "docutils callback contracts for roles and option converters (converters raise ValueError/TypeError); a directive's run() is NOT trusted any more (catalogued as Exception)",
        "halt_level above SEVERE so reporter calls return a node",
        "sibling sources read: yaml/constructor.py, markdown_it/parser_block.py + rules_block, mdit_py_plugins, docutils/nodes.py",
    ],
    "assumptions": [
        "third-party roles follow the docutils contract (directives need not: their failures are caught in run_directive)",
        "markdown-it terminates (given its catch-all block rule) and sets token.map on block tokens",
        "a heading token's tag digit / marker length is >= 1 (the base term of the heading level, R14)",
        "streams are finite; trees are finite",
    ],
}


def _register_dynamic_dispatch(corpus: Corpus) -> None:
    """The engine freezes the renderer's dynamic dispatch as (caller, call text) pairs.  When the dispatch moved
    into another method or changed its spelling the edges would silently vanish (and with them every render_*
    method from the closure), so the equivalent spellings are registered here, by structure:
    ``self.rules[...](x)``, ``r = self.rules.get(...)`` / ``r = self.rules[...]`` followed by ``r(x)``, and
    ``getattr(self, <name of a render_* method>)(x)`` with the name taken from an f-string ``render_...`` or from a
    class-level table whose values are all names of render_* methods."""
    from ..callgraph import RENDER_DISPATCH, SPECIAL_EDGES

    if corpus._cache.get("c01-dispatch-registered"):
        return
    corpus._cache["c01-dispatch-registered"] = True
    base = corpus.cls("mdit_to_docutils.base:DocutilsRenderer")
    for ci in [base] + corpus.subclasses(base):
        for f in ci.methods.values():
            if f.is_lambda:
                continue
            for c in f.local_nodes():
                if not isinstance(c, ast.Call):
                    continue
                fn = c.func
                text = None
                if isinstance(fn, ast.Subscript) and unparse(fn.value) == "self.rules":
                    text = "self.rules["
                elif isinstance(fn, ast.Name):
                    d = _single_def(f, fn)
                    if d is not fn and (
                        (isinstance(d, ast.Subscript) and unparse(d.value) == "self.rules")
                        or (isinstance(d, ast.Call) and unparse(d.func) == "self.rules.get")
                    ):
                        text = fn.id
                elif isinstance(fn, ast.Call) and dotted(fn.func) == "getattr" and len(fn.args) in (2, 3) and unparse(fn.args[0]) == "self":
                    if _names_render_method(corpus, ci, fn.args[1]):
                        text = ast.unparse(fn)
                if text is None:
                    continue
                lst = SPECIAL_EDGES.setdefault(f.fq, [])
                if (text, RENDER_DISPATCH) not in lst:
                    lst.append((text, RENDER_DISPATCH))


def _class_table(corpus: Corpus, ci, e: ast.expr) -> ast.Dict | None:
    """``self.TABLE[k]`` / ``cls.TABLE[k]`` / ``self.TABLE.get(k)`` -> the dict display TABLE is bound to in the class body."""
    tbl = None
    if isinstance(e, ast.Subscript):
        tbl = e.value
    elif isinstance(e, ast.Call) and isinstance(e.func, ast.Attribute) and e.func.attr == "get" and len(e.args) == 1:
        return None  # .get may give None: not a method name
    if not (isinstance(tbl, ast.Attribute) and isinstance(tbl.value, ast.Name) and tbl.value.id in ("self", "cls")):
        return None
    for c in corpus.mro(ci):
        for st in c.node.body:
            tg = st.targets[0] if isinstance(st, ast.Assign) and len(st.targets) == 1 else (st.target if isinstance(st, ast.AnnAssign) else None)
            if isinstance(tg, ast.Name) and tg.id == tbl.attr and isinstance(getattr(st, "value", None), ast.Dict):
                return st.value
    return None


def _names_render_method(corpus: Corpus, ci, e: ast.expr) -> bool:
    if isinstance(e, ast.JoinedStr) and e.values and isinstance(e.values[0], ast.Constant) and str(e.values[0].value).startswith("render_"):
        return True
    d = _class_table(corpus, ci, e)
    if d is None or not d.values:
        return False
    return all(
        isinstance(v, ast.Constant) and isinstance(v.value, str) and v.value.startswith("render_") and corpus.lookup_method(ci, v.value) is not None
        for v in d.values
    )


@rule("C01.R1")
def r1_failure_mode_closure(corpus: Corpus, rep: Report, tier: str):
    _register_dynamic_dispatch(corpus)
    analyses = escape_closure(
        corpus,
        rep,
        "C01.R1",
        FRONT_ENTRIES + API_ENTRIES,
        "Esc(entry) is empty for the nine front-end entries and within the documented class for API functions",
    )
    corpus._cache["c01-analyses"] = analyses
    # catalogue entry "tuple-unpack of a split-derived sequence": constructs outside the modelled subset are
    # fail-closed here (the engine records them, other properties ignore them); raising ones get their witness
    seen_unsupported = set()
    witnesses: dict[tuple[str, str], str] = {}
    for ea in analyses.values():
        for fq_, text, site, why in ea.unsupported:
            if (fq_, text) not in seen_unsupported:
                seen_unsupported.add((fq_, text))
                rep.error("C01.R1", f"{site}: tuple-unpack of `{text}` in {fq_.split(':')[1]}: {why}")
        witnesses.update(ea.unpack_witness)
    for it in rep.items:
        if it.rule == "C01.R1" and it.status == "violation" and "|origin=" in it.key:
            fq_, _, text = it.key.split("|origin=", 1)[1].partition("|")
            w = witnesses.get((fq_, text))
            if w and w not in it.what:
                it.what += f" [unpacking raises ValueError: {w}]"
    # an origin that only runs under a flag parameter which every package-internal call chain fixes to False
    # (``if as_yaml:`` with ``as_yaml=not validate_options`` and no internal caller passing validate_options)
    # is dead for the entries outside that chain; the escape summaries are path-insensitive, so decide it here
    for it in rep.items:
        if it.rule == "C01.R1" and it.status == "violation" and "|origin=" in it.key:
            entry_fq = it.key.split("|", 1)[0].removeprefix("entry=")
            fq_, _, text = it.key.split("|origin=", 1)[1].partition("|")
            dead = _dead_under_flag(corpus, fq_, text)
            if dead is not None and entry_fq not in dead[1]:
                it.status = "ok"
                it.what = dead[0]
                it.path = []
    rep.expect_min("C01.R1", 60, "raise sites, asserts and catalogued calls reachable from the entries")


def _dead_under_flag(corpus: Corpus, origin_fq: str, text: str) -> tuple[str, set[str]] | None:
    """(reason, functions whose own callers decide the flag) when the origin construct is guarded by a parameter
    that is constantly false on every package-internal call chain."""
    if not corpus.has_func(origin_fq):
        return None
    fi = corpus.func(origin_fq)
    if fi.is_lambda:
        return None
    node = next((n for n in fi.local_nodes() if isinstance(n, (ast.expr, ast.stmt)) and short(n) == text), None)
    if node is None:
        return None
    try:
        cfg = get_cfg(fi)
        facts = cfg.guards(cfg.stmt_of(node))
    except Unsupported:
        return None
    g = get_callgraph(corpus)
    for test, pol in facts:
        if not (isinstance(test, ast.Name) and test.id in fi.params and not _rebound(fi, test.id)):
            continue
        chain: set[str] = set()
        val = _param_constant(corpus, g, fi, test.id, chain, 0)
        if val is not None and bool(val) != pol:
            return (
                f"runs only under `{test.id}`, which every call chain inside the package fixes to {val!r} "
                f"(decided by the callers of: {', '.join(sorted(c.split(':')[1] for c in chain))})",
                chain,
            )
    return None


def _param_constant(corpus: Corpus, g, fi: FunctionInfo, pname: str, chain: set[str], depth: int):
    """The constant every package-internal caller passes for ``pname`` (None when it varies or cannot be decided)."""
    if depth > 3 or fi.is_lambda:
        return None
    chain.add(fi.fq)
    a = fi.node.args
    pos = [x.arg for x in a.posonlyargs + a.args]
    defaults: dict[str, ast.expr] = {}
    for p_, d in zip(reversed(a.posonlyargs + a.args), reversed(a.defaults)):
        defaults[p_.arg] = d
    for p_, d in zip(a.kwonlyargs, a.kw_defaults):
        if d is not None:
            defaults[p_.arg] = d
    sites = g.callers().get(fi.fq, [])
    if not sites:
        return None
    vals = set()
    for caller, call in sites:
        if any(isinstance(x, ast.Starred) for x in call.args) or any(k.arg is None for k in call.keywords):
            return None
        ppos = pos[1:] if fi.cls is not None and isinstance(call.func, ast.Attribute) and "staticmethod" not in fi.decorators() else pos
        bound = dict(zip(ppos, call.args))
        for k in call.keywords:
            bound[k.arg] = k.value
        e = bound.get(pname, defaults.get(pname))
        v = _const_value(corpus, g, e, caller, chain, depth)
        if v is None:
            return None
        vals.add(v[0])
    return vals.pop() if len(vals) == 1 else None


def _const_value(corpus: Corpus, g, e: ast.expr | None, fi: FunctionInfo, chain: set[str], depth: int):
    """(value,) of a boolean-ish constant expression over the caller's own parameters, else None."""
    if e is None:
        return None
    if isinstance(e, ast.Constant):
        return (e.value,)
    if isinstance(e, ast.UnaryOp) and isinstance(e.op, ast.Not):
        v = _const_value(corpus, g, e.operand, fi, chain, depth)
        return None if v is None else (not v[0],)
    if isinstance(e, ast.Name) and not fi.is_lambda and e.id in fi.params and not _rebound(fi, e.id):
        a = fi.node.args
        defaults: dict[str, ast.expr] = {}
        for p_, d in zip(reversed(a.posonlyargs + a.args), reversed(a.defaults)):
            defaults[p_.arg] = d
        for p_, d in zip(a.kwonlyargs, a.kw_defaults):
            if d is not None:
                defaults[p_.arg] = d
        d = defaults.get(e.id)
        if not isinstance(d, ast.Constant):
            return None
        sites = g.callers().get(fi.fq, [])
        chain.add(fi.fq)
        if not sites:
            return (d.value,)  # only external callers could pass something else: they are entries of their own
        v = _param_constant(corpus, g, fi, e.id, chain, depth + 1)
        return None if v is None or v != d.value else (v,)
    return None


# ---------------------------------------------------------------------------
# R2 token_line discipline

# handlers whose token is known to carry a map (block rule assigns it, or the token is an
# inline child that received its parent's map in _render_tokens); confirmed by reading the
# markdown-it / mdit-py-plugins block rules, re-read in the thorough tier.
TOKEN_LINE_OK = {
    "DocutilsRenderer.render_html_block": "html_block: block rule sets map; html_inline: inline child",
    "DocutilsRenderer.render_html_inline": "html_inline is an inline child: it receives its block parent's map in _render_tokens (checked below)",
    "DocutilsRenderer.render_footnote_reference": "footnote_reference_open.map assigned in footnote_def",
    "DocutilsRenderer.render_dl": "dt/dd tokens: deflist rule assigns map",
    "DocutilsRenderer.render_field_list": "fieldlist_name: field_list rule assigns map",
    "DocutilsRenderer.render_restructuredtext": "fence / colon_fence block tokens carry map",
    "DocutilsRenderer.render_directive": "fence / colon_fence block tokens carry map",
    "DocutilsRenderer.render_substitution": "substitution_block sets map; substitution_inline is an inline child",
}


def _helper_of_tabled_handler(corpus: Corpus, fi: FunctionInfo, call: ast.Call, depth: int = 0) -> str | None:
    """The token handed to token_line() is a parameter of a private helper, and every call site of the helper lies in a
    handler whose tokens carry a map (or in such a helper again): the table entry of the handler carries over."""
    if depth > 2 or not call.args or not isinstance(call.args[0], ast.Name) or call.args[0].id not in fi.params or _rebound(fi, call.args[0].id):
        return None
    g = get_callgraph(corpus)
    sites = g.callers().get(fi.fq, [])
    if not sites:
        return None
    reasons = []
    for caller, c in sites:
        if caller.qualname in TOKEN_LINE_OK:
            reasons.append(f"{caller.qualname}: {TOKEN_LINE_OK[caller.qualname]}")
            continue
        # the caller hands on one of its own parameters
        a = fi.node.args
        pos = [x.arg for x in a.posonlyargs + a.args]
        ppos = pos[1:] if fi.cls is not None and isinstance(c.func, ast.Attribute) and "staticmethod" not in fi.decorators() else pos
        bound = dict(zip(ppos, c.args))
        for k_ in c.keywords:
            if k_.arg:
                bound[k_.arg] = k_.value
        v = bound.get(call.args[0].id)
        if isinstance(v, ast.Name):
            fake = ast.Call(func=ast.Name(id="token_line", ctx=ast.Load()), args=[v], keywords=[])
            r = _helper_of_tabled_handler(corpus, caller, fake, depth + 1)
            if r:
                reasons.append(r)
                continue
        return None
    return "helper called only from " + "; ".join(sorted(set(reasons)))


@rule("C01.R2")
def r2_token_line(corpus: Corpus, rep: Report, tier: str):
    rep.rule("C01.R2", "token_line(tok) without default only under `if tok.map`, inside suppress/try, or in a handler whose token carries a map")
    base = corpus.mod("mdit_to_docutils.base")
    analyses = corpus._cache.get("c01-analyses") or {}
    seen = set()
    n = 0
    # every call of token_line in the package
    for fi in corpus.all_functions():
        if fi.is_lambda:
            continue
        for call in calls_in(fi.node, into_lambdas=False):
            if (dotted(call.func) or "").split(".")[-1] != "token_line":
                continue
            k = stmt_key(fi, call)
            if k in seen:
                continue
            seen.add(k)
            n += 1
            site = fi.module.site(call)
            d = call.args[1] if len(call.args) > 1 else None
            for kw in call.keywords:
                if kw.arg == "default":
                    d = kw.value
            if d is not None and not (isinstance(d, ast.Constant) and d.value is None):
                rep.ok("C01.R2", k, site, "default given")
                continue
            tok = unparse(call.args[0]) if call.args else ""
            guarded = False
            node: ast.AST = call
            for a in ancestors(call):
                if isinstance(a, (ast.FunctionDef, ast.Lambda)):
                    break
                if isinstance(a, (ast.If, ast.IfExp)) and unparse(a.test) == f"{tok}.map":
                    body = a.body if isinstance(a.body, list) else [a.body]
                    if node in body:
                        guarded = True
                if isinstance(a, ast.With) and any("suppress(ValueError" in unparse(i.context_expr) for i in a.items):
                    guarded = True
                if isinstance(a, ast.Try) and node in a.body and any(
                    h.type is None or "ValueError" in unparse(h.type) or unparse(h.type) in ("Exception", "BaseException") for h in a.handlers
                ):
                    guarded = True
                node = a
            if guarded:
                rep.ok("C01.R2", k, site, "guarded by map test / suppress / try")
            elif fi.qualname in TOKEN_LINE_OK:
                rep.assumed("C01.R2", k, site, TOKEN_LINE_OK[fi.qualname])
            elif _helper_of_tabled_handler(corpus, fi, call):
                rep.assumed("C01.R2", k, site, _helper_of_tabled_handler(corpus, fi, call))
            else:
                rep.violation("C01.R2", k, site, f"token_line({tok}) without default can raise ValueError: {fi.qualname} is not a handler whose token is known to carry a map")
    # the propagation loop that gives inline children their parent's map: in _render_tokens itself or in a helper
    # that _render_tokens calls on every path with its token list, before the tokens are nested and rendered
    rt = base.func("DocutilsRenderer._render_tokens")

    def propagates(f: FunctionInfo) -> bool:
        for n_ in walk_local(f.node):
            if isinstance(n_, ast.For) and isinstance(n_.target, ast.Name) and n_ in f.node.body:
                for inner in ast.walk(n_):
                    if isinstance(inner, ast.For) and inner is not n_ and "children" in unparse(inner.iter) and n_.target.id in unparse(inner.iter):
                        for s_ in inner.body:
                            if isinstance(s_, ast.Assign) and unparse(s_.targets[0]).endswith(".map") and unparse(s_.value) == f"{n_.target.id}.map":
                                return True
        return False

    ok = propagates(rt)
    if not ok:
        g_ = get_callgraph(corpus)
        cfg_ = get_cfg(rt)
        for call, targets in g_.callees(rt):
            if any(propagates(t) for t in g_.flat_targets(targets)) and call.args and isinstance(call.args[0], ast.Name) and call.args[0].id in rt.params:
                st_ = cfg_.stmt_of(call)
                if not cfg_.paths_avoiding("ENTRY", "EXIT", lambda nd: nd is st_):
                    ok = True
    k = f"{rt.fq}|inline children receive the parent's map"
    if ok:
        rep.ok("C01.R2", k, rt.site())
    else:
        rep.violation("C01.R2", k, rt.site(), "_render_tokens no longer copies each block token's map to its inline children unconditionally")
    rep.expect_min("C01.R2", 20, "token_line call sites")


# ---------------------------------------------------------------------------
# R3 HTML attribute nullability


@rule("C01.R3")
def r3_html_attr_none(corpus: Corpus, rep: Report, tier: str):
    rep.rule("C01.R3", "HTMLParser delivers None for value-less attributes: Attribute.__getitem__ must not return None")
    m = corpus.mod("parsers.parse_html")
    gi = m.func("Attribute.__getitem__")
    rets = [n for n in walk_local(gi.node) if isinstance(n, ast.Return)]
    if not rets:
        rep.violation("C01.R3", f"{gi.fq}|no return", gi.site(), "Attribute.__getitem__ returns None implicitly")
    for r in rets:
        k = stmt_key(gi, r)
        if _never_none(r.value):
            rep.ok("C01.R3", k, m.site(r))
        else:
            # accepted alternative: the parser callbacks sanitise the attribute list
            if _callbacks_sanitise(corpus):
                rep.ok("C01.R3", k, m.site(r), "callbacks replace None values before building Attribute")
            else:
                rep.violation(
                    "C01.R3",
                    k,
                    m.site(r),
                    "`<img src>` / `<div class>`: HTMLParser passes (name, None); Attribute.__getitem__ hands the None to "
                    "consumers that call str methods on it (Attribute.classes -> .split(), html_to_nodes -> run_directive first_line)",
                )
    # consumers that exist today (listed so that the rule is not vacuous)
    cons = 0
    for fi in corpus.all_functions():
        if fi.is_lambda:
            continue
        for n in walk_local(fi.node):
            if isinstance(n, ast.Subscript) and isinstance(n.value, ast.Attribute) and n.value.attr == "attrs" and fi.module.name.endswith(("html_to_nodes", "parse_html")):
                cons += 1
                rep.listed("C01.R3", stmt_key(fi, n), fi.module.site(n), "consumer of Attribute.__getitem__")
    for n in walk_local(m.func("Attribute.classes").node):
        if isinstance(n, ast.Subscript) and unparse(n.value) == "self":
            cons += 1
    if cons < 2:
        rep.error("C01.R3", f"expected consumers of Attribute.__getitem__ (found {cons})")


def _never_none(e: ast.expr | None) -> bool:
    if e is None:
        return False
    if isinstance(e, ast.Constant):
        return e.value is not None
    if isinstance(e, ast.JoinedStr):
        return True
    if isinstance(e, ast.BoolOp) and isinstance(e.op, ast.Or):
        return _never_none(e.values[-1])
    if isinstance(e, ast.Call) and dotted(e.func) in ("str",):
        return True
    if isinstance(e, ast.IfExp):
        return _never_none(e.body) and _never_none(e.orelse)
    return False


def _callbacks_sanitise(corpus: Corpus) -> bool:
    m = corpus.mod("parsers.parse_html")
    for q in ("HtmlToAst.handle_starttag", "HtmlToAst.handle_startendtag"):
        f = m.func(q)
        text = unparse(f.node)
        if " or ''" not in text and ' or ""' not in text and "is None" not in text:
            return False
    return True


# ---------------------------------------------------------------------------
# R4 re-entry guards


FOREIGN_TEXT_SOURCES = ("read_text", "render", "read")


@rule("C01.R4")
def r4_reentry_guards(corpus: Corpus, rep: Report, tier: str):
    rep.rule("C01.R4", "re-entry into nested_render_text with text that is not a substring of the current text needs a cycle guard")
    _register_dynamic_dispatch(corpus)
    _CURRENT_CORPUS[0] = corpus
    g = get_callgraph(corpus)
    nrt = corpus.func("mdit_to_docutils.base:DocutilsRenderer.nested_render_text")
    callers = g.callers().get(nrt.fq, [])
    n_foreign = 0
    for fi, call in callers:
        text_arg = call.args[0] if call.args else None
        if text_arg is None:
            continue
        origin = _text_origin(text_arg, fi)
        k = f"{fi.fq}|nested_render_text({short(text_arg, 40)})"
        site = fi.module.site(call)
        if origin is None:
            rep.ok("C01.R4", k, site, "text derives from token content / caller-supplied block (strictly shorter substring)")
            continue
        n_foreign += 1
        guard = _cycle_guard(fi, call)
        weak = _weak_file_key(fi, call) if guard is True and origin.startswith("file content") else None
        if guard is True and weak is not None:
            rep.violation(
                "C01.R4",
                f"{fi.fq}|cycle-guard key of included files is not a normalised path",
                weak[0],
                f"the in-progress test `{weak[1]}` identifies the included file by `{weak[2]}`, which is not made absolute and normalised (normpath/abspath/realpath/resolve()): the same file reached "
                "through another spelling of its path (a redundant `sub/..`, another base directory) gets a different key at every level, the guard never fires and a self-including file recurses until RecursionError",
            )
        elif guard is True:
            rep.ok("C01.R4", k, site, f"foreign text ({origin}) behind a paired in-progress guard" + (" keyed by a normalised path" if origin.startswith("file content") else ""))
        else:
            rep.violation(
                "C01.R4",
                f"{fi.fq}|nested_render_text of {origin} without cycle guard",
                site,
                f"text from {origin} re-enters the renderer without an in-progress guard ({guard}): a self-referencing input recurses until RecursionError",
            )
    if n_foreign < 2:
        rep.error("C01.R4", f"expected the include and substitution re-entries, found {n_foreign} foreign-text call(s)")
    rep.expect_min("C01.R4", 6, "callers of nested_render_text")


def _text_origin(arg: ast.expr, fi: FunctionInfo) -> str | None:
    """'file content' / 'template output' when the text argument derives from a file read or Jinja render."""
    names = {n.id for n in ast.walk(arg) if isinstance(n, ast.Name)}
    work = list(names)
    seen = set()
    while work:
        nm = work.pop()
        if nm in seen:
            continue
        seen.add(nm)
        for n in walk_local(fi.node):
            if isinstance(n, ast.Assign) and any(isinstance(x, ast.Name) and x.id == nm and isinstance(x.ctx, ast.Store) for t in n.targets for x in ast.walk(t)):
                for c in ast.walk(n.value):
                    if isinstance(c, ast.Call) and isinstance(c.func, ast.Attribute):
                        if c.func.attr in ("read_text", "read_bytes"):
                            return "file content (read_text)"
                        if c.func.attr == "render" and _is_jinja_template(c.func.value, fi):
                            return "Jinja template output"
                    if isinstance(c, ast.Name) and c.id not in seen:
                        work.append(c.id)
    return None


def _is_jinja_template(e: ast.expr, fi: FunctionInfo, depth: int = 0) -> bool:
    """``e`` is a compiled Jinja template: ``<env>.from_string(..)``, a local bound (also by tuple-unpacking) to
    such a call, or to the result of a package function that is annotated to return / does build a jinja2 Template."""
    if depth > 3:
        return False
    if isinstance(e, ast.Call):
        if isinstance(e.func, ast.Attribute) and e.func.attr == "from_string":
            return True
        g = get_callgraph(_corpus_of(fi))
        for t in g.flat_targets(g.resolve_call(e, fi)):
            if t.is_lambda:
                continue
            if t.node.returns is not None and "Template" in unparse(t.node.returns):
                return True
            if any(isinstance(c, ast.Call) and isinstance(c.func, ast.Attribute) and c.func.attr == "from_string" for c in t.local_nodes()):
                return True
        return False
    if isinstance(e, ast.Name):
        for n in walk_local(fi.node):
            if isinstance(n, ast.Assign) and any(isinstance(x, ast.Name) and x.id == e.id and isinstance(x.ctx, ast.Store) for t in n.targets for x in ast.walk(t)):
                if _is_jinja_template(n.value, fi, depth + 1):
                    return True
    return False


def _corpus_of(fi: FunctionInfo) -> Corpus:
    return fi.module.corpus if hasattr(fi.module, "corpus") else _CURRENT_CORPUS[0]


_CURRENT_CORPUS: list = [None]


def _cycle_guard(fi: FunctionInfo, call: ast.Call):
    """True, or a reason string."""
    # the call must be in a try whose finally removes from a collection rooted in the document
    coll = None
    tr = None
    node: ast.AST = call
    for a in ancestors(call):
        if isinstance(a, (ast.FunctionDef, ast.Lambda)):
            break
        if isinstance(a, ast.Try) and a.finalbody and any(node is s or node in ast.walk(s) for s in a.body):
            for s in a.finalbody:
                for c in ast.walk(s):
                    if isinstance(c, ast.Call) and isinstance(c.func, ast.Attribute) and c.func.attr in ("difference_update", "discard", "remove", "pop"):
                        recv = unparse(c.func.value)
                        if "document" in recv:
                            coll, tr = recv, a
        node = a
    cm_inserted = False
    if coll is None:
        # ... or inside `with <context manager>:` whose generator brackets the `yield` with the insertion and a
        # `finally` that removes the marker
        node = call
        for a in ancestors(call):
            if isinstance(a, (ast.FunctionDef, ast.Lambda)):
                break
            if isinstance(a, ast.With) and any(node is s_ for s_ in a.body):
                for it in a.items:
                    got = _context_manager_marker(fi, it.context_expr)
                    if got is not None:
                        coll, tr, cm_inserted = got[0], a, got[1]
            node = a
    if coll is None:
        return "no finally (or context manager) that removes an in-progress marker"
    blk_stmts = sorted((s for s in walk_local(fi.node) if isinstance(s, ast.stmt) and s.lineno < tr.lineno), key=lambda s: s.lineno)
    inserted = cm_inserted or any(
        isinstance(c, ast.Call) and isinstance(c.func, ast.Attribute) and c.func.attr in ("update", "add", "append") and unparse(c.func.value) == coll
        for s in blk_stmts
        for c in ast.walk(s)
    )
    if not inserted:
        return "marker never inserted before the nested render"
    # a test on the collection that leaves the function
    derived = {coll}
    tested = False
    for s in blk_stmts:
        if isinstance(s, ast.Assign) and any(d in unparse(s.value) for d in derived):
            for t in s.targets:
                if isinstance(t, ast.Name):
                    derived.add(t.id)
        if isinstance(s, ast.If) and s.body and isinstance(s.body[-1], (ast.Return, ast.Raise)):
            tt = unparse(s.test)
            if any(d in tt for d in derived):
                tested = True
    if not tested:
        return "no membership test on the in-progress collection that leaves the function"
    return True


_PATH_NORMALISERS = ("normpath", "abspath", "realpath", "resolve")


def _normalises_path(e: ast.expr, fi: FunctionInfo, depth: int = 0) -> bool:
    """The expression passes through a call that removes `..` / redundant separators (directly, through the locals it
    is built from, or through a package function whose every return does)."""
    if depth > 4:
        return False
    for x in ast.walk(e):
        if isinstance(x, ast.Call):
            nm = x.func.attr if isinstance(x.func, ast.Attribute) else (x.func.id if isinstance(x.func, ast.Name) else "")
            if nm in _PATH_NORMALISERS:
                return True
            g = get_callgraph(_corpus_of(fi))
            for t in g.flat_targets(g.resolve_call(x, fi)):
                if t.is_lambda:
                    continue
                rets = [r for r in t.local_nodes() if isinstance(r, ast.Return) and r.value is not None]
                if rets and all(_normalises_path(r.value, t, depth + 1) for r in rets):
                    return True
    for x in ast.walk(e):
        if isinstance(x, ast.Name) and isinstance(x.ctx, ast.Load) and not fi.is_lambda and x.id not in fi.params:
            defs = [n.value for n in fi.local_nodes() if isinstance(n, ast.Assign) and len(n.targets) == 1 and isinstance(n.targets[0], ast.Name) and n.targets[0].id == x.id]
            if defs and all(_normalises_path(d, fi, depth + 1) for d in defs):
                return True
    return False


def _weak_file_key(fi: FunctionInfo, call: ast.Call) -> tuple[str, str, str] | None:
    """(site, test text, key text) when the membership test of the include guard uses a key that is not a normalised path."""
    for st in sorted((s_ for s_ in walk_local(fi.node) if isinstance(s_, ast.If) and s_.lineno < call.lineno), key=lambda s_: s_.lineno):
        if not (st.body and isinstance(st.body[-1], (ast.Return, ast.Raise))):
            continue
        from ..flow import facts as _atomic

        for t, pol in _atomic(st.test, True):
            if isinstance(t, ast.Compare) and len(t.ops) == 1 and isinstance(t.ops[0], ast.In) and pol and "document" in unparse(t.comparators[0]):
                if not _normalises_path(t.left, fi):
                    d = _single_def(fi, t.left) if isinstance(t.left, ast.Name) else t.left
                    return (fi.module.site(st), unparse(t), short(d, 50))
    return None


def _context_manager_marker(fi: FunctionInfo, ce: ast.expr) -> tuple[str, bool] | None:
    """(collection text, inserted before the yield) for ``with self.<cm>(..)`` where <cm> is a @contextmanager
    generator of the package: ``try: ...; yield; finally: <document collection>.pop()/remove()/discard()``."""
    if not isinstance(ce, ast.Call):
        return None
    g = get_callgraph(_corpus_of(fi))
    for t in g.flat_targets(g.resolve_call(ce, fi)):
        if t.is_lambda or not any("contextmanager" in d for d in t.decorators()):
            continue
        for tr in t.local_nodes():
            if not (isinstance(tr, ast.Try) and tr.finalbody):
                continue
            ys = [y for b in tr.body for y in ast.walk(b) if isinstance(y, ast.Yield)]
            if not ys:
                continue
            for s_ in tr.finalbody:
                for c in ast.walk(s_):
                    if isinstance(c, ast.Call) and isinstance(c.func, ast.Attribute) and c.func.attr in ("difference_update", "discard", "remove", "pop"):
                        recv = unparse(c.func.value)
                        if "document" in recv:
                            ins = any(
                                isinstance(x, ast.Call) and isinstance(x.func, ast.Attribute) and x.func.attr in ("update", "add", "append") and unparse(x.func.value) == recv
                                and x.lineno < ys[0].lineno
                                for x in t.local_nodes()
                            )
                            return (recv, ins)
    return None


# ---------------------------------------------------------------------------
# R5 loop progress (outside the option tokenizer, which is C07.R2)


@rule("C01.R5")
def r5_loop_progress(corpus: Corpus, rep: Report, tier: str):
    rep.rule(
        "C01.R5",
        "every while loop outside parsers/options.py has a recognised progress variant; a cyclic path that changes nothing the loop test reads is a violation",
    )
    n = 0
    for fi in corpus.all_functions():
        if fi.is_lambda or fi.module.name.endswith((".parsers.options", "._docs")):
            continue
        for w in walk_local(fi.node):
            if not isinstance(w, ast.While):
                continue
            n += 1
            k = f"{fi.fq}|while {short(w.test, 60)}"
            site = fi.module.site(w)
            v = _loop_variant(w, fi, corpus)
            if v:
                rep.ok("C01.R5", k, site, v)
                continue
            stuck = _stuck_path(w, fi)
            if stuck:
                rep.violation("C01.R5", k, site, stuck)
            else:
                rep.error(
                    "C01.R5",
                    f"{site}: `while {short(w.test, 40)}` in {fi.qualname}: no progress variant recognised (modelled: shrinking the tested list, bounded counter, find-then-slice, "
                    "reading the stream, counter in the candidate, tree descent) and no cyclic path could be proven to change nothing the tests read",
                )
    # recursion that stands for a loop: a method calling itself with no arguments relies on a state change per call; its depth
    # is the number of iterations (InventoryFileReader.readline recursed once per short read: RecursionError)
    for fi in corpus.all_functions():
        if fi.is_lambda or fi.cls is None:
            continue
        for c in fi.local_nodes():
            if isinstance(c, ast.Call) and isinstance(c.func, ast.Attribute) and c.func.attr == fi.name and isinstance(c.func.value, ast.Name) and c.func.value.id == "self" and not c.args and not c.keywords:
                if len(fi.params) <= 1:
                    rep.violation(
                        "C01.R5",
                        f"{fi.fq}|recursion instead of a loop",
                        fi.module.site(c),
                        f"`{short(c, 40)}` re-enters {fi.qualname} with nothing but changed object state: the recursion depth is the number of iterations the state change needs "
                        "(one frame per stream read / per retry), so a long enough input ends in RecursionError",
                    )
    rep.expect_min("C01.R5", 5, "while loops outside options.py")


def _own_exprs(st) -> list[ast.AST]:
    """What is evaluated when the CFG node of ``st`` itself executes (compound statements stand for their header)."""
    if isinstance(st, (ast.If, ast.While)):
        return [st.test]
    if isinstance(st, ast.For):
        return [st.iter, st.target]
    if isinstance(st, ast.With):
        return list(st.items)
    if isinstance(st, ast.Match):
        return [st.subject]
    if isinstance(st, (ast.Try, ast.FunctionDef, ast.AsyncFunctionDef, ast.ClassDef)):
        return []
    return [st]


def _cyclic_path_avoiding(w: ast.While, fi: FunctionInfo, hit) -> bool:
    """Is there a path from the loop test (true edge) back to the loop test, inside the loop body, on which no
    statement satisfies ``hit(stmt)``?"""
    cfg = get_cfg(fi)
    inside = {id(x) for st in w.body for x in ast.walk(st) if isinstance(x, ast.stmt)}

    def in_loop(nd) -> bool:
        if isinstance(nd, tuple):
            inner = nd[1]
            if isinstance(inner, ast.ExceptHandler):
                return any(inner is h for t in ast.walk(w) if isinstance(t, ast.Try) and t is not w for h in t.handlers)
            return id(inner) in inside
        return id(nd) in inside

    start = ("T", w)
    seen = set()
    work = list(cfg.succ.get(start, []))
    while work:
        nd = work.pop()
        if nd is w:
            return True
        key = nd if isinstance(nd, (tuple, str)) else id(nd)
        if key in seen or isinstance(nd, str) or not in_loop(nd):
            continue
        seen.add(key)
        if isinstance(nd, ast.stmt) and hit(nd):
            continue
        work.extend(cfg.succ.get(nd, []))
    return False


def _every_cyclic_path(w: ast.While, fi: FunctionInfo, pred) -> bool:
    """``pred`` holds for some node evaluated by a statement on every cyclic path of the loop."""
    return not _cyclic_path_avoiding(w, fi, lambda st: any(pred(c) for e in _own_exprs(st) for c in ast.walk(e)))


def _root(e: ast.AST) -> str | None:
    while isinstance(e, (ast.Attribute, ast.Subscript, ast.Call, ast.Starred)):
        e = e.func if isinstance(e, ast.Call) else e.value
    return e.id if isinstance(e, ast.Name) else None


_PURE_FUNCS = ("len", "isinstance", "bool", "str", "int", "min", "max", "abs", "any", "all", "tuple", "list", "set", "frozenset", "sorted", "type", "callable")
_PURE_METHODS = (
    "startswith", "endswith", "strip", "lstrip", "rstrip", "isspace", "isdigit", "isalpha", "isalnum", "lower", "upper",
    "find", "rfind", "index", "count", "get", "keys", "values", "items", "split", "rsplit", "partition",
)


def _is_pure_call(c: ast.Call) -> bool:
    if isinstance(c.func, ast.Name):
        return c.func.id in _PURE_FUNCS
    return isinstance(c.func, ast.Attribute) and c.func.attr in _PURE_METHODS


_PURE_NODES = (
    ast.Name, ast.Attribute, ast.Subscript, ast.Constant, ast.Compare, ast.BoolOp, ast.BinOp, ast.UnaryOp, ast.Slice, ast.Tuple, ast.List,
    ast.JoinedStr, ast.FormattedValue, ast.IfExp, ast.Call, ast.Load, ast.operator, ast.unaryop, ast.boolop, ast.cmpop, ast.keyword,
)


def _is_pure_expr(e: ast.expr) -> bool:
    """Evaluating ``e`` has no effect and yields the same value while the names in it are unchanged."""
    for c in ast.walk(e):
        if not isinstance(c, _PURE_NODES):
            return False
        if isinstance(c, ast.Call) and not _is_pure_call(c):
            return False
    return True


def _stuck_path(w: ast.While, fi: FunctionInfo) -> str | None:
    """A reason string when some cyclic path provably changes nothing that the loop test - and every test
    inside the loop that could leave it - reads: the same path is then taken forever."""
    if isinstance(w.test, ast.Constant):
        exits = [x for st in w.body for x in ast.walk(st) if isinstance(x, (ast.Break, ast.Return, ast.Raise))]
        if w.test.value and not exits:
            return "the test is constantly true and the body has no break/return/raise"
        return None
    inner_tests = [x.test for st in w.body for x in ast.walk(st) if isinstance(x, (ast.If, ast.While, ast.Assert, ast.IfExp))]
    inner_tests += [x.iter for st in w.body for x in ast.walk(st) if isinstance(x, (ast.For, ast.comprehension))]
    tests = [w.test] + inner_tests
    # evaluating the tests must itself be free of effects and of hidden state
    for t in tests:
        if not _is_pure_expr(t):
            return None
    if any(isinstance(x, (ast.Global, ast.Nonlocal)) for x in fi.local_nodes()) or fi.parent_func is not None:
        return None  # closures / globals: other code may change the names

    def names(e: ast.AST) -> set[str]:
        return {n.id for n in ast.walk(e) if isinstance(n, ast.Name) and not (isinstance(parent(n), ast.Call) and parent(n).func is n)}

    reads: set[str] = set()
    for t in tests:
        reads |= names(t)
    if not names(w.test):
        return None

    def recompute(st: ast.AST) -> bool:
        """``v = <pure expression not mentioning v>``: assigns the same value again while its inputs are unchanged."""
        return (
            isinstance(st, ast.Assign)
            and len(st.targets) == 1
            and isinstance(st.targets[0], ast.Name)
            and _is_pure_expr(st.value)
            and st.targets[0].id not in names(st.value)
        )

    body_stmts = [x for st in w.body for x in ast.walk(st) if isinstance(x, ast.stmt)]
    changed = True
    while changed:
        changed = False
        for st in body_stmts:
            if recompute(st) and st.targets[0].id in reads and not names(st.value) <= reads:
                reads |= names(st.value)
                changed = True
        # aliases of what the tests read count as the same object
        for n in fi.local_nodes():
            if isinstance(n, ast.Assign) and len(n.targets) == 1 and isinstance(n.targets[0], ast.Name) and isinstance(n.value, ast.Name):
                a_, b_ = n.targets[0].id, n.value.id
                if (a_ in reads) != (b_ in reads):
                    reads |= {a_, b_}
                    changed = True
    # do the tests look inside the objects (attribute / element reads), or only at the names themselves?
    deep = False
    for t in tests + [st.value for st in body_stmts if recompute(st) and st.targets[0].id in reads]:
        for c in ast.walk(t):
            if isinstance(c, ast.Subscript):
                deep = True
            if isinstance(c, ast.Attribute) and not (isinstance(parent(c), ast.Call) and parent(c).func is c and c.attr in _PURE_METHODS):
                deep = True

    def hands_over(e: ast.AST) -> bool:
        """``e`` denotes one of the tested objects itself (or, for a deep test, something inside it)."""
        if isinstance(e, ast.Starred):
            e = e.value
        if isinstance(e, ast.Name):
            return e.id in reads
        if deep:
            while isinstance(e, (ast.Attribute, ast.Subscript)):
                e = e.value
            return isinstance(e, ast.Name) and e.id in reads
        return False

    def may_affect(st: ast.stmt) -> bool:
        if recompute(st):
            return False
        for e in _own_exprs(st):
            for c in ast.walk(e):
                if isinstance(c, (ast.Yield, ast.YieldFrom, ast.Await, ast.NamedExpr)):
                    return True  # control leaves the function: the consumer may change anything
                if isinstance(c, ast.Name) and c.id in reads and isinstance(c.ctx, (ast.Store, ast.Del)):
                    return True
                if isinstance(c, (ast.Attribute, ast.Subscript)) and isinstance(c.ctx, (ast.Store, ast.Del)) and _root(c) in reads:
                    return True
                if isinstance(c, ast.Call) and not _is_pure_call(c):
                    if isinstance(c.func, ast.Attribute) and hands_over(c.func.value):
                        return True
                    if isinstance(c.func, ast.Attribute) and isinstance(c.func.value, ast.Call) and dotted(c.func.value.func) == "super" and "self" in reads:
                        return True  # super().m(...) works on self
                    if any(hands_over(a) for a in list(c.args) + [k.value for k in c.keywords]):
                        return True
        return False

    if _cyclic_path_avoiding(w, fi, may_affect):
        return (
            "some cyclic path changes nothing that the loop test or any test inside the loop reads ("
            + ", ".join(sorted(reads))
            + " are only re-computed from unchanged values; none is re-bound to something new, modified through a method/subscript, or handed to a call): "
            "once that path is taken it is taken forever"
        )
    return None


def _requires_nonempty(test: ast.expr) -> set[str]:
    """Names of collections that are non-empty whenever the loop test is true."""
    if isinstance(test, ast.Name):
        return {test.id}
    if isinstance(test, ast.BoolOp) and isinstance(test.op, ast.And):
        out: set[str] = set()
        for v in test.values:
            out |= _requires_nonempty(v)
        return out
    if isinstance(test, ast.Call) and dotted(test.func) == "len" and len(test.args) == 1 and isinstance(test.args[0], ast.Name):
        return {test.args[0].id}
    if isinstance(test, ast.Compare) and len(test.ops) == 1:
        l, r, op = test.left, test.comparators[0], test.ops[0]
        if isinstance(l, ast.Call) and dotted(l.func) == "len" and len(l.args) == 1 and isinstance(l.args[0], ast.Name) and isinstance(r, ast.Constant) and isinstance(r.value, int):
            if (isinstance(op, ast.Gt) and r.value >= 0) or (isinstance(op, ast.GtE) and r.value >= 1) or (isinstance(op, ast.NotEq) and r.value == 0):
                return {l.args[0].id}
    return set()


def _shrinks(c: ast.AST, nm: str) -> bool:
    """``c`` removes at least one element from the list ``nm`` (or raises)."""
    if isinstance(c, ast.Call) and isinstance(c.func, ast.Attribute) and c.func.attr in ("pop", "popleft") and unparse(c.func.value) == nm:
        return True
    if isinstance(c, ast.Assign) and len(c.targets) == 1 and isinstance(c.targets[0], ast.Name) and c.targets[0].id == nm:
        v = c.value
        if isinstance(v, ast.Subscript) and isinstance(v.value, ast.Name) and v.value.id == nm and isinstance(v.slice, ast.Slice):
            sl = v.slice
            const = lambda x: isinstance(x, ast.Constant) and isinstance(x.value, int) and not isinstance(x.value, bool)
            if sl.step is None and sl.upper is None and const(sl.lower) and sl.lower.value >= 1:
                return True  # X = X[k:]
            if sl.step is None and sl.lower is None and isinstance(sl.upper, ast.UnaryOp) and isinstance(sl.upper.op, ast.USub) and const(sl.upper.operand) and sl.upper.operand.value >= 1:
                return True  # X = X[:-k]
    if isinstance(c, ast.Delete):
        for t in c.targets:
            if isinstance(t, ast.Subscript) and isinstance(t.value, ast.Name) and t.value.id == nm:
                if isinstance(t.slice, ast.Constant) and isinstance(t.slice.value, int):
                    return True  # del X[0]
                sl = t.slice
                if isinstance(sl, ast.Slice) and sl.step is None and sl.lower is None and isinstance(sl.upper, ast.Constant) and isinstance(sl.upper.value, int) and sl.upper.value >= 1:
                    return True  # del X[:k]
    return False


def _effective_test(w: ast.While) -> ast.expr:
    """``while True: if C: break ...`` tests ``not C`` before every iteration."""
    if isinstance(w.test, ast.Constant) and w.test.value and w.body:
        st = w.body[0]
        if isinstance(st, ast.If) and not st.orelse and st.body and isinstance(st.body[-1], (ast.Break, ast.Return, ast.Raise)):
            t = st.test
            return t.operand if isinstance(t, ast.UnaryOp) and isinstance(t.op, ast.Not) else ast.UnaryOp(op=ast.Not(), operand=t)
    return w.test


def _counter_variant(w: ast.While, fi: FunctionInfo, test: ast.expr) -> str | None:
    """``while i < BOUND`` (or a conjunction containing it): every cyclic path adds a positive constant to ``i``,
    nothing else stores to ``i``, BOUND is not re-bound and a measured list does not grow (mirror image for ``>``)."""
    conj = test.values if isinstance(test, ast.BoolOp) and isinstance(test.op, ast.And) else [test]
    for t in conj:
        if not (isinstance(t, ast.Compare) and len(t.ops) == 1):
            continue
        l, r, op = t.left, t.comparators[0], t.ops[0]
        for ctr, bound, up in ((l, r, isinstance(op, (ast.Lt, ast.LtE))), (r, l, isinstance(op, (ast.Gt, ast.GtE)))):
            if not isinstance(ctr, ast.Name) or not isinstance(op, (ast.Lt, ast.LtE, ast.Gt, ast.GtE)):
                continue
            i = ctr.id
            if any(isinstance(x, ast.Name) and x.id == i for x in ast.walk(bound)):
                continue

            def steps(c, i=i, up=up):
                want = ast.Add if up else ast.Sub
                pos = lambda v: isinstance(v, ast.Constant) and isinstance(v.value, int) and not isinstance(v.value, bool) and v.value > 0
                if isinstance(c, ast.AugAssign) and isinstance(c.target, ast.Name) and c.target.id == i and isinstance(c.op, want) and pos(c.value):
                    return True
                if isinstance(c, ast.Assign) and len(c.targets) == 1 and isinstance(c.targets[0], ast.Name) and c.targets[0].id == i:
                    v = c.value
                    return isinstance(v, ast.BinOp) and isinstance(v.op, want) and isinstance(v.left, ast.Name) and v.left.id == i and pos(v.right)
                return False

            if not _every_cyclic_path(w, fi, steps):
                continue
            stores_i = [c for c in ast.walk(w) if isinstance(c, ast.Name) and c.id == i and isinstance(c.ctx, (ast.Store, ast.Del)) and not steps(parent(c))]
            bnames = {x.id for x in ast.walk(bound) if isinstance(x, ast.Name)} - {"len"}
            stores_b = [c for c in ast.walk(w) if isinstance(c, ast.Name) and c.id in bnames and isinstance(c.ctx, (ast.Store, ast.Del))]
            grows = any(
                isinstance(c, ast.Call) and isinstance(c.func, ast.Attribute) and c.func.attr in ("append", "extend", "insert", "appendleft", "add", "update") and _root(c.func) in bnames
                for c in ast.walk(w)
            )
            impure_bound = any(isinstance(x, ast.Call) and dotted(x.func) != "len" for x in ast.walk(bound))
            if not stores_i and not stores_b and not grows and not impure_bound:
                return f"bounded counter: every cyclic path moves `{i}` by a positive constant towards `{short(bound, 30)}`, which does not move away"
    return None


_GROWERS = ("append", "extend", "insert", "appendleft", "extendleft")


def _worklist_variant(w: ast.While, fi: FunctionInfo, test: ast.expr) -> str | None:
    """``while todo: x = todo.pop(..); ...; todo.extend(x.children)``: every cyclic path removes one element and the
    only additions are the children of the element just removed - a traversal of a finite tree."""
    for nm in sorted(_requires_nonempty(test)):
        if not _every_cyclic_path(w, fi, lambda c: isinstance(c, ast.Call) and _shrinks(c, nm)):
            continue
        popped = {
            c.targets[0].id
            for c in ast.walk(w)
            if isinstance(c, ast.Assign) and len(c.targets) == 1 and isinstance(c.targets[0], ast.Name) and isinstance(c.value, ast.Call) and _shrinks(c.value, nm)
        }
        grow_calls = [c for c in ast.walk(w) if isinstance(c, ast.Call) and isinstance(c.func, ast.Attribute) and c.func.attr in _GROWERS and unparse(c.func.value) == nm]

        def children_of_popped(e: ast.expr) -> bool:
            if isinstance(e, ast.BoolOp) and isinstance(e.op, ast.Or):
                return children_of_popped(e.values[0]) and all(isinstance(v, (ast.List, ast.Tuple)) and not v.elts for v in e.values[1:])
            if isinstance(e, ast.Call) and dotted(e.func) in ("reversed", "list", "tuple") and len(e.args) == 1:
                return children_of_popped(e.args[0])
            return isinstance(e, ast.Attribute) and e.attr == "children" and isinstance(e.value, ast.Name) and e.value.id in popped

        # other ways to add: `todo[:0] = x.children` / `todo[i:i] = ..` (slice insertion) and `todo += x.children`
        grow_stmts = []
        other = []
        for c in ast.walk(w):
            if isinstance(c, ast.Assign) and len(c.targets) == 1 and isinstance(c.targets[0], ast.Subscript) and isinstance(c.targets[0].value, ast.Name) and c.targets[0].value.id == nm:
                (grow_stmts if isinstance(c.targets[0].slice, ast.Slice) and children_of_popped(c.value) else other).append(c)
            elif isinstance(c, ast.AugAssign) and isinstance(c.target, ast.Name) and c.target.id == nm:
                (grow_stmts if isinstance(c.op, ast.Add) and children_of_popped(c.value) else other).append(c)
            elif isinstance(c, ast.Name) and c.id == nm and isinstance(c.ctx, (ast.Store, ast.Del)) and not isinstance(parent(c), ast.AugAssign):
                other.append(c)
            elif isinstance(c, ast.Delete) and any(isinstance(t_, ast.Subscript) and isinstance(t_.value, ast.Name) and t_.value.id == nm for t_ in c.targets):
                pass  # deletions only shrink
        if not (grow_calls or grow_stmts) or other or not popped:
            continue
        if all(c.func.attr in ("extend", "extendleft") and len(c.args) == 1 and children_of_popped(c.args[0]) for c in grow_calls):
            return f"tree worklist on {nm}: every cyclic path removes one element; only the children of the removed element are added (finite tree)"
    return None


def _stdlib_buffer_only_shrinks(corpus: Corpus, attr: str) -> bool:
    """Every assignment to ``self.<attr>`` in html.parser.HTMLParser is '', a suffix slice of the buffer, or
    ``self.<attr> + data`` in feed(data) (no growth for feed(""))."""

    def compute():
        try:
            m = corpus.sibling("stdlib:html/parser.py")
        except Exception:
            return False
        ci = m.classes.get("HTMLParser")
        if ci is None:
            return False
        n = 0
        for f in ci.methods.values():
            for a in f.local_nodes():
                if isinstance(a, ast.Assign) and any(unparse(t) == f"self.{attr}" for t in a.targets):
                    n += 1
                    v = a.value
                    ok = (isinstance(v, ast.Constant) and v.value == "") or (
                        isinstance(v, ast.Subscript) and isinstance(v.slice, ast.Slice) and v.slice.upper is None and v.slice.step is None and unparse(v.value) in (attr, f"self.{attr}")
                    ) or (f.name == "feed" and isinstance(v, ast.BinOp) and isinstance(v.op, ast.Add) and unparse(v.left) == f"self.{attr}" and isinstance(v.right, ast.Name) and v.right.id in f.params)
                    if not ok:
                        return False
        return n > 0

    return corpus.cache(f"c01-stdlib-buffer-shrinks-{attr}", compute)


def _fixpoint_on_shrinking_buffer(w: ast.While, fi: FunctionInfo, corpus: Corpus) -> str | None:
    """``while snap != self.buf: snap = self.buf; ...``: the loop ends as soon as a round leaves the buffer unchanged;
    a round that changes it makes it strictly shorter (suffix slices here, and html.parser's own feed("") only consumes)."""
    t = w.test
    if not (isinstance(t, ast.Compare) and len(t.ops) == 1 and isinstance(t.ops[0], ast.NotEq)):
        return None
    for snap, buf in ((t.left, t.comparators[0]), (t.comparators[0], t.left)):
        if not (isinstance(snap, ast.Name) and isinstance(buf, ast.Attribute) and isinstance(buf.value, ast.Name) and buf.value.id == "self"):
            continue
        btxt = unparse(buf)
        first = w.body[0] if w.body else None
        if not (isinstance(first, ast.Assign) and len(first.targets) == 1 and isinstance(first.targets[0], ast.Name) and first.targets[0].id == snap.id and unparse(first.value) == btxt):
            continue
        ok = True
        for x in ast.walk(w):
            if isinstance(x, ast.Assign) and x is not first and any(unparse(tg) in (btxt, snap.id) for tg in x.targets):
                # the buffer - and the snapshot along with it - may only become a strict suffix of what it was
                v = x.value
                if not all(unparse(tg) in (btxt, snap.id) for tg in x.targets):
                    ok = False
                if not (isinstance(v, ast.Subscript) and isinstance(v.slice, ast.Slice) and v.slice.upper is None and v.slice.step is None and v.slice.lower is not None and unparse(v.value) in (snap.id, btxt)):
                    ok = False
            elif isinstance(x, ast.AugAssign) and unparse(x.target) in (btxt, snap.id):
                ok = False
            elif isinstance(x, ast.Name) and x.id == snap.id and isinstance(x.ctx, ast.Store) and not isinstance(parent(x), ast.Assign):
                ok = False
            elif isinstance(x, ast.Call) and isinstance(x.func, ast.Attribute):
                recv = x.func.value
                on_self = (isinstance(recv, ast.Name) and recv.id == "self") or (isinstance(recv, ast.Call) and dotted(recv.func) == "super")
                if on_self and x.func.attr == "feed":
                    if not (len(x.args) == 1 and isinstance(x.args[0], ast.Constant) and x.args[0].value == ""):
                        ok = False  # feeding more input grows the buffer
                elif on_self and x.func.attr not in ("handle_data", "handle_comment", "handle_starttag", "handle_endtag", "close") and not x.func.attr.startswith("handle_"):
                    ok = False
        if ok and _stdlib_buffer_only_shrinks(corpus, buf.attr):
            return (
                f"fixpoint on a shrinking buffer: every round snapshots `{btxt}`; it ends when the round left the buffer unchanged, and a round that changes it leaves a strict suffix "
                "(slices here; html.parser's feed('') only consumes, read from the stdlib source)"
            )
    return None


def _iterator_stack_walk(w: ast.While, fi: FunctionInfo) -> str | None:
    """``while stack: for child in stack[-1]: ...; stack.append(iter(child)); break  else: stack.pop()``: a depth-first
    walk with an explicit stack of child iterators - every round either consumes one element of a (finite) iterator and
    pushes the iterator of that element, or pops an exhausted one; each element of the finite tree is consumed once."""
    if not isinstance(w.test, ast.Name) or len(w.body) != 1 or not isinstance(w.body[0], ast.For):
        return None
    S = w.test.id
    lp = w.body[0]
    if not (isinstance(lp.iter, ast.Subscript) and isinstance(lp.iter.value, ast.Name) and lp.iter.value.id == S and unparse(lp.iter.slice) == "-1" and isinstance(lp.target, ast.Name)):
        return None
    child = lp.target.id
    if not (lp.body and isinstance(lp.body[-1], ast.Break)):
        return None
    pops = [c for b in lp.orelse for c in ast.walk(b) if isinstance(c, ast.Call) and isinstance(c.func, ast.Attribute) and c.func.attr == "pop" and unparse(c.func.value) == S]
    if not pops:
        return None
    for c in ast.walk(w):
        if isinstance(c, ast.Call) and isinstance(c.func, ast.Attribute) and unparse(c.func.value) == S and c.func.attr in _GROWERS:
            a0 = c.args[0] if c.args else None
            inner = a0.args[0] if isinstance(a0, ast.Call) and dotted(a0.func) in ("iter", "reversed") and len(a0.args) == 1 else None
            root = inner
            while isinstance(root, ast.Attribute):
                root = root.value
            if not (c.func.attr == "append" and isinstance(root, ast.Name) and root.id == child and any(c is x for b in lp.body for x in ast.walk(b))):
                return None
        if isinstance(c, ast.Name) and c.id == S and isinstance(c.ctx, (ast.Store, ast.Del)):
            return None
    return f"iterator-stack tree walk: every round consumes one element of `{S}[-1]` and pushes that element's iterator, or pops an exhausted iterator (finite tree)"


def _loop_variant(w: ast.While, fi: FunctionInfo, corpus: Corpus) -> str | None:
    v0 = _fixpoint_on_shrinking_buffer(w, fi, corpus) or _iterator_stack_walk(w, fi)
    if v0:
        return v0
    test = _effective_test(w)
    v = _counter_variant(w, fi, test) or _worklist_variant(w, fi, test)
    if v:
        return v
    # the test itself removes an element of a collection that the body never refills
    for c in ast.walk(test):
        if isinstance(c, ast.Call) and isinstance(c.func, ast.Attribute) and c.func.attr in ("pop", "popleft"):
            coll = unparse(c.func.value)
            refills = any(
                (isinstance(x, ast.Call) and isinstance(x.func, ast.Attribute) and x.func.attr in _GROWERS and unparse(x.func.value) == coll)
                or (isinstance(x, (ast.Name, ast.Attribute)) and isinstance(x.ctx, ast.Store) and unparse(x) == coll)
                for st in w.body
                for x in ast.walk(st)
            )
            if not refills:
                return f"every evaluation of the test pops an element of {coll}, which the body never refills (an empty collection ends the loop with IndexError)"
    # `while True:` that every cyclic path leaves through `if self.eof: return/break` unless it first reads the stream
    if isinstance(w.test, ast.Constant) and w.test.value and fi.cls is not None:
        exits = [
            st for st in ast.walk(w)
            if isinstance(st, ast.If) and st.body and isinstance(st.body[-1], (ast.Return, ast.Break, ast.Raise))
            and any(unparse(x) == "self.eof" for x in ([st.test] + (st.test.values if isinstance(st.test, ast.BoolOp) and isinstance(st.test.op, ast.Or) else [])))
        ]

        def reads_stream(c):
            return isinstance(c, ast.Call) and isinstance(c.func, ast.Attribute) and c.func.attr in ("read_buffer", "readline") and unparse(c.func.value) == "self"

        if exits and not _cyclic_path_avoiding(w, fi, lambda st: any(st is e for e in exits)) and _every_cyclic_path(w, fi, reads_stream):
            rb = fi.cls.methods.get("read_buffer")
            if rb is not None and any(isinstance(s_, ast.Assign) and unparse(s_.targets[0]) == "self.eof" and unparse(s_.value) == "True" for s_ in walk_local(rb.node)):
                return "every cyclic path tests `self.eof` (and leaves when it is set) and then reads the stream; read_buffer() sets the flag when the stream returns b'' (finite stream assumed)"
    # the flag in the test is recomputed on every cyclic path from the result of a stream read
    flag = test.operand if isinstance(test, ast.UnaryOp) and isinstance(test.op, ast.Not) else None
    if isinstance(flag, ast.Attribute):
        ftxt = unparse(flag)
        reads_ = {
            c.targets[0].id
            for st in w.body
            for c in ast.walk(st)
            if isinstance(c, ast.Assign) and len(c.targets) == 1 and isinstance(c.targets[0], ast.Name) and isinstance(c.value, ast.Call)
            and isinstance(c.value.func, ast.Attribute) and c.value.func.attr in ("read", "read1", "readline", "recv")
        }

        def sets_flag(c):
            return (
                isinstance(c, ast.Assign) and len(c.targets) == 1 and unparse(c.targets[0]) == ftxt
                and any(isinstance(x, ast.Name) and x.id in reads_ for x in ast.walk(c.value))
            )

        if reads_ and _every_cyclic_path(w, fi, sets_flag) and _every_cyclic_path(w, fi, lambda c: isinstance(c, ast.Assign) and len(c.targets) == 1 and isinstance(c.targets[0], ast.Name) and c.targets[0].id in reads_):
            return f"`{ftxt}` is recomputed on every cyclic path from what a stream read returned (finite stream assumed)"
    # shrink-until-empty: the test implies the collection is non-empty, every cyclic path removes an element
    for nm in sorted(_requires_nonempty(test)):
        if _every_cyclic_path(w, fi, lambda c: _shrinks(c, nm)):
            other_stores = [
                c
                for c in ast.walk(w)
                if (isinstance(c, ast.Name) and c.id == nm and isinstance(c.ctx, ast.Store) and not _shrinks(parent(c), nm))
                or (isinstance(c, ast.AugAssign) and isinstance(c.target, ast.Name) and c.target.id == nm)
                or (isinstance(c, ast.Subscript) and isinstance(c.ctx, ast.Store) and isinstance(c.value, ast.Name) and c.value.id == nm and isinstance(c.slice, ast.Slice))
            ]
            grows = any(
                isinstance(c, ast.Call) and isinstance(c.func, ast.Attribute) and c.func.attr in ("append", "extend", "insert", "appendleft") and unparse(c.func.value) == nm
                for c in ast.walk(w)
            )
            if not grows and not other_stores:
                return f"shrink-until-empty on {nm}: every cyclic path pops / drops a leading slice of the tested list, nothing adds to it"
    # find-then-slice
    if isinstance(test, ast.Compare) and isinstance(test.left, ast.Name) and isinstance(test.ops[0], ast.NotEq) and unparse(test.comparators[0]) == "-1":
        pos = test.left.id
        buf = None
        sliced = refound = False
        for st in w.body:
            if isinstance(st, ast.Assign) and isinstance(st.targets[0], ast.Name):
                t = st.targets[0].id
                v = st.value
                if isinstance(v, ast.Subscript) and isinstance(v.slice, ast.Slice) and unparse(v.value) == t and v.slice.lower is not None and unparse(v.slice.lower) in (f"{pos} + 1",) and v.slice.upper is None:
                    buf, sliced = t, True
                if t == pos and isinstance(v, ast.Call) and isinstance(v.func, ast.Attribute) and v.func.attr == "find" and sliced and unparse(v.func.value) == buf:
                    refound = True
        if sliced and refound:
            return f"find-then-slice: {buf} shrinks by at least one byte per iteration"
    # eof flag set by read
    conj_ = test.values if isinstance(test, ast.BoolOp) and isinstance(test.op, ast.And) else [test]
    if any(isinstance(t_, ast.UnaryOp) and isinstance(t_.op, ast.Not) and unparse(t_.operand) == "self.eof" for t_ in conj_):
        g = get_callgraph(corpus)
        reach = g.reachable([fi]) if False else None
        # every iteration calls read_buffer directly or through readline
        def reads(c):
            return isinstance(c, ast.Call) and isinstance(c.func, ast.Attribute) and c.func.attr in ("read_buffer", "readline") and unparse(c.func.value) == "self"

        if _every_cyclic_path(w, fi, reads):
            rb = fi.cls.methods.get("read_buffer") if fi.cls else None
            if rb is not None and any(isinstance(s, ast.Assign) and unparse(s.targets[0]) == "self.eof" and unparse(s.value) == "True" for s in walk_local(rb.node)):
                return "eof flag set by read_buffer() when the stream returns b'' (finite stream assumed)"
    # candidate changes every iteration against an unmodified collection
    if isinstance(test, ast.Compare) and isinstance(test.ops[0], ast.In):
        coll = unparse(test.comparators[0])
        cand_names = {n.id for n in ast.walk(test.left) if isinstance(n, ast.Name)}
        modified_coll = any(
            (isinstance(c, ast.Call) and isinstance(c.func, ast.Attribute) and unparse(c.func.value) == coll and c.func.attr in ("pop", "remove", "discard", "clear"))
            for c in ast.walk(w)
        )
        counters = set()
        for st in w.body:
            if isinstance(st, ast.AugAssign) and isinstance(st.op, ast.Add) and isinstance(st.target, ast.Name) and isinstance(st.value, ast.Constant) and isinstance(st.value.value, int) and st.value.value > 0:
                counters.add(st.target.id)
        changes = False
        for st in w.body:
            if isinstance(st, ast.Assign) and isinstance(st.targets[0], ast.Name) and st.targets[0].id in cand_names:
                if {n.id for n in ast.walk(st.value) if isinstance(n, ast.Name)} & counters:
                    changes = True
        if counters & cand_names:
            changes = True
        if changes and not modified_coll:
            return f"uniquifier: the candidate embeds a counter incremented every iteration; {coll} is finite and unmodified"
    # tree ascent: on every cyclic path the cursor is rebound to its own parent (the root of a finite tree has none)
    for st in w.body:
        if isinstance(st, ast.Assign) and len(st.targets) == 1 and isinstance(st.targets[0], ast.Name):
            cur = st.targets[0].id
            v = st.value
            if isinstance(v, ast.Attribute) and v.attr == "parent" and isinstance(v.value, ast.Name) and v.value.id == cur:
                others = [d for d in ast.walk(w) if isinstance(d, ast.Name) and d.id == cur and isinstance(d.ctx, (ast.Store, ast.Del)) and parent(d) is not st]
                reads_cur = any(isinstance(x, ast.Name) and x.id == cur for x in ast.walk(test))
                if not others and reads_cur and _every_cyclic_path(w, fi, lambda c, st=st: c is st):
                    return f"tree ascent: `{cur}` is rebound to its own parent on every cyclic path (the parent chain of a docutils node is finite)"
    # tree descent: on every cyclic path the cursor is rebound to one of its own children (finite tree)
    for st in w.body:
        if not (isinstance(st, ast.Assign) and len(st.targets) == 1 and isinstance(st.targets[0], ast.Name)):
            continue
        cur = st.targets[0].id

        def from_children(e, depth=0):
            """``e`` denotes a member / sub-list of ``<cur>.children``."""
            if depth > 8:
                return False
            if isinstance(e, ast.Subscript):
                return from_children(e.value, depth + 1)
            if isinstance(e, ast.Attribute) and e.attr == "children" and isinstance(e.value, ast.Name) and e.value.id == cur:
                return True
            if isinstance(e, (ast.ListComp, ast.GeneratorExp)) and len(e.generators) == 1:
                gen = e.generators[0]
                return from_children(gen.iter, depth + 1) and isinstance(e.elt, ast.Name) and isinstance(gen.target, ast.Name) and e.elt.id == gen.target.id
            if isinstance(e, ast.Call):
                d_ = dotted(e.func)
                # selections / reorderings of the children, and `next(<those>[, default])` (one of them, or the default)
                if d_ in ("reversed", "list", "tuple", "iter", "sorted") and len(e.args) == 1:
                    return from_children(e.args[0], depth + 1)
                if d_ == "filter" and len(e.args) == 2:
                    return from_children(e.args[1], depth + 1)
                if d_ == "next" and 1 <= len(e.args) <= 2:
                    return from_children(e.args[0], depth + 1)
                return False
            if isinstance(e, ast.Name):
                defs = [d for d in w.body if isinstance(d, ast.Assign) and len(d.targets) == 1 and isinstance(d.targets[0], ast.Name) and d.targets[0].id == e.id]
                return len(defs) == 1 and e.id != cur and from_children(defs[0].value, depth + 1)
            return False

        if isinstance(st.value, (ast.Subscript, ast.Name, ast.Call)) and from_children(st.value):
            others = [d for d in ast.walk(w) if isinstance(d, ast.Assign) and any(isinstance(t, ast.Name) and t.id == cur for t in d.targets) and d is not st]
            if not others and _every_cyclic_path(w, fi, lambda c: c is st):
                return f"tree descent: `{cur}` is rebound to one of its own children on every cyclic path (finite tree)"
    return None


# ---------------------------------------------------------------------------
# R6 YAML values are narrowed before use


@rule("C01.R6")
def r6_yaml_narrowing(corpus: Corpus, rep: Report, tier: str):
    rep.rule(
        "C01.R6",
        "values produced by yaml.safe_load, and values read out of them, are isinstance-narrowed (or validated as a mapping) "
        "before attribute/subscript/iteration/**-unpack use",
    )
    n = 0
    for fi in corpus.all_functions():
        if fi.is_lambda:
            continue
        for st in walk_local(fi.node):
            if not (isinstance(st, ast.Assign) and len(st.targets) == 1 and isinstance(st.targets[0], ast.Name)):
                continue
            if not any(isinstance(c, ast.Call) and fi.module.resolve(dotted(c.func) or "") in ("yaml.safe_load", "yaml.load") for c in ast.walk(st.value)):
                continue
            n += 1
            var = st.targets[0].id
            _check_narrowed(corpus, fi, var, st, fi.node, rep)
            n += _check_derived(corpus, fi, {var}, rep)
    # merge_file_level: the front matter arrives as a parameter (a dict by the callers' narrowing); what is read
    # out of it is YAML_ANY again
    mfl = corpus.func("config.main:merge_file_level")
    if "topmatter" not in mfl.params:
        rep.error("C01.R6", f"{mfl.fq}: the front-matter parameter `topmatter` is gone")
    n += _check_derived(corpus, mfl, {"topmatter"}, rep)
    if n < 6:
        rep.error("C01.R6", f"expected at least 6 YAML-valued locals (4 load sites, the `myst` table and its values), found {n}")


def _check_derived(corpus: Corpus, fi: FunctionInfo, containers: set[str], rep: Report) -> int:
    """Locals that receive a value read OUT of a YAML container (element, `.get`, loop over items/values): each is
    YAML_ANY again.  Aliases of a container (``updates = myst``) are containers too."""
    seen: set[tuple[str, int]] = set()
    work = list(containers)
    done = set()
    count = 0
    while work:
        c = work.pop()
        if c in done:
            continue
        done.add(c)

        def reads_out(e: ast.expr) -> bool:
            if isinstance(e, ast.Subscript) and isinstance(e.value, ast.Name) and e.value.id == c and isinstance(e.ctx, ast.Load):
                return True
            return isinstance(e, ast.Call) and isinstance(e.func, ast.Attribute) and isinstance(e.func.value, ast.Name) and e.func.value.id == c and e.func.attr in ("get", "pop", "setdefault")

        for node in fi.local_nodes():
            new: list[tuple[str, ast.AST, ast.AST]] = []  # (var, defining node, scope)
            if isinstance(node, ast.Assign) and len(node.targets) == 1 and isinstance(node.targets[0], ast.Name):
                if reads_out(node.value):
                    new.append((node.targets[0].id, node, fi.node))
                elif isinstance(node.value, ast.Name) and node.value.id == c and node.targets[0].id != c:
                    work.append(node.targets[0].id)  # alias (the aliasing itself is judged as a use of `c`)
            elif isinstance(node, (ast.For, ast.comprehension)):
                it, tg = node.iter, node.target
                scope = node if isinstance(node, ast.For) else parent(node)
                if isinstance(it, ast.Call) and isinstance(it.func, ast.Attribute) and isinstance(it.func.value, ast.Name) and it.func.value.id == c and not it.args:
                    if it.func.attr == "items" and isinstance(tg, ast.Tuple) and len(tg.elts) == 2 and isinstance(tg.elts[1], ast.Name):
                        new.append((tg.elts[1].id, node, scope))
                    elif it.func.attr == "values" and isinstance(tg, ast.Name):
                        new.append((tg.id, node, scope))
            for var, dnode, scope in new:
                if (var, id(dnode)) in seen:
                    continue
                seen.add((var, id(dnode)))
                count += 1
                _check_narrowed(corpus, fi, var, dnode, scope, rep)
                if var not in done:
                    work.append(var)
    return count


_MAPPING_TYPES = ("dict", "Mapping", "MutableMapping", "OrderedDict")


def _validator_is_mapping(e: ast.expr) -> bool:
    """The validator expression rejects everything that is not a mapping (``**value`` is then safe)."""
    if isinstance(e, ast.List):
        return any(_validator_is_mapping(x) for x in e.elts)
    if not isinstance(e, ast.Call):
        return False
    name = (dotted(e.func) or "").split(".")[-1]
    if name == "instance_of" and len(e.args) == 1:
        t = e.args[0]
        ts = t.elts if isinstance(t, ast.Tuple) else [t]
        return bool(ts) and all((dotted(x) or "").split(".")[-1] in _MAPPING_TYPES for x in ts)
    if name == "deep_mapping":
        mv = e.args[2] if len(e.args) > 2 else None
        for k in e.keywords:
            if k.arg == "mapping_validator":
                mv = k.value
        return mv is not None and _validator_is_mapping(mv)
    return False


def _config_fields(corpus: Corpus) -> dict[str, dict[str, ast.expr]]:
    """name -> metadata dict (key -> value expression) of every MdParserConfig field."""

    def compute():
        ci = corpus.cls("config.main:MdParserConfig")
        out: dict[str, dict[str, ast.expr]] = {}
        for st in ci.node.body:
            if not (isinstance(st, ast.AnnAssign) and isinstance(st.target, ast.Name) and isinstance(st.value, ast.Call)):
                continue
            if (dotted(st.value.func) or "").split(".")[-1] != "field":
                continue
            md = None
            for k in st.value.keywords:
                if k.arg == "metadata":
                    md = k.value
            meta: dict[str, ast.expr] = {}
            if isinstance(md, ast.Dict):
                for k, v in zip(md.keys, md.values):
                    if isinstance(k, ast.Constant) and isinstance(k.value, str):
                        meta[k.value] = v
            elif md is not None:
                raise Unsupported(f"MdParserConfig.{st.target.id}: metadata is not a dict literal")
            out[st.target.id] = meta
        if len(out) < 20:
            raise AnchorMissing(f"MdParserConfig: only {len(out)} dataclass fields found")
        return out

    return corpus.cache("c01-config-fields", compute)


def _validated_as_mapping(corpus: Corpus, fi: FunctionInfo, cfg, var: str, use: ast.AST) -> tuple[str, str]:
    """('ok'|'no'|'violation'|'error', text): the use of the YAML value `var` happens only after
    ``validate_field(inst, FIELD, var)`` completed normally, for fields whose validator admits mappings only."""
    U = cfg.stmt_of(use)
    cands = []
    for c in fi.local_nodes():
        if isinstance(c, ast.Call) and fi.module.resolve(dotted(c.func) or "").split(".")[-1] == "validate_field" and len(c.args) == 3:
            if isinstance(c.args[2], ast.Name) and c.args[2].id == var:
                cands.append(c)
    for c in cands:
        V = cfg.stmt_of(c)
        if V is U or not cfg.dominates(V, U):
            continue
        # every handler that catches a validation failure must not continue to the use
        leak = False
        for a in ancestors(c):
            if isinstance(a, (ast.FunctionDef, ast.Lambda)):
                break
            if isinstance(a, ast.Try) and any(c in ast.walk(s) for s in a.body):
                for h in a.handlers:
                    if cfg.paths_avoiding(("H", h), U, lambda n: n is V):
                        leak = True
        if leak:
            continue
        # the value must not be re-bound between the validation and the use
        rebound = False
        for n in fi.local_nodes():
            if isinstance(n, ast.Name) and n.id == var and isinstance(n.ctx, ast.Store):
                R = cfg.stmt_of(n)
                if R is U and isinstance(R, (ast.Assign, ast.AugAssign, ast.AnnAssign)):
                    starts = list(cfg.succ.get(R, []))  # the right-hand side is evaluated before the store
                else:
                    starts = [R]
                if any(s is U or cfg.paths_avoiding(s, U, lambda m: m is V) for s in starts if s is not V):
                    rebound = True
        if rebound:
            continue
        # which fields reach the use?  (a test on the field's metadata, or on the option name, selects them)
        ftext = unparse(c.args[1])
        key_var = None
        for lp in fi.local_nodes():
            if isinstance(lp, ast.For) and isinstance(lp.target, ast.Tuple) and len(lp.target.elts) == 2:
                a0, a1 = lp.target.elts
                if isinstance(a1, ast.Name) and a1.id == var and isinstance(a0, ast.Name):
                    key_var = a0.id
        flag = None
        names: set[str] | None = None
        unknown_selector = None
        before = {(unparse(t), p_) for t, p_ in cfg.guards(V)}
        for test, pol in cfg.guards(U):
            txt = unparse(test)
            if (txt, pol) in before:
                continue  # held already when the validation ran: not a condition between validation and use
            if isinstance(test, ast.Call) and dotted(test.func) == "isinstance":
                continue
            test = _single_def(fi, test)
            sel = None
            if isinstance(test, ast.Call) and unparse(test.func) == f"{ftext}.metadata.get" and test.args and isinstance(test.args[0], ast.Constant):
                if len(test.args) == 1 or (isinstance(test.args[1], ast.Constant) and not test.args[1].value):
                    sel = test.args[0].value
            elif isinstance(test, ast.Subscript) and unparse(test.value) == f"{ftext}.metadata" and isinstance(test.slice, ast.Constant):
                sel = test.slice.value
            if sel is not None and pol:
                flag = sel
                continue
            if key_var and isinstance(test, ast.Compare) and len(test.ops) == 1 and isinstance(test.left, ast.Name) and test.left.id == key_var:
                r = test.comparators[0]
                consts = None
                if isinstance(r, ast.Constant) and isinstance(r.value, str):
                    consts = {r.value}
                elif isinstance(r, (ast.Tuple, ast.List, ast.Set)) and all(isinstance(x, ast.Constant) and isinstance(x.value, str) for x in r.elts):
                    consts = {x.value for x in r.elts}
                if consts is not None and ((isinstance(test.ops[0], (ast.Eq, ast.In)) and pol) or (isinstance(test.ops[0], (ast.NotEq, ast.NotIn)) and not pol)):
                    names = consts if names is None else names & consts
                    continue
            unknown_selector = txt
        fields = _config_fields(corpus)
        chosen = dict(fields)
        which = []
        if flag is not None:
            chosen = {f: m for f, m in chosen.items() if flag in m and not (isinstance(m[flag], ast.Constant) and not m[flag].value)}
            which.append(f"fields with metadata[{flag!r}]")
        if names is not None:
            chosen = {f: m for f, m in chosen.items() if f in names}
            which.append(f"fields named {sorted(names)}")
        if which and not chosen:
            return ("error", f"no MdParserConfig field is selected by {' and '.join(which)}")
        if not which and unknown_selector is not None:
            return ("error", f"the use is reached under `{unknown_selector}`, which is not a recognised selection of config fields (metadata flag or option name)")
        which = " and ".join(which) or "all fields (the use is unconditional after the validation)"
        bad = [f for f, m in chosen.items() if "validator" not in m or not _validator_is_mapping(m["validator"])]
        if bad:
            return ("violation", f"validated by validate_field, but the validator of `{bad[0]}` ({which}) admits values that are not mappings")
        return ("ok", f"after validate_field succeeded; {which} ({', '.join(sorted(chosen))}) are validated as mappings")
    return ("no", "")


def _single_def(fi: FunctionInfo, e: ast.expr) -> ast.expr:
    """A local that is bound exactly once stands for the expression it was bound to (one level)."""
    if not isinstance(e, ast.Name):
        return e
    defs = []
    for n in fi.local_nodes():
        if isinstance(n, ast.Name) and n.id == e.id and isinstance(n.ctx, ast.Store):
            defs.append(parent(n))
    if len(defs) == 1 and isinstance(defs[0], ast.Assign) and len(defs[0].targets) == 1 and defs[0].targets[0] is not None and isinstance(defs[0].targets[0], ast.Name):
        return defs[0].value
    return e


_USE_ERRORS = ("TypeError", "AttributeError", "KeyError", "IndexError")


def _inside_broad_try(use: ast.AST, mapping_use: bool) -> bool:
    """The use sits in a ``try`` body whose handler catches whatever a wrongly-typed value raises there."""
    node = use
    for a in ancestors(use):
        if isinstance(a, (ast.FunctionDef, ast.Lambda)):
            break
        if isinstance(a, ast.Try) and any(node is s for s in a.body):
            for h in a.handlers:
                elts = [None] if h.type is None else (h.type.elts if isinstance(h.type, ast.Tuple) else [h.type])
                names = {"BaseException" if t is None else (dotted(t) or "").split(".")[-1] for t in elts}
                if names & {"Exception", "BaseException"}:
                    return True
                if mapping_use and "TypeError" in names:
                    return True  # `**x` / `{**x}` of a non-mapping raises TypeError only
        if isinstance(a, ast.With) and any(node is s for s in a.body):
            for it in a.items:
                ce = it.context_expr
                if isinstance(ce, ast.Call) and (dotted(ce.func) or "").split(".")[-1] == "suppress":
                    names = {(dotted(t) or "").split(".")[-1] for t in ce.args}
                    if names & {"Exception", "BaseException"} or (mapping_use and "TypeError" in names):
                        return True
        node = a
    return False


def _normalised_before(fi: FunctionInfo, cfg, var: str, use_stmt, only_types: set[str] | None = None) -> bool:
    """A dominating ``if not isinstance(var, T): ...; var = <literal of type T>`` (no else, the branch falls through):
    after it ``var`` is a T on every path; nothing re-binds it between that statement and the use."""
    lit_types = {ast.Dict: "dict", ast.List: "list", ast.Tuple: "tuple", ast.Set: "set"}
    for I in fi.local_nodes():
        if not (isinstance(I, ast.If) and not I.orelse and I.body):
            continue
        t = I.test
        if not (isinstance(t, ast.UnaryOp) and isinstance(t.op, ast.Not) and isinstance(t.operand, ast.Call) and dotted(t.operand.func) == "isinstance" and len(t.operand.args) == 2 and unparse(t.operand.args[0]) == var):
            continue
        types = t.operand.args[1].elts if isinstance(t.operand.args[1], ast.Tuple) else [t.operand.args[1]]
        tnames = {(dotted(x) or "").split(".")[-1] for x in types}
        stores = [x for b in I.body for x in ast.walk(b) if isinstance(x, ast.Assign) and len(x.targets) == 1 and isinstance(x.targets[0], ast.Name) and x.targets[0].id == var]
        if not stores or isinstance(I.body[-1], (ast.Return, ast.Raise, ast.Continue, ast.Break)):
            continue
        last = stores[-1].value
        lt = lit_types.get(type(last)) or ((dotted(last.func) if isinstance(last, ast.Call) and ((not last.args and not last.keywords) or dotted(last.func) == "str") else None))
        if lt not in tnames or (only_types is not None and not tnames <= only_types):
            continue
        if not (cfg.dominates(I, use_stmt) and I is not use_stmt):
            continue
        later = [x for x in fi.local_nodes() if isinstance(x, ast.Name) and x.id == var and isinstance(x.ctx, (ast.Store, ast.Del)) and I.end_lineno < x.lineno < getattr(use_stmt, "lineno", 10**9)]
        if later:
            continue
        return True
    return False


def _check_narrowed(corpus: Corpus, fi: FunctionInfo, var: str, assign: ast.AST, scope: ast.AST, rep: Report) -> None:
    cfg = get_cfg(fi)
    uses = []
    line0 = getattr(assign, "lineno", None) or getattr(getattr(assign, "iter", None), "lineno", 0)
    nodes = walk_local(scope) if scope is not fi.node else fi.local_nodes()
    for n in nodes:
        if getattr(n, "lineno", 0) < line0:
            continue
        risky = None
        if isinstance(n, ast.Attribute) and isinstance(n.value, ast.Name) and n.value.id == var and isinstance(parent(n), ast.Call) and parent(n).func is n:
            risky = n
        elif isinstance(n, ast.Subscript) and isinstance(n.value, ast.Name) and n.value.id == var and isinstance(n.ctx, ast.Load):
            risky = n
        elif isinstance(n, (ast.For, ast.comprehension)) and isinstance(n.iter, ast.Name) and n.iter.id == var:
            risky = n.iter
        elif isinstance(n, ast.keyword) and n.arg is None and isinstance(n.value, ast.Name) and n.value.id == var:
            risky = n.value
        elif isinstance(n, ast.Starred) and isinstance(n.value, ast.Name) and n.value.id == var and isinstance(n.ctx, ast.Load):
            risky = n.value
        elif isinstance(n, ast.Dict) and any(k is None and isinstance(v, ast.Name) and v.id == var for k, v in zip(n.keys, n.values)):
            risky = n
        elif isinstance(n, ast.Assign) and isinstance(n.value, ast.Name) and n.value.id == var and n is not assign:
            risky = n.value  # aliasing: the alias is used un-narrowed later (updates = myst)
        if risky is not None:
            uses.append(risky)
    if isinstance(assign, ast.Assign):
        k0 = f"{fi.fq}|{var} = {short(assign.value, 50)}"
    else:
        k0 = f"{fi.fq}|{var} in {short(assign.iter, 50)}"  # loop / comprehension variable
    site0 = fi.module.site(assign if hasattr(assign, "lineno") else assign.iter)
    if not uses:
        rep.ok("C01.R6", k0, site0, "value is only returned/tested/passed on")
        return
    bad = []
    how = set()
    for u in uses:
        st = cfg.stmt_of(u)
        gs = cfg.guards(st)
        ok = any(pol and isinstance(t, ast.Call) and dotted(t.func) == "isinstance" and t.args and unparse(t.args[0]) == var for t, pol in gs)
        if ok:
            how.add(f"isinstance({var}, ...)")
            continue
        if _normalised_before(fi, cfg, var, st):
            how.add(f"`if not isinstance({var}, T): {var} = <T literal>` normalises it first")
            continue
        is_mapping_use = isinstance(u, ast.Dict) or isinstance(parent(u), ast.keyword)
        if _inside_broad_try(u, is_mapping_use):
            how.add("a try/except that catches the TypeError/AttributeError of a wrongly-typed value")
            continue
        verdict, text = _validated_as_mapping(corpus, fi, cfg, var, u) if is_mapping_use else ("no", "")
        if verdict == "ok":
            how.add(text)
        elif verdict == "error":
            rep.error("C01.R6", f"{fi.module.site(u)}: use of the YAML value `{var}`: {text}")
            return
        else:
            bad.append((u, text))
    if bad:
        u, text = bad[0]
        shown = parent(u) if not isinstance(u, (ast.Name, ast.Dict)) else u
        rep.violation(
            "C01.R6",
            k0,
            fi.module.site(u),
            f"`{short(shown, 60)}` uses the YAML value `{var}` (dict, list, scalar or None) without a dominating isinstance narrowing"
            + (f" ({text})" if text else " or successful mapping validation"),
        )
    else:
        rep.ok("C01.R6", k0, site0, f"{len(uses)} use(s), all dominated by " + "; ".join(sorted(how)))


# ---------------------------------------------------------------------------
# R7 a docutils node is offered to the name registry once
#
# ``document.note_explicit_target(node, ..)`` / ``note_implicit_target(node, ..)`` register EVERY entry of
# ``node['names']`` (docutils ``set_name_id_map`` iterates the whole list).  A second registration of the same node
# therefore offers the names of the first one again: docutils treats them as duplicates of themselves, moves them to
# ``dupnames`` while ``document.nameids`` keeps pointing at the node, and the next real duplicate of such a name (or
# the second registration itself, when both are of the same kind) ends in ``dupname()``:
# ``node['names'].remove(name)`` -> ValueError out of Parser.parse.  Accepted: at most one registration per node
# object on every path, or a later registration that is *isolated* - ``node['names']`` is re-bound to a fresh list
# directly before the call, so that only new names are offered.

_REGISTER = ("note_explicit_target", "note_implicit_target")


def _registration_events(corpus: Corpus):
    """fq -> [(call, local name, kind)], plus the summaries {fq: {param: kind}} they are derived from."""

    def compute():
        g = get_callgraph(corpus)
        funcs = [f for f in corpus.all_functions() if not f.is_lambda]
        direct: dict[str, list] = {}
        unknown: list[tuple[FunctionInfo, ast.AST, str]] = []
        requires: dict[str, dict[str, list]] = {}  # fq -> registered param -> [(selector param, constant) | None]
        for fi in funcs:
            for c in fi.local_nodes():
                if not (isinstance(c, ast.Call) and isinstance(c.func, ast.Attribute) and c.func.attr in _REGISTER and c.args):
                    continue
                if not (dotted(c.func.value) or "").split(".")[-1] == "document":
                    continue
                a0 = c.args[0]
                if not isinstance(a0, ast.Name):
                    continue  # attribute / call results: not tracked
                direct.setdefault(fi.fq, []).append((c, a0.id, _isolation(fi, c, a0.id, unknown)))
                req = _key_requirement(fi, c)
                if req is not None:
                    requires.setdefault(fi.fq, {}).setdefault(a0.id, []).append(req)
                else:
                    requires.setdefault(fi.fq, {}).setdefault(a0.id, []).append(None)
        summ: dict[str, dict[str, str]] = {}
        events: dict[str, list] = {}
        for _ in range(6):
            changed = False
            for fi in funcs:
                evs = list(direct.get(fi.fq, []))
                for call, targets in g.callees(fi):
                    for t in g.flat_targets(targets):
                        ps = summ.get(t.fq)
                        if not ps or t.is_lambda:
                            continue
                        a = t.node.args
                        pos = [x.arg for x in a.posonlyargs + a.args]
                        if t.cls is not None and pos and "staticmethod" not in t.decorators() and isinstance(call.func, ast.Attribute):
                            pos = pos[1:]
                        if any(isinstance(x, ast.Starred) for x in call.args):
                            continue
                        bound = dict(zip(pos, call.args))
                        for k in call.keywords:
                            if k.arg:
                                bound[k.arg] = k.value
                        for pname, kind in ps.items():
                            v = bound.get(pname)
                            if not isinstance(v, ast.Name) or any(e[0] is call and e[1] == v.id for e in evs):
                                continue
                            # the callee registers only for a key that its selector parameter lists
                            # (copy_attributes: `key in keys and key == "id"`)
                            reqs = requires.get(t.fq, {}).get(pname) or [None]
                            if all(r is not None and _excluded(bound.get(r[0]), r[1]) for r in reqs):
                                continue
                            evs.append((call, v.id, kind))
                events[fi.fq] = evs
                mine: dict[str, str] = {}
                for call, nm, kind in evs:
                    if nm in fi.params and nm not in ("self", "cls") and not _rebound(fi, nm):
                        mine[nm] = "plain" if kind == "plain" or mine.get(nm) == "plain" else kind
                if mine != summ.get(fi.fq, {}):
                    summ[fi.fq] = mine
                    changed = True
            if not changed:
                break
        return events, summ, unknown

    return corpus.cache("c01-registration-events", compute)


def _key_requirement(fi: FunctionInfo, call: ast.Call) -> tuple[str, object] | None:
    """(selector parameter, constant): the registration runs only under ``V == const`` and ``V in <selector parameter>``."""
    try:
        cfg = get_cfg(fi)
        facts = cfg.guards(cfg.stmt_of(call))
    except Unsupported:
        return None
    consts: dict[str, object] = {}
    member: dict[str, str] = {}
    for t, pol in facts:
        if not (isinstance(t, ast.Compare) and len(t.ops) == 1 and isinstance(t.left, ast.Name)):
            continue
        r = t.comparators[0]
        if isinstance(t.ops[0], ast.Eq) and pol and isinstance(r, ast.Constant):
            consts[t.left.id] = r.value
        if isinstance(r, ast.Name) and r.id in fi.params and not _rebound(fi, r.id):
            if (isinstance(t.ops[0], ast.In) and pol) or (isinstance(t.ops[0], ast.NotIn) and not pol):
                member[t.left.id] = r.id
    for v, c in consts.items():
        if v in member:
            return (member[v], c)
    return None


def _excluded(arg: ast.expr | None, const) -> bool:
    """The selector argument is a literal collection of constants that does not list ``const``."""
    if not isinstance(arg, (ast.Tuple, ast.List, ast.Set)):
        return False
    return all(isinstance(x, ast.Constant) for x in arg.elts) and all(x.value != const for x in arg.elts)


def _rebound(fi: FunctionInfo, name: str) -> bool:
    return any(isinstance(n, ast.Name) and n.id == name and isinstance(n.ctx, (ast.Store, ast.Del)) for n in fi.local_nodes())


def _names_slot(e: ast.AST, var: str) -> bool:
    return isinstance(e, ast.Subscript) and isinstance(e.value, ast.Name) and e.value.id == var and isinstance(e.slice, ast.Constant) and e.slice.value == "names"


def _isolation(fi: FunctionInfo, call: ast.Call, var: str, unknown: list) -> str:
    """'isolated' when ``var['names'] = [fresh, ...]`` (a list display that does not read the old names) is the
    closest earlier statement of the same block that mentions ``var``; 'plain' otherwise.  Other re-bindings of
    ``var['names']`` in the function are reported as not understood."""
    st = call
    while not isinstance(st, ast.stmt):
        st = parent(st)
    blk = None
    for fld in ("body", "orelse", "finalbody"):
        b = getattr(parent(st), fld, None)
        if isinstance(b, list) and st in b:
            blk = b
    kind = "plain"
    if blk is not None:
        for prev in reversed(blk[: blk.index(st)]):
            if not any(isinstance(x, ast.Name) and x.id == var for x in ast.walk(prev)):
                continue
            # a statement that only looks at the node (isinstance test, plain copy of the reference) without touching
            # its names, calling a method on it or handing it to a call cannot change what the registration will offer
            harmless = isinstance(prev, (ast.Assign, ast.AnnAssign)) and not any(
                (_names_slot(x, var))
                or (isinstance(x, ast.Call) and dotted(x.func) != "isinstance" and any(isinstance(y, ast.Name) and y.id == var for y in ast.walk(x)))
                or (isinstance(x, ast.Name) and x.id == var and isinstance(x.ctx, (ast.Store, ast.Del)))
                or (isinstance(x, (ast.Attribute, ast.Subscript)) and isinstance(x.ctx, (ast.Store, ast.Del)) and _root(x) == var)
                for x in ast.walk(prev)
            )
            if harmless:
                continue
            if (
                isinstance(prev, ast.Assign)
                and len(prev.targets) == 1
                and _names_slot(prev.targets[0], var)
                and isinstance(prev.value, ast.List)
                and not any(isinstance(x, ast.Name) and x.id == var for x in ast.walk(prev.value))
            ):
                kind = "isolated"
            break
    if kind == "plain":
        for n in fi.local_nodes():
            if _names_slot(n, var) and isinstance(n.ctx, (ast.Store, ast.Del)) and n.lineno < call.lineno:
                unknown.append((fi, n, var))
    return kind


@rule("C01.R7")
def r7_single_registration(corpus: Corpus, rep: Report, tier: str):
    rep.rule(
        "C01.R7",
        "a node is offered to docutils' name registry (note_explicit_target / note_implicit_target) once per path, or again only with "
        "node['names'] re-bound to the new names: a second plain registration ends in ValueError (dupname -> list.remove)",
    )
    events, summ, unknown = _registration_events(corpus)
    for fi, n, var in unknown:
        rep.error("C01.R7", f"{fi.module.site(n)}: `{var}['names']` is re-bound before a registration in a way that is not the modelled isolation (`{var}['names'] = [new]` directly before the call)")
    n_sites = 0
    for fi in corpus.all_functions():
        evs = events.get(fi.fq) or []
        if not evs:
            continue
        by_name: dict[str, list] = {}
        for call, nm, kind in evs:
            by_name.setdefault(nm, []).append((call, kind))
        for nm, lst in sorted(by_name.items()):
            n_sites += len(lst)
            k0 = f"{fi.fq}|{nm}"
            if len(lst) < 2:
                rep.ok("C01.R7", k0 + f"|{(dotted(lst[0][0].func) or unparse(lst[0][0].func)).split('.')[-1]}", fi.module.site(lst[0][0]), "only registration of this node in the function")
                continue
            bad = _second_plain_registration(fi, nm, lst)
            if bad is None:
                rep.ok("C01.R7", k0, fi.module.site(lst[0][0]), f"{len(lst)} registrations, never two on one path without isolation")
            else:
                first, second = bad
                rep.violation(
                    "C01.R7",
                    f"{k0}|registered again by {(dotted(second.func) or unparse(second.func)).split('.')[-1]}",
                    fi.module.site(second),
                    f"`{nm}` is registered by `{short(first, 50)}` and, on the same path, again by `{short(second, 50)}`, which offers every name `{nm}` already carries a second time: "
                    "docutils moves the first name to dupnames (an explicit `{#id}` on a heading becomes a 'duplicate implicit target'), and a later duplicate of it raises "
                    "ValueError (list.remove) in docutils' dupname() out of Parser.parse",
                    [fi.module.site(first), fi.module.site(second)],
                )
    rep.expect_min("C01.R7", 5, "nodes registered as targets")


def _second_plain_registration(fi: FunctionInfo, nm: str, lst: list):
    """(first call, second call) when some path runs a plain registration of ``nm`` after an earlier registration
    of the same object (a re-binding of the name starts afresh)."""
    cfg = get_cfg(fi)
    by_stmt: dict[int, list] = {}
    for call, kind in lst:
        by_stmt.setdefault(id(cfg.stmt_of(call)), []).append((call, kind))
    for v in by_stmt.values():
        v.sort(key=lambda ck: (ck[0].lineno, ck[0].col_offset))
    state: dict[object, dict] = {}  # node -> {first registration call or None} reaching the node's entry

    def key(nd):
        return nd if isinstance(nd, (tuple, str)) else id(nd)

    work = [("ENTRY", frozenset([None]))]
    inn: dict[object, set] = {}
    found = None
    nodes_by_key = {}
    while work and found is None:
        nd, incoming = work.pop()
        k = key(nd)
        nodes_by_key[k] = nd
        cur = inn.setdefault(k, set())
        new = set(incoming) - cur
        if not new and k in state:
            continue
        cur |= new
        state[k] = True
        out = set(cur)
        if isinstance(nd, ast.stmt):
            for call, kind in by_stmt.get(id(nd), []):
                firsts = [f for f in out if f is not None]
                if firsts and kind == "plain":
                    found = (min(firsts, key=lambda c: (c.lineno, c.col_offset)), call)
                    break
                out = {f if f is not None else call for f in out}
            stores = any(isinstance(x, ast.Name) and x.id == nm and isinstance(x.ctx, (ast.Store, ast.Del)) for e in _own_exprs(nd) for x in ast.walk(e))
            if stores:
                out = {None}
        for s_ in cfg.succ.get(nd, []):
            work.append((s_, frozenset(out)))
    return found


# ---------------------------------------------------------------------------
# shared: facts that hold where an expression is evaluated (statement dominance + short-circuit operators)


def _facts_at(fi: FunctionInfo, node: ast.AST) -> list[tuple[ast.expr, bool]]:
    from ..flow import facts as _atomic

    out: list[tuple[ast.expr, bool]] = []
    cur: ast.AST = node
    for a in ancestors(node):
        if isinstance(a, (ast.stmt, ast.Lambda)):
            break
        if isinstance(a, ast.BoolOp) and cur in a.values:
            for v in a.values[: a.values.index(cur)]:
                out += _atomic(v, isinstance(a.op, ast.And))
        if isinstance(a, ast.IfExp) and cur is not a.test:
            out += _atomic(a.test, cur is a.body)
        if isinstance(a, (ast.ListComp, ast.GeneratorExp, ast.SetComp, ast.DictComp)) and cur is not a.generators[0].iter:
            for g_ in a.generators:
                for t in g_.ifs:
                    if t is not cur:
                        out += _atomic(t, True)
        cur = a
    cfg = get_cfg(fi)
    out += cfg.guards(cfg.stmt_of(node))
    return out


# ---------------------------------------------------------------------------
# R8 slots of the render environment that may hold None
#
# ``md_env`` is a plain dict shared by the renderer and the directive mocks.  A slot into which some writer stores
# a value that may be None (the include mock *restores* the previous value, i.e. stores None when the slot was
# unset) is NULLABLE: a key-presence test says nothing about it.  Every reader that dereferences the slot value
# (tuple-unpack, subscript, attribute call, iteration) must be dominated by an ``is not None`` / truthiness test of
# that value.


def _env_slot(e: ast.AST) -> tuple[str, str] | None:
    """(slot key, 'get'|'item') when ``e`` reads ``<..>.md_env[K]`` / ``<..>.md_env.get(K[, d])``."""
    if isinstance(e, ast.Subscript) and (dotted(e.value) or "").split(".")[-1] == "md_env" and isinstance(e.slice, ast.Constant) and isinstance(e.slice.value, str):
        return (e.slice.value, "item")
    if (
        isinstance(e, ast.Call)
        and isinstance(e.func, ast.Attribute)
        and e.func.attr == "get"
        and (dotted(e.func.value) or "").split(".")[-1] == "md_env"
        and e.args
        and isinstance(e.args[0], ast.Constant)
        and isinstance(e.args[0].value, str)
    ):
        return (e.args[0].value, "get")
    return None


def _local_value(fi: FunctionInfo, e: ast.expr) -> ast.expr:
    return _single_def(fi, e) if isinstance(e, ast.Name) else e


@rule("C01.R8")
def r8_nullable_env_slots(corpus: Corpus, rep: Report, tier: str):
    rep.rule("C01.R8", "a render-environment slot into which some writer may store None is dereferenced only under an `is not None` / truthiness test of its value")
    funcs = [f for f in corpus.all_functions() if not f.is_lambda]
    nullable: dict[str, str] = {}
    n_writers = 0
    for fi in funcs:
        for n in fi.local_nodes():
            if not (isinstance(n, ast.Assign) and len(n.targets) == 1):
                continue
            t = n.targets[0]
            if not (isinstance(t, ast.Subscript) and (dotted(t.value) or "").split(".")[-1] == "md_env" and isinstance(t.slice, ast.Constant) and isinstance(t.slice.value, str)):
                continue
            n_writers += 1
            v = _local_value(fi, n.value)
            why = None
            if isinstance(v, ast.Constant) and v.value is None:
                why = "None is stored"
            else:
                sl = _env_slot(v)
                if sl is not None and sl[1] == "get" and (len(v.args) == 1 or (isinstance(v.args[1], ast.Constant) and v.args[1].value is None)):
                    why = f"the previous value `{short(v, 40)}` (None when the slot was unset) is stored back"
                elif isinstance(n.value, ast.Name) and fi.params and n.value.id in fi.params:
                    why = None  # a parameter: not tracked
            if why:
                nullable.setdefault(t.slice.value, f"{fi.module.site(n)}: {why}")
    n_readers = 0
    seen_keys: dict[str, int] = {}
    for fi in funcs:
        for n in sorted((x for x in fi.local_nodes() if hasattr(x, "lineno")), key=lambda x: (x.lineno, x.col_offset)):
            sl = _env_slot(n)
            if sl is None or (isinstance(n, ast.Subscript) and not isinstance(n.ctx, ast.Load)):
                continue
            key = sl[0]
            # the places where the slot value is dereferenced: directly, or through the local it is bound to
            derefs: list[ast.AST] = []
            holders: list[str] = []
            p_ = parent(n)
            if isinstance(p_, ast.Assign) and p_.value is n and len(p_.targets) == 1:
                tg = p_.targets[0]
                if isinstance(tg, ast.Name):
                    if _single_def(fi, ast.Name(id=tg.id, ctx=ast.Load())) is n:
                        holders.append(tg.id)
                elif isinstance(tg, (ast.Tuple, ast.List)):
                    derefs.append(n)
            elif isinstance(p_, (ast.Subscript, ast.Attribute)) and p_.value is n:
                derefs.append(n)
            elif isinstance(p_, (ast.For, ast.comprehension)) and p_.iter is n:
                derefs.append(n)
            elif isinstance(p_, ast.Starred):
                derefs.append(n)
            for h in holders:
                for u in fi.local_nodes():
                    if isinstance(u, ast.Name) and u.id == h and isinstance(u.ctx, ast.Load):
                        q = parent(u)
                        if (isinstance(q, (ast.Subscript, ast.Attribute)) and q.value is u) or (isinstance(q, (ast.For, ast.comprehension)) and q.iter is u) or isinstance(q, ast.Starred):
                            derefs.append(u)
                        elif isinstance(q, ast.Assign) and q.value is u and isinstance(q.targets[0], (ast.Tuple, ast.List)):
                            derefs.append(u)
            if not derefs:
                continue
            for d in derefs:
                n_readers += 1
                q_ = parent(d)
                kind = (
                    "unpack" if isinstance(q_, ast.Assign) else "subscript" if isinstance(q_, ast.Subscript) else "attribute" if isinstance(q_, ast.Attribute)
                    else "iteration"
                )
                k = f"{fi.fq}|md_env[{key!r}]|{kind}"
                seen_keys[k] = seen_keys.get(k, 0) + 1
                if seen_keys[k] > 1:
                    k += f"#{seen_keys[k]}"
                site = fi.module.site(d)
                if key not in nullable:
                    rep.ok("C01.R8", k, site, "no writer stores a possibly-None value into this slot")
                    continue

                def same_value(e: ast.AST) -> bool:
                    if isinstance(e, ast.Name):
                        return e.id in holders or (isinstance(d, ast.Name) and e.id == d.id)
                    s2 = _env_slot(e)
                    return s2 is not None and s2[0] == key

                ok = False
                for t, pol in _facts_at(fi, d):
                    if same_value(t) and pol:
                        ok = True
                    if isinstance(t, ast.Compare) and len(t.ops) == 1 and same_value(t.left) and isinstance(t.comparators[0], ast.Constant) and t.comparators[0].value is None:
                        if (isinstance(t.ops[0], ast.IsNot) and pol) or (isinstance(t.ops[0], ast.Is) and not pol):
                            ok = True
                    if isinstance(t, ast.Call) and dotted(t.func) == "isinstance" and t.args and same_value(t.args[0]) and pol:
                        ok = True
                if ok or _inside_broad_try(d, False) or (_inside_try_catching(d, "TypeError") and not isinstance(q_, ast.Attribute)):
                    rep.ok("C01.R8", k, site, "under an `is not None` / truthiness / isinstance test of the slot value (or a try that catches the TypeError)")
                else:
                    rep.violation(
                        "C01.R8",
                        k,
                        site,
                        f"`{short(parent(d), 60)}` dereferences md_env[{key!r}] without a None test of the value, but the slot may hold None ({nullable[key]}): "
                        "a key-presence test does not exclude it -> TypeError out of the parse",
                    )
    if n_writers < 4:
        rep.error("C01.R8", f"expected the md_env writers of the renderer and the include mock, found {n_writers}")
    rep.expect_min("C01.R8", 1, "dereferencing readers of md_env slots")


# ---------------------------------------------------------------------------
# R9 attributes MyST adds to the docutils document are read defensively where the writer may not have run
#
# docutils applies the parser's transforms even when ``Parser.parse`` returned early.  An attribute that only the
# renderer sets (``document.myst_slugs`` in ``_render_finalise``) therefore need not exist when a transform runs.


def _docutils_document_attrs(corpus: Corpus) -> set[str]:
    def compute():
        m = corpus.sibling("docutils/nodes.py")
        out: set[str] = set()
        for cname in ("document", "Element", "Node", "Structural", "Root"):
            ci = m.classes.get(cname)
            if ci is None:
                continue
            for n in ast.walk(ci.node):
                if isinstance(n, ast.Attribute) and isinstance(n.value, ast.Name) and n.value.id == "self":
                    out.add(n.attr)
                if isinstance(n, (ast.FunctionDef,)):
                    out.add(n.name)
            for st in ci.node.body:
                if isinstance(st, ast.Assign):
                    for t in st.targets:
                        if isinstance(t, ast.Name):
                            out.add(t.id)
                if isinstance(st, ast.AnnAssign) and isinstance(st.target, ast.Name):
                    out.add(st.target.id)
        if len(out) < 30:
            raise AnchorMissing("docutils.nodes.document attributes could not be read")
        return out

    return corpus.cache("c01-docutils-document-attrs", compute)


def _is_document(e: ast.AST) -> bool:
    return (dotted(e) or "").split(".")[-1] == "document"


@rule("C01.R9")
def r9_document_attributes(corpus: Corpus, rep: Report, tier: str):
    rep.rule(
        "C01.R9",
        "an attribute that MyST itself adds to the docutils document is read plainly only after a store / hasattr test in the same function, "
        "or (in code run by transforms) when every parse path is guaranteed to have stored it",
    )
    known = _docutils_document_attrs(corpus)
    g = get_callgraph(corpus)
    funcs = [f for f in corpus.all_functions() if not f.is_lambda]
    writers: dict[str, list[tuple[FunctionInfo, ast.AST]]] = {}
    for fi in funcs:
        for n in fi.local_nodes():
            if isinstance(n, ast.Attribute) and isinstance(n.ctx, ast.Store) and _is_document(n.value) and n.attr not in known:
                writers.setdefault(n.attr, []).append((fi, n))
    if len(writers) < 2:
        rep.error("C01.R9", f"expected MyST-specific document attributes (myst_slugs, myst_include_stack, ...), found {sorted(writers)}")
    transform_entries = [corpus.func(fq) for _, fq, _ in FRONT_ENTRIES if not fq.endswith(".parse")]
    after_parse = set(g.reachable(transform_entries))
    n = 0
    seen_keys: dict[str, int] = {}
    for fi in funcs:
        for r in sorted((x for x in fi.local_nodes() if hasattr(x, "lineno")), key=lambda x: (x.lineno, x.col_offset)):
            if not (isinstance(r, ast.Attribute) and isinstance(r.ctx, ast.Load) and _is_document(r.value) and r.attr in writers):
                continue
            n += 1
            attr = r.attr
            k = f"{fi.fq}|document.{attr}"
            seen_keys[k] = seen_keys.get(k, 0) + 1
            if seen_keys[k] > 1:
                k += f"#{seen_keys[k]}"
            site = fi.module.site(r)
            local_ok = _established_before(fi, r, attr)
            if not local_ok:
                # the function may be a helper (e.g. a context manager) whose every caller establishes the attribute first
                sites = [(cf, cc) for cf, cc in g.callers().get(fi.fq, []) if not cf.is_lambda]
                if sites and all(_established_before(cf, cc, attr) for cf, cc in sites):
                    local_ok = True
            if local_ok or _inside_try_catching(r, "AttributeError"):
                rep.ok("C01.R9", k, site, "every path to the read stores the attribute or tests hasattr first")
                continue
            if fi.fq not in after_parse:
                rep.error("C01.R9", f"{site}: `{short(r, 40)}` relies on a store in another function during the same render; that order is not modelled")
                continue
            gap = _parse_gap(corpus, attr, writers[attr])
            if gap is None:
                rep.ok("C01.R9", k, site, "every path of both parse methods runs the renderer, whose render() always reaches the store")
            else:
                rep.violation(
                    "C01.R9",
                    k,
                    site,
                    f"`{short(r, 40)}` is read by code that docutils runs after the parse (transform / post-transform), but the attribute is only stored by "
                    f"{', '.join(sorted({w.qualname for w, _ in writers[attr]}))} and {gap}: AttributeError out of the transform; read it with getattr(..., default)",
                )
    rep.expect_min("C01.R9", 4, "plain reads of MyST-specific document attributes")


def _established_before(fi: FunctionInfo, node: ast.AST, attr: str, _is_document=None) -> bool:
    """Every path from the function entry to ``node`` stores ``document.<attr>`` or passes a positive
    ``hasattr(document, "<attr>")`` test (also one earlier in the same boolean expression)."""
    from ..flow import facts as _atomic

    if _is_document is None:
        _is_document = globals()["_is_document"]

    cfg = get_cfg(fi)
    R = cfg.stmt_of(node)

    def is_hasattr(t: ast.expr) -> bool:
        return isinstance(t, ast.Call) and dotted(t.func) == "hasattr" and len(t.args) == 2 and _is_document(t.args[0]) and isinstance(t.args[1], ast.Constant) and t.args[1].value == attr

    def establishes(nd) -> bool:
        if isinstance(nd, ast.stmt):
            for e in _own_exprs(nd):
                for x in ast.walk(e):
                    if isinstance(x, ast.Attribute) and x.attr == attr and isinstance(x.ctx, ast.Store) and _is_document(x.value):
                        return nd is not R
            return False
        if isinstance(nd, tuple) and nd[0] in ("T", "F") and isinstance(nd[1], (ast.If, ast.While)):
            return any(pol and is_hasattr(t) for t, pol in _atomic(nd[1].test, nd[0] == "T"))
        return False

    if not cfg.paths_avoiding("ENTRY", R, establishes):
        return True
    return any(pol and is_hasattr(t) for t, pol in _facts_at(fi, node))


def enclosing_stmt_(node: ast.AST) -> ast.AST:
    while not isinstance(node, ast.stmt) and parent(node) is not None:
        node = parent(node)
    return node


def _inside_try_catching(node: ast.AST, exc: str) -> bool:
    cur = node
    for a in ancestors(node):
        if isinstance(a, (ast.FunctionDef, ast.Lambda)):
            break
        if isinstance(a, ast.Try) and any(cur is s for s in a.body):
            for h in a.handlers:
                elts = [None] if h.type is None else (h.type.elts if isinstance(h.type, ast.Tuple) else [h.type])
                names = {"BaseException" if t is None else (dotted(t) or "").split(".")[-1] for t in elts}
                if names & {exc, "Exception", "BaseException"}:
                    return True
        cur = a
    return False


def _parse_gap(corpus: Corpus, attr: str, ws: list[tuple[FunctionInfo, ast.AST]]) -> str | None:
    """None when the store is guaranteed after every normal return of both parse methods; else the reason."""
    # (1) a writer function that stores on all of its paths and that DocutilsRenderer.render always calls
    by_render = False
    render = corpus.func("mdit_to_docutils.base:DocutilsRenderer.render")
    for wf, wn in ws:
        wcfg = get_cfg(wf)
        W = wcfg.stmt_of(wn)
        if wcfg.paths_avoiding("ENTRY", "EXIT", lambda nd: nd is W):
            continue
        rcfg = get_cfg(render)
        calls = [c for c in render.local_nodes() if isinstance(c, ast.Call) and isinstance(c.func, ast.Attribute) and c.func.attr == wf.name and dotted(c.func.value) == "self"]
        stmts = [rcfg.stmt_of(c) for c in calls]
        if wf.fq == render.fq or (stmts and not rcfg.paths_avoiding("ENTRY", "EXIT", lambda nd: any(nd is s_ for s_ in stmts))):
            by_render = True
    # (2) every normal path of the parse methods runs `<parser>.render(...)` or stores the attribute itself
    for _, fq, _ in FRONT_ENTRIES:
        if not fq.endswith(".parse"):
            continue
        pf = corpus.func(fq)
        pcfg = get_cfg(pf)
        good = []
        if by_render:
            good += [pcfg.stmt_of(c) for c in pf.local_nodes() if isinstance(c, ast.Call) and isinstance(c.func, ast.Attribute) and c.func.attr == "render"]
        good += [pcfg.stmt_of(x) for x in pf.local_nodes() if isinstance(x, ast.Attribute) and x.attr == attr and isinstance(x.ctx, ast.Store) and _is_document(x.value)]
        if not good:
            return f"nothing on the paths of {pf.qualname} is known to store it"
        if pcfg.paths_avoiding("ENTRY", "EXIT", lambda nd: any(nd is s_ for s_ in good)):
            first = min(s_.lineno for s_ in good)
            early = [x for x in pf.local_nodes() if isinstance(x, ast.Return) and x.lineno < first]
            where = f" (e.g. the `return` at {pf.module.site(early[0])})" if early else ""
            return f"{pf.qualname} can return without running the renderer{where}, while docutils still applies the transforms"
    return None


# ---------------------------------------------------------------------------
# R10 configuration values that a markdown-it plugin divides by
# R11 syntax names handed to md.disable() must not include the block parser's catch-all rule


def _plugin_function(corpus: Corpus, fi: FunctionInfo, e: ast.expr):
    full = fi.module.resolve(dotted(e) or "")
    for _ in range(4):  # follow re-exports (`from .index import plugin` in the package __init__)
        modname, _, fname = full.rpartition(".")
        m = corpus.sibling_module(modname) if modname else None
        if m is None:
            return None
        if fname in m.functions:
            return m.functions[fname]
        if fname in m.imports and m.imports[fname] != full:
            full = m.imports[fname]
            continue
        return None
    return None


def _excludes_zero(test: ast.expr) -> bool:
    """The test is true for 0 (so a raise under it rejects 0)."""
    parts = test.values if isinstance(test, ast.BoolOp) and isinstance(test.op, ast.Or) else [test]
    for t in parts:
        if isinstance(t, ast.UnaryOp) and isinstance(t.op, ast.Not) and isinstance(t.operand, ast.Name) and t.operand.id == "value":
            return True
        if isinstance(t, ast.Compare) and len(t.ops) == 1 and isinstance(t.left, ast.Name) and t.left.id == "value" and isinstance(t.comparators[0], ast.Constant) and isinstance(t.comparators[0].value, (int, float)):
            c, op = t.comparators[0].value, t.ops[0]
            if (isinstance(op, ast.LtE) and c >= 0) or (isinstance(op, ast.Lt) and c > 0) or (isinstance(op, ast.Eq) and c == 0):
                return True
    return False


def _validator_rejects(corpus: Corpus, v: ast.expr | None, accepts_pred, const_ok) -> bool:
    """Some validator in the expression rejects the bad value: ``in_([...])`` whose options all satisfy ``const_ok``,
    or a validator function of the package with ``if <test that holds for the bad value>: raise``."""
    if v is None:
        return False
    if isinstance(v, ast.List):
        return any(_validator_rejects(corpus, x, accepts_pred, const_ok) for x in v.elts)
    if isinstance(v, ast.Call):
        name = (dotted(v.func) or "").split(".")[-1]
        if name == "in_" and v.args and isinstance(v.args[0], (ast.List, ast.Tuple, ast.Set)):
            return all(isinstance(x, ast.Constant) and const_ok(x.value) for x in v.args[0].elts)
        if name in ("deep_iterable", "optional") and v.args:
            return False if name == "optional" else _validator_rejects(corpus, v.args[0], accepts_pred, const_ok)
        return False
    if isinstance(v, ast.Name):
        for modname in ("config.main", "config.dc_validators"):
            f = corpus.mod(modname).functions.get(v.id)
            if f is not None:
                for st in f.local_nodes():
                    if isinstance(st, ast.If) and st.body and any(isinstance(x, ast.Raise) for x in st.body) and accepts_pred(st.test):
                        return True
    return False


@rule("C01.R10")
def r10_config_divisors(corpus: Corpus, rep: Report, tier: str):
    rep.rule("C01.R10", "a configuration field handed to a markdown-it plugin keyword that the plugin divides by has a validator that excludes 0")
    mm = corpus.mod("parsers.mdit")
    fields = _config_fields(corpus)
    n = 0
    done = set()
    for fi in mm.functions.values():
        if fi.is_lambda:
            continue
        for c in fi.local_nodes():
            if not (isinstance(c, ast.Call) and isinstance(c.func, ast.Attribute) and c.func.attr == "use" and c.args):
                continue
            for kw in c.keywords:
                v = kw.value
                if not (kw.arg and isinstance(v, ast.Attribute) and isinstance(v.value, ast.Name) and v.attr in fields):
                    continue
                n += 1
                pf = _plugin_function(corpus, fi, c.args[0])
                if pf is None:
                    rep.error("C01.R10", f"{fi.module.site(c)}: plugin `{short(c.args[0], 30)}` could not be read from its source")
                    continue
                rep.saw_sibling(pf.module.rel)
                divs = [
                    b
                    for b in ast.walk(pf.node)
                    if isinstance(b, ast.BinOp) and isinstance(b.op, (ast.Div, ast.FloorDiv, ast.Mod)) and isinstance(b.right, ast.Name) and b.right.id == kw.arg
                ]
                rebound = any(isinstance(x, ast.Name) and x.id == kw.arg and isinstance(x.ctx, ast.Store) for x in ast.walk(pf.node))
                k = f"myst_parser.config.main:MdParserConfig.{v.attr}|{kw.arg}= of {pf.name}"
                if k in done:
                    continue
                done.add(k)
                site = fi.module.site(c)
                if not divs:
                    rep.ok("C01.R10", k, site, "the plugin does not divide by this keyword")
                elif rebound:
                    rep.error("C01.R10", f"{site}: {pf.name} re-binds `{kw.arg}` before dividing by it")
                elif _validator_rejects(corpus, fields[v.attr].get("validator"), _excludes_zero, lambda x: isinstance(x, (int, float)) and x != 0):
                    rep.ok("C01.R10", k, site, "divisor; the field's validator rejects 0")
                else:
                    rep.violation(
                        "C01.R10",
                        k,
                        site,
                        f"`{pf.name}` computes `{short(divs[0], 50)}` ({pf.module.rel}:{divs[0].lineno}); the field `{v.attr}` is validated by "
                        f"`{short(fields[v.attr].get('validator') or ast.Constant(None), 50)}`, which admits 0 (conf.py or front matter `myst: {{{v.attr}: 0}}`): ZeroDivisionError out of the parse",
                    )
    rep.expect_min("C01.R10", 1, "config fields passed to plugin keywords")


@rule("C01.R11")
def r11_disable_syntax(corpus: Corpus, rep: Report, tier: str):
    rep.rule(
        "C01.R11",
        "rule names from the configuration reach md.disable() only if they cannot be the block parser's catch-all rule (without it markdown-it's block loop never advances)",
    )
    # markdown-it facts, re-read from the sibling sources: the block loop advances only through a rule that
    # returns True; the last rule of the chain is the catch-all (its function never returns False)
    pb = corpus.sibling("markdown_it/parser_block.py")
    rep.saw_sibling(pb.rel)
    rules_node = pb.const_nodes.get("_rules")
    if not isinstance(rules_node, ast.List) or not rules_node.elts:
        raise Unsupported("markdown_it.parser_block._rules is not a list display")
    last = rules_node.elts[-1]
    if not (isinstance(last, ast.Tuple) and isinstance(last.elts[0], ast.Constant) and isinstance(last.elts[1], ast.Attribute)):
        raise Unsupported("last entry of markdown_it.parser_block._rules not understood")
    catch_all = last.elts[0].value
    fn_name = last.elts[1].attr
    rm = corpus.sibling(f"markdown_it/rules_block/{fn_name}.py")
    rf = rm.functions.get(fn_name)
    if rf is None:
        raise Unsupported(f"markdown-it block rule {fn_name} not found")
    rets = [r for r in rf.local_nodes() if isinstance(r, ast.Return)]
    if not rets or not all(isinstance(r.value, ast.Constant) and r.value.value is True for r in rets):
        raise Unsupported(f"markdown-it's last block rule `{catch_all}` can return False: the catch-all assumption does not hold for this version")
    tok = pb.functions.get("ParserBlock.tokenize")
    loop = next((w for w in (tok.local_nodes() if tok else []) if isinstance(w, ast.While)), None)
    if loop is None or not any(isinstance(x, ast.For) and any(isinstance(b, ast.Break) for b in ast.walk(x)) for x in ast.walk(loop)):
        raise Unsupported("markdown_it ParserBlock.tokenize: rule loop not found")
    mm = corpus.mod("parsers.mdit")
    fields = _config_fields(corpus)
    n = 0
    for fi in mm.functions.values():
        if fi.is_lambda:
            continue
        for c in fi.local_nodes():
            if not (isinstance(c, ast.Call) and isinstance(c.func, ast.Attribute) and c.func.attr == "disable" and c.args):
                continue
            a0 = c.args[0]
            # where do the names come from?  `for name in config.FIELD` / `config.FIELD` itself
            src_field = None
            if isinstance(a0, ast.Name):
                for lp in fi.local_nodes():
                    if isinstance(lp, ast.For) and isinstance(lp.target, ast.Name) and lp.target.id == a0.id and isinstance(lp.iter, ast.Attribute) and lp.iter.attr in fields:
                        src_field = lp.iter.attr
            elif isinstance(a0, ast.Attribute) and a0.attr in fields:
                src_field = a0.attr
            elif isinstance(a0, ast.Call) and dotted(a0.func) in ("list", "tuple", "sorted", "set", "frozenset") and len(a0.args) == 1 and isinstance(a0.args[0], ast.Attribute) and a0.args[0].attr in fields:
                src_field = a0.args[0].attr  # the whole collection in one call
            comp_filter = None
            if isinstance(a0, (ast.ListComp, ast.GeneratorExp, ast.SetComp)) and len(a0.generators) == 1 and isinstance(a0.generators[0].iter, ast.Attribute) and a0.generators[0].iter.attr in fields and isinstance(a0.generators[0].target, ast.Name) and isinstance(a0.elt, ast.Name) and a0.elt.id == a0.generators[0].target.id:
                src_field = a0.generators[0].iter.attr
                comp_filter = a0.generators[0]
            if isinstance(a0, (ast.Constant, ast.List, ast.Tuple)) and all(isinstance(x, ast.Constant) for x in ([a0] if isinstance(a0, ast.Constant) else a0.elts)):
                vals = [a0.value] if isinstance(a0, ast.Constant) else [x.value for x in a0.elts]
                n += 1
                k = f"{fi.fq}|disable({short(a0, 40)})"
                if catch_all in vals:
                    rep.violation("C01.R11", k, fi.module.site(c), f"disables markdown-it's catch-all block rule `{catch_all}`: the block parser loops forever on any non-empty document")
                else:
                    rep.ok("C01.R11", k, fi.module.site(c), "constant rule names, none is the catch-all")
                continue
            if src_field is None:
                rep.error("C01.R11", f"{fi.module.site(c)}: origin of the names passed to `{short(c, 40)}` not understood")
                continue
            n += 1
            k = f"{fi.fq}|disable(<{src_field}>)"
            site = fi.module.site(c)
            # names that are not rules of the parser being built: markdown-it raises ValueError unless ignoreInvalid is true
            if _mdit_disable_raises(corpus):
                ig = c.args[1] if len(c.args) > 1 else next((k_.value for k_ in c.keywords if k_.arg == "ignoreInvalid"), None)
                if not (isinstance(ig, ast.Constant) and ig.value is True) and not _inside_try_catching(c, "ValueError"):
                    rep.violation(
                        "C01.R11",
                        k + "|unknown names",
                        site,
                        f"`{short(c, 60)}` hands the configured names to MarkdownIt.disable() without ignoreInvalid=True: a `{src_field}` entry that is not a rule of the parser "
                        "being built (a typo, or a rule of a plugin that is not enabled) raises ValueError from create_md_parser, outside any handler",
                    )
                else:
                    rep.ok("C01.R11", k + "|unknown names", site, "ignoreInvalid=True (or under try/except ValueError)")

            def names_catch_all(test: ast.expr) -> bool:
                """the test holds when the value is the catch-all name"""
                parts = test.values if isinstance(test, ast.BoolOp) and isinstance(test.op, ast.Or) else [test]
                for t in parts:
                    if isinstance(t, ast.Compare) and len(t.ops) == 1 and isinstance(t.left, ast.Name):
                        r = t.comparators[0]
                        r = fi.module.const_nodes.get(r.id, r) if isinstance(r, ast.Name) else r
                        if isinstance(t.ops[0], ast.Eq) and isinstance(r, ast.Constant) and r.value == catch_all:
                            return True
                        if isinstance(t.ops[0], ast.In) and isinstance(r, (ast.Tuple, ast.List, ast.Set)) and any(isinstance(x, ast.Constant) and x.value == catch_all for x in r.elts):
                            return True
                return False

            guarded = False
            unknown = None
            if comp_filter is not None:
                from ..flow import facts as _atomic

                for t_ in comp_filter.ifs:
                    for t, pol in _atomic(t_, True):
                        if not pol and names_catch_all(t):
                            guarded = True
                        elif pol and isinstance(t, ast.Compare) and len(t.ops) == 1 and isinstance(t.ops[0], (ast.NotEq, ast.NotIn)):
                            flipped = ast.Compare(left=t.left, ops=[ast.Eq() if isinstance(t.ops[0], ast.NotEq) else ast.In()], comparators=t.comparators)
                            if names_catch_all(flipped):
                                guarded = True
            for t, pol in _facts_at(fi, c):
                if isinstance(a0, ast.Name) and any(isinstance(x, ast.Name) and x.id == a0.id for x in ast.walk(t)):
                    if not pol and names_catch_all(t):
                        guarded = True
                    elif pol and isinstance(t, ast.Compare) and len(t.ops) == 1 and isinstance(t.ops[0], (ast.NotEq, ast.NotIn)):
                        flipped = ast.Compare(left=t.left, ops=[ast.Eq() if isinstance(t.ops[0], ast.NotEq) else ast.In()], comparators=t.comparators)
                        if names_catch_all(flipped):
                            guarded = True
                        else:
                            unknown = unparse(t)
                    else:
                        unknown = unparse(t)
            val = fields[src_field].get("validator")
            if guarded:
                rep.ok("C01.R11", k, site, f"the call is skipped for `{catch_all}`")
            elif _validator_rejects(corpus, val, lambda t: _mentions_const(t, catch_all), lambda x: x != catch_all):
                rep.ok("C01.R11", k, site, f"the validator of `{src_field}` rejects `{catch_all}`")
            elif unknown is not None:
                rep.error("C01.R11", f"{site}: `{short(c, 40)}` runs under `{unknown}`, which is not a recognised exclusion of `{catch_all}`")
            else:
                rep.violation(
                    "C01.R11",
                    k,
                    site,
                    f"every name in `{src_field}` (conf.py or front matter `myst: {{{src_field}: [{catch_all}]}}`) is handed to md.disable(); without its catch-all block rule "
                    f"`{catch_all}` markdown-it's ParserBlock.tokenize never advances `line`: the parse does not terminate. The validator `{short(val or ast.Constant(None), 60)}` admits it",
                )
    rep.expect_min("C01.R11", 1, "md.disable() calls fed from the configuration")


def _mdit_disable_raises(corpus: Corpus) -> bool:
    """markdown-it's MarkdownIt.disable raises ValueError for unknown names unless its second parameter is true (read from the source)."""

    def compute():
        m = corpus.sibling("markdown_it/main.py")
        f = m.functions.get("MarkdownIt.disable")
        if f is None:
            return True
        return len(f.params) >= 3 and any(isinstance(x, ast.Raise) for x in f.local_nodes())

    return corpus.cache("c01-mdit-disable-raises", compute)


def _mentions_const(test: ast.expr, const) -> bool:
    for x in ast.walk(test):
        if isinstance(x, ast.Constant) and x.value == const:
            return True
    return False


# ---------------------------------------------------------------------------
# R12 attributes read from a caught exception exist on every class the handler catches
#
# ``except Exception as exc: ... exc.strerror`` raises AttributeError inside the handler for every exception that is not
# an OSError: the handler that was to turn a failure into a warning aborts the parse itself.


def _class_attr_names(node: ast.ClassDef) -> set[str]:
    out: set[str] = set()
    for st in node.body:
        if isinstance(st, (ast.FunctionDef, ast.AsyncFunctionDef)):
            out.add(st.name)
            for x in ast.walk(st):
                if isinstance(x, ast.Attribute) and isinstance(x.value, ast.Name) and x.value.id == "self" and isinstance(x.ctx, ast.Store):
                    out.add(x.attr)
        elif isinstance(st, ast.Assign):
            out |= {t.id for t in st.targets if isinstance(t, ast.Name)}
        elif isinstance(st, ast.AnnAssign) and isinstance(st.target, ast.Name):
            out.add(st.target.id)
    return out


def _exception_attrs(corpus: Corpus, hier, name: str) -> set[str] | None:
    """Attribute names instances of the exception class certainly have (None: class not readable)."""
    import builtins as _b

    out: set[str] = set()
    for c in hier.ancestors(name):
        if c.startswith("builtins."):
            cls = getattr(_b, c.split(".", 1)[1], None)
            if not isinstance(cls, type):
                return None
            out |= set(dir(cls))
            continue
        ci = corpus.find_class(c)
        node = ci.node if ci is not None else None
        if node is None:
            modname, _, cname = c.rpartition(".")
            m = corpus.sibling_module(modname) if modname else None
            if m is None or cname not in m.classes:
                return None
            node = m.classes[cname].node
        out |= _class_attr_names(node)
    return out


@rule("C01.R12")
def r12_handler_attributes(corpus: Corpus, rep: Report, tier: str):
    rep.rule("C01.R12", "an attribute read from a caught exception (`except T as e: e.attr`) exists on every class the handler catches")
    from ..escape import ExcHierarchy

    hier = corpus.cache("exc-hierarchy", lambda: ExcHierarchy(corpus))
    n = 0
    seen: dict[str, int] = {}
    for fi in corpus.all_functions():
        if fi.is_lambda or fi.module.name.endswith("._docs"):
            continue
        for h in fi.local_nodes():
            if not (isinstance(h, ast.ExceptHandler) and h.name):
                continue
            var = h.name
            if any(isinstance(x, ast.Name) and x.id == var and isinstance(x.ctx, ast.Store) for b in h.body for x in ast.walk(b)):
                continue  # re-bound inside the handler: not tracked
            elts = [None] if h.type is None else (h.type.elts if isinstance(h.type, ast.Tuple) else [h.type])
            classes = []
            for t in elts:
                d = dotted(t) if t is not None else "BaseException"
                classes.append(hier.canonical(fi.module.resolve(d)) if d else None)
            uses = sorted(
                (x for b in h.body for x in ast.walk(b) if isinstance(x, ast.Attribute) and isinstance(x.value, ast.Name) and x.value.id == var and isinstance(x.ctx, ast.Load)),
                key=lambda x: (x.lineno, x.col_offset),
            )
            for u in uses:
                n += 1
                k = f"{fi.fq}|except {short(h.type, 40) if h.type is not None else ''} as {var}|.{u.attr}"
                seen[k] = seen.get(k, 0) + 1
                if seen[k] > 1:
                    k += f"#{seen[k]}"
                site = fi.module.site(u)
                missing = []
                unknown = []
                for c in classes:
                    attrs = _exception_attrs(corpus, hier, c) if c else None
                    if attrs is None:
                        unknown.append(c)
                    elif u.attr not in attrs:
                        missing.append(c)
                if not missing:
                    if unknown:
                        rep.listed("C01.R12", k, site, f"class not readable: {unknown}")
                    else:
                        rep.ok("C01.R12", k, site)
                    continue
                guarded = False
                for t, pol in _facts_at(fi, u):
                    if not pol or not isinstance(t, ast.Call):
                        continue
                    if dotted(t.func) == "hasattr" and len(t.args) == 2 and unparse(t.args[0]) == var and isinstance(t.args[1], ast.Constant) and t.args[1].value == u.attr:
                        guarded = True
                    if dotted(t.func) == "isinstance" and len(t.args) == 2 and unparse(t.args[0]) == var:
                        sub = t.args[1].elts if isinstance(t.args[1], ast.Tuple) else [t.args[1]]
                        subs = [hier.canonical(fi.module.resolve(dotted(x) or "")) for x in sub]
                        if all((_exception_attrs(corpus, hier, x) or set()) >= {u.attr} for x in subs):
                            guarded = True
                if guarded or _inside_try_catching(u, "AttributeError"):
                    rep.ok("C01.R12", k, site, "under an isinstance / hasattr test of the exception")
                else:
                    rep.violation(
                        "C01.R12",
                        k,
                        site,
                        f"`{var}.{u.attr}` is read in a handler that catches {', '.join(c.rsplit('.', 1)[-1] for c in classes if c)}, but "
                        f"{', '.join(c.rsplit('.', 1)[-1] for c in missing)} instances have no attribute `{u.attr}`: the handler itself raises AttributeError",
                    )
    rep.expect_min("C01.R12", 4, "attributes read from caught exceptions")


# ---------------------------------------------------------------------------
# R13 a mapping is subscripted with its own loop key only while that key is still the loop's
#
# ``for key, value in m.items(): key = aliases.get(key, key); ... m[key]``: after the re-binding ``key`` need not be a
# key of ``m`` any more -> KeyError (copy_attributes looked the attribute value up under the aliased name).


@rule("C01.R13")
def r13_rebound_loop_key(corpus: Corpus, rep: Report, tier: str):
    rep.rule("C01.R13", "inside `for k[, v] in m.items()/m` the mapping is subscripted with k only on paths where k has not been re-bound (or under `k in m` / try KeyError)")
    n = 0
    n_loops = 0
    for fi in corpus.all_functions():
        if fi.is_lambda:
            continue
        for lp in fi.local_nodes():
            if not isinstance(lp, ast.For):
                continue
            it, tg = lp.iter, lp.target
            m_text = None
            kvar = None
            if isinstance(it, ast.Call) and isinstance(it.func, ast.Attribute) and not it.args and it.func.attr in ("items", "keys"):
                m_text = unparse(it.func.value)
                if it.func.attr == "items" and isinstance(tg, ast.Tuple) and len(tg.elts) == 2 and isinstance(tg.elts[0], ast.Name):
                    kvar = tg.elts[0].id
                elif it.func.attr == "keys" and isinstance(tg, ast.Name):
                    kvar = tg.id
            if kvar is None or m_text is None:
                continue
            n_loops += 1
            rebinds = [x for b in lp.body for x in ast.walk(b) if isinstance(x, ast.Name) and x.id == kvar and isinstance(x.ctx, ast.Store)]
            if not rebinds:
                rep.listed("C01.R13", f"{fi.fq}|for {kvar} in {short(it, 40)}", fi.module.site(lp), "key variable is never re-bound in the loop")
                continue
            n += 1
            cfg = get_cfg(fi)
            subs = [
                x for b in lp.body for x in ast.walk(b)
                if isinstance(x, ast.Subscript) and isinstance(x.ctx, ast.Load) and unparse(x.value) == m_text and isinstance(x.slice, ast.Name) and x.slice.id == kvar
            ]
            k0 = f"{fi.fq}|for {kvar} in {short(it, 40)}"
            if not subs:
                rep.ok("C01.R13", k0, fi.module.site(lp), f"`{kvar}` is re-bound in the loop, `{m_text}[{kvar}]` is not read afterwards")
                continue
            bad = None
            for sub in subs:
                S = cfg.stmt_of(sub)
                # (a path from the re-binding to the subscript that does not start a new iteration)
                after = any(cfg.stmt_of(r) is not S and cfg.paths_avoiding(cfg.stmt_of(r), S, lambda nd: nd is lp) for r in rebinds)
                if not after:
                    continue
                guarded = _inside_try_catching(sub, "KeyError") or _inside_try_catching(sub, "LookupError")
                for t, pol in _facts_at(fi, sub):
                    if isinstance(t, ast.Compare) and len(t.ops) == 1 and isinstance(t.left, ast.Name) and t.left.id == kvar and unparse(t.comparators[0]) == m_text:
                        if (isinstance(t.ops[0], ast.In) and pol) or (isinstance(t.ops[0], ast.NotIn) and not pol):
                            guarded = True
                if not guarded:
                    bad = sub
                    break
            if bad is None:
                rep.ok("C01.R13", k0, fi.module.site(lp), "subscripts with the loop key happen before the re-binding or under a membership test")
            else:
                rep.violation(
                    "C01.R13",
                    k0,
                    fi.module.site(bad),
                    f"`{short(bad, 40)}` is evaluated after `{kvar}` was re-bound inside the loop over `{m_text}`: the new value need not be a key of the mapping -> KeyError",
                )
    if n_loops < 10:
        rep.error("C01.R13", f"expected the package's loops over mapping items/keys to be scanned, found {n_loops}")


# ---------------------------------------------------------------------------
# R16 myst_* settings are not guaranteed to exist on document.settings
#
# The docutils settings object carries the ``myst_*`` attributes only when the parser's settings_spec was registered
# (publish_* with parser=..., or Sphinx).  Through the rST ``include`` directive's ``:parser:`` option the parser runs
# on a document whose settings were never extended: a plain ``document.settings.myst_x`` is an AttributeError there.
# Accepted: getattr(.., default) (not an attribute node at all), a dominating store / hasattr in the function (or at
# every call site), or - for code that only runs after the parse (transforms) - an attribute that the renderer itself
# stores on the settings on every path of render() (``_render_finalise`` does so for the footnote settings).


def _is_settings(e: ast.AST) -> bool:
    return (dotted(e) or "").split(".")[-1] == "settings"


@rule("C01.R16")
def r16_settings_attributes(corpus: Corpus, rep: Report, tier: str):
    rep.rule(
        "C01.R16",
        "a myst_* attribute of document.settings is read plainly only where the package itself has stored it (in the function, at every call site, "
        "or - for code run after the parse - on every path of render()); otherwise with getattr(.., default)",
    )
    _register_dynamic_dispatch(corpus)
    g = get_callgraph(corpus)
    funcs = [f for f in corpus.all_functions() if not f.is_lambda]
    writers: dict[str, list[tuple[FunctionInfo, ast.AST]]] = {}
    for fi in funcs:
        for n in fi.local_nodes():
            if isinstance(n, ast.Attribute) and isinstance(n.ctx, ast.Store) and _is_settings(n.value) and n.attr.startswith("myst_"):
                writers.setdefault(n.attr, []).append((fi, n))
    parse_entries = [corpus.func(fq) for _, fq, _ in FRONT_ENTRIES if fq.endswith(".parse")]
    other_entries = [corpus.func(fq) for _, fq, _ in FRONT_ENTRIES if not fq.endswith(".parse")]
    during = set(g.reachable(parse_entries))
    after = set(g.reachable(other_entries))
    render = corpus.func("mdit_to_docutils.base:DocutilsRenderer.render")
    n = 0
    n_get = 0
    seen_keys: dict[str, int] = {}
    for fi in funcs:
        for r in sorted((x for x in fi.local_nodes() if hasattr(x, "lineno")), key=lambda x: (x.lineno, x.col_offset)):
            if isinstance(r, ast.Call) and dotted(r.func) == "getattr" and len(r.args) == 3 and _is_settings(r.args[0]) and isinstance(r.args[1], ast.Constant) and str(r.args[1].value).startswith("myst_"):
                n_get += 1
                rep.ok("C01.R16", f"{fi.fq}|getattr(settings, {r.args[1].value!r})", fi.module.site(r), "read with a default")
                continue
            if not (isinstance(r, ast.Attribute) and isinstance(r.ctx, ast.Load) and _is_settings(r.value) and r.attr.startswith("myst_")):
                continue
            n += 1
            attr = r.attr
            k = f"{fi.fq}|settings.{attr}"
            seen_keys[k] = seen_keys.get(k, 0) + 1
            if seen_keys[k] > 1:
                k += f"#{seen_keys[k]}"
            site = fi.module.site(r)
            ok = _established_before(fi, r, attr, _is_settings)
            if not ok:
                sites = [(cf, cc) for cf, cc in g.callers().get(fi.fq, []) if not cf.is_lambda]
                ok = bool(sites) and all(_established_before(cf, cc, attr, _is_settings) for cf, cc in sites)
            if ok or _inside_try_catching(r, "AttributeError"):
                rep.ok("C01.R16", k, site, "a store / hasattr test dominates the read")
                continue
            stored_by_render = False
            for wf, wn in writers.get(attr, []):
                wcfg = get_cfg(wf)
                W = wcfg.stmt_of(wn)
                if wcfg.paths_avoiding("ENTRY", "EXIT", lambda nd: nd is W):
                    continue
                rcfg = get_cfg(render)
                stmts = [rcfg.stmt_of(c) for c in render.local_nodes() if isinstance(c, ast.Call) and isinstance(c.func, ast.Attribute) and c.func.attr == wf.name and dotted(c.func.value) == "self"]
                if wf.fq == render.fq or (stmts and not rcfg.paths_avoiding("ENTRY", "EXIT", lambda nd: any(nd is s_ for s_ in stmts))):
                    stored_by_render = True
            if stored_by_render and fi.fq in after and fi.fq not in during:
                rep.ok("C01.R16", k, site, "only runs after the parse; every render() stores the attribute on the settings before it returns")
            elif stored_by_render:
                rep.violation(
                    "C01.R16",
                    k,
                    site,
                    f"`{short(r, 50)}` can run during the render, before the renderer stores `{attr}` at the end of render(): when the parser's settings were never "
                    "registered (rST include with :parser:) this is an AttributeError; read it with getattr(.., default)",
                )
            else:
                rep.violation(
                    "C01.R16",
                    k,
                    site,
                    f"`{short(r, 50)}` is read without a default and the package never stores `{attr}` on the settings itself: when the parser's settings were never "
                    "registered (`.. include:: x.md` with `:parser: myst_parser.docutils_` from an rST document) this is an AttributeError out of the parse",
                )
    if n + n_get < 1:
        rep.error("C01.R16", "expected at least one read of a myst_* setting (create_warning, the footnote transforms)")


# ---------------------------------------------------------------------------
# R14 heading levels stay >= 1: every value that reaches the renderer's heading offset is non-negative
#
# ``level = int(token.tag[1]) + self._heading_offset``; update_section_level_state() looks for the closest level
# *below* ``level`` (``max(... if level > section_level)`` over a table that starts with level 0), so a level <= 0
# leaves nothing to take the maximum of: ValueError out of the parse.  The offset comes from the include option
# ``heading-offset``: its converter must reject negative numbers.

_NONNEG_CONVERTERS = ("nonnegative_int", "positive_int")


def _nonneg(corpus: Corpus, e: ast.expr | None, fi: FunctionInfo, attr: str, depth: int = 0, none_ok: bool = False) -> tuple[str, str, ast.AST | None]:
    """('ok'|'bad'|'unknown', reason, node)"""
    if e is None or depth > 4:
        return ("unknown", "no value", e)
    if none_ok and isinstance(e, ast.Constant) and e.value is None:
        return ("ok", "None is not stored (the store is under `is not None`)", e)
    if isinstance(e, ast.Constant) and isinstance(e.value, int) and not isinstance(e.value, bool):
        return ("ok", "constant", e) if e.value >= 0 else ("bad", f"the constant {e.value} is negative", e)
    if isinstance(e, ast.UnaryOp) and isinstance(e.op, ast.USub) and isinstance(e.operand, ast.Constant) and isinstance(e.operand.value, (int, float)):
        return ("ok", "constant", e) if e.operand.value == 0 else ("bad", f"the constant -{e.operand.value} is negative", e)
    if isinstance(e, ast.Attribute) and e.attr == attr:
        return ("ok", "the offset itself (non-negative by induction over its stores)", e)
    if isinstance(e, ast.Call) and dotted(e.func) in ("abs", "len"):
        return ("ok", dotted(e.func), e)
    if isinstance(e, ast.Call) and dotted(e.func) == "max" and any(isinstance(a, ast.Constant) and isinstance(a.value, int) and a.value >= 0 for a in e.args):
        return ("ok", "max(0, ..)", e)
    # <..>.options.get("K", d) / <..>.options["K"]
    key = None
    dflt = None
    if isinstance(e, ast.Call) and isinstance(e.func, ast.Attribute) and e.func.attr == "get" and (dotted(e.func.value) or "").split(".")[-1] == "options" and e.args and isinstance(e.args[0], ast.Constant):
        key, dflt = e.args[0].value, (e.args[1] if len(e.args) > 1 else ast.Constant(None))
    elif isinstance(e, ast.Subscript) and (dotted(e.value) or "").split(".")[-1] == "options" and isinstance(e.slice, ast.Constant):
        key = e.slice.value
    if key is not None:
        if dflt is not None:
            st, why, nd = _nonneg(corpus, dflt, fi, attr, depth + 1, none_ok)
            if st != "ok":
                return (st, f"default of options.get({key!r}): {why}", nd)
        convs = []
        for f2 in corpus.all_functions():
            if f2.is_lambda:
                continue
            for d in f2.local_nodes():
                if isinstance(d, ast.Dict):
                    for k_, v_ in zip(d.keys, d.values):
                        if isinstance(k_, ast.Constant) and k_.value == key:
                            convs.append((f2, v_))
        if not convs:
            return ("unknown", f"no option table declares {key!r}", e)
        for f2, v_ in convs:
            name = f2.module.resolve(dotted(v_) or "")
            if name.rsplit(".", 1)[-1] in _NONNEG_CONVERTERS and "directives" in name:
                continue
            if name in ("int", "builtins.int", "float") or name.endswith(("directives.unchanged", "directives.unchanged_required")) or isinstance(v_, ast.Lambda):
                return ("bad", f"option {key!r} is converted by `{short(v_, 40)}` ({f2.module.site(v_)}), which admits negative numbers", v_)
            return ("unknown", f"converter `{short(v_, 40)}` of option {key!r} is not a known docutils converter", v_)
        return ("ok", f"option {key!r} converted by a non-negative docutils converter", e)
    if isinstance(e, ast.Name) and not fi.is_lambda:
        bound_here = e.id in fi.params or any(isinstance(x, ast.Name) and x.id == e.id and isinstance(x.ctx, ast.Store) for x in fi.local_nodes())
        if not bound_here and fi.parent_func is not None:
            return _nonneg(corpus, e, fi.parent_func, attr, depth + 1, none_ok)  # a variable of the enclosing function
        if e.id in fi.params and not _rebound(fi, e.id):
            a = fi.node.args
            defaults: dict[str, ast.expr] = {}
            for p_, d in zip(reversed(a.posonlyargs + a.args), reversed(a.defaults)):
                defaults[p_.arg] = d
            for p_, d in zip(a.kwonlyargs, a.kw_defaults):
                if d is not None:
                    defaults[p_.arg] = d
            pos = [x.arg for x in a.posonlyargs + a.args]
            g = get_callgraph(corpus)
            sites = g.callers().get(fi.fq, [])
            if e.id in defaults:
                st, why, nd = _nonneg(corpus, defaults[e.id], fi, attr, depth + 1, none_ok)
                if st != "ok":
                    return (st, f"default of parameter {e.id}: {why}", nd)
            elif not sites:
                return ("unknown", f"parameter {e.id} has no default and no caller in the package", e)
            for caller, call in sites:
                if any(isinstance(x, ast.Starred) for x in call.args) or any(k.arg is None for k in call.keywords):
                    return ("unknown", f"{caller.qualname} passes arguments by unpacking", call)
                ppos = pos[1:] if fi.cls is not None and isinstance(call.func, ast.Attribute) and "staticmethod" not in fi.decorators() else pos
                bound = dict(zip(ppos, call.args))
                for k in call.keywords:
                    bound[k.arg] = k.value
                if e.id in bound:
                    st, why, nd = _nonneg(corpus, bound[e.id], caller, attr, depth + 1, none_ok)
                    if st != "ok":
                        return (st, f"{caller.qualname} passes `{short(bound[e.id], 50)}`: {why}", nd if nd is not None else call)
            return ("ok", "every caller passes a non-negative value", e)
        defs = [n.value for n in fi.local_nodes() if isinstance(n, ast.Assign) and len(n.targets) == 1 and isinstance(n.targets[0], ast.Name) and n.targets[0].id == e.id]
        others = [n for n in fi.local_nodes() if isinstance(n, ast.Name) and n.id == e.id and isinstance(n.ctx, ast.Store) and not (isinstance(parent(n), ast.Assign) and len(parent(n).targets) == 1)]
        if defs and not others:
            for d in defs:
                st, why, nd = _nonneg(corpus, d, fi, attr, depth + 1, none_ok)
                if st != "ok":
                    return (st, why, nd)
            return ("ok", "every binding is non-negative", e)
    if isinstance(e, ast.BinOp) and isinstance(e.op, ast.Add):
        l, r = _nonneg(corpus, e.left, fi, attr, depth + 1, none_ok), _nonneg(corpus, e.right, fi, attr, depth + 1, none_ok)
        if l[0] == "ok" and r[0] == "ok":
            return ("ok", "sum of non-negative values", e)
        return l if l[0] != "ok" else r
    return ("unknown", f"`{short(e, 40)}` is not a modelled source of the heading offset", e)


@rule("C01.R14")
def r14_heading_offset(corpus: Corpus, rep: Report, tier: str):
    rep.rule("C01.R14", "every value stored into the renderer's heading offset is non-negative (a heading level <= 0 has no parent level: max() of nothing -> ValueError)")
    base = corpus.cls("mdit_to_docutils.base:DocutilsRenderer")
    rh = corpus.func("mdit_to_docutils.base:DocutilsRenderer.render_heading")
    attr = None
    for n in rh.local_nodes():
        if isinstance(n, ast.Assign) and len(n.targets) == 1 and isinstance(n.targets[0], ast.Name) and isinstance(n.value, ast.BinOp) and isinstance(n.value.op, ast.Add):
            parts = [n.value.left, n.value.right]
            # the base term: the tag digit `int(token.tag[1])` or the marker length `len(token.markup)` - both >= 1 for a
            # heading token (markdown-it invariant, see META.assumptions); only the offset is judged here
            if any(isinstance(p_, ast.Call) and dotted(p_.func) in ("int", "len") and any(isinstance(x, ast.Name) and x.id in rh.params for x in ast.walk(p_)) for p_ in parts):
                for p_ in parts:
                    if isinstance(p_, ast.Attribute) and isinstance(p_.value, ast.Name) and p_.value.id == "self":
                        attr = p_.attr
    if attr is None:
        if any(isinstance(x, ast.BinOp) and isinstance(x.op, (ast.Add, ast.Sub)) for x in rh.local_nodes()):
            rep.error("C01.R14", f"{rh.site()}: the heading level is computed in a way that is not `<int()/len() of the token> + self.<offset>`")
        else:
            rep.ok("C01.R14", f"{rh.fq}|heading level", rh.site(), "the level is the tag digit, no offset is added")
        return
    # the consumer really needs level >= 1: a max()/min() over a filtered level table
    usl = corpus.lookup_method(base, "update_section_level_state")
    needs = usl is not None and any(isinstance(c, ast.Call) and dotted(c.func) in ("max", "min") and c.args and isinstance(c.args[0], (ast.GeneratorExp, ast.ListComp)) and c.args[0].generators[0].ifs and len(c.args) == 1 and not c.keywords for c in usl.local_nodes())
    if not needs:
        rep.ok("C01.R14", f"{rh.fq}|heading level", rh.site(), "no max()/min() over a filtered level table without default: levels <= 0 are harmless")
        return
    n = 0
    hier = {ci.fq for ci in [base] + corpus.subclasses(base)}

    def owner(f: FunctionInfo):
        while f is not None and f.cls is None:
            f = f.parent_func
        return f.cls if f is not None else None

    for f in corpus.all_functions():
        if f.is_lambda or owner(f) is None or owner(f).fq not in hier:
            continue
        if True:
            for st in f.local_nodes():
                tg = st.targets[0] if isinstance(st, ast.Assign) and len(st.targets) == 1 else (st.target if isinstance(st, ast.AnnAssign) and st.value is not None else None)
                if not (isinstance(tg, ast.Attribute) and tg.attr == attr and isinstance(tg.value, ast.Name) and tg.value.id == "self"):
                    continue
                n += 1
                k = f"{f.fq}|self.{attr} = {short(st.value, 40)}"
                none_ok = isinstance(st.value, ast.Name) and any(
                    isinstance(t_, ast.Compare) and len(t_.ops) == 1 and isinstance(t_.left, ast.Name) and t_.left.id == st.value.id
                    and isinstance(t_.comparators[0], ast.Constant) and t_.comparators[0].value is None
                    and ((isinstance(t_.ops[0], ast.IsNot) and pol_) or (isinstance(t_.ops[0], ast.Is) and not pol_))
                    for t_, pol_ in _facts_at(f, st)
                )
                status, why, nd = _nonneg(corpus, st.value, f, attr, 0, none_ok)
                if status == "ok":
                    rep.ok("C01.R14", k, f.module.site(st), why)
                elif status == "bad":
                    rep.violation(
                        "C01.R14",
                        k,
                        f.module.site(st),
                        f"the heading offset may become negative: {why}; `{attr}` is added to the tag digit in render_heading and a level <= 0 makes "
                        "update_section_level_state() take max() of an empty sequence (ValueError out of the parse)",
                    )
                else:
                    rep.error("C01.R14", f"{f.module.site(st)}: `{short(st, 50)}`: {why}")
    rep.expect_min("C01.R14", 2, "stores to the heading offset")


# ---------------------------------------------------------------------------
# R15 values of docutils' name registry may be None
#
# ``document.nameids[name]`` is None for a name that was defined twice (docutils stores None to invalidate it).  Such a
# value must be None-tested before it is used as a key of ``document.ids`` - ``ids[None]`` raises KeyError,
# ``ids.get(None)`` gives None and the node dereferenced afterwards raises AttributeError.


def _registry_read(e: ast.AST, reg: str) -> bool:
    if isinstance(e, ast.Subscript) and isinstance(e.ctx, ast.Load) and (dotted(e.value) or "").split(".")[-1] == reg:
        return True
    return isinstance(e, ast.Call) and isinstance(e.func, ast.Attribute) and e.func.attr == "get" and (dotted(e.func.value) or "").split(".")[-1] == reg


def _none_tested(fi: FunctionInfo, use: ast.AST, names: set[str]) -> bool:
    for t, pol in _facts_at(fi, use):
        if isinstance(t, ast.Name) and t.id in names and pol:
            return True
        if isinstance(t, ast.Compare) and len(t.ops) == 1 and isinstance(t.left, ast.Name) and t.left.id in names and isinstance(t.comparators[0], ast.Constant) and t.comparators[0].value is None:
            if (isinstance(t.ops[0], ast.IsNot) and pol) or (isinstance(t.ops[0], ast.Is) and not pol):
                return True
        if isinstance(t, ast.Call) and dotted(t.func) == "isinstance" and t.args and isinstance(t.args[0], ast.Name) and t.args[0].id in names and pol:
            return True
    return _inside_broad_try(use, False)


@rule("C01.R15")
def r15_registry_none(corpus: Corpus, rep: Report, tier: str):
    rep.rule("C01.R15", "a value read from document.nameids (None for duplicated names) is None-tested before it keys document.ids")
    nm = corpus.sibling("docutils/nodes.py")
    stores_none = any(
        isinstance(n, ast.Assign) and isinstance(n.value, ast.Constant) and n.value.value is None and any(isinstance(t, ast.Subscript) and (dotted(t.value) or "").endswith("nameids") for t in n.targets)
        for n in ast.walk(nm.tree)
    )
    if not stores_none:
        rep.note("docutils no longer stores None into document.nameids: C01.R15 has nothing to require")
        rep.ok("C01.R15", "docutils.nodes|nameids values", "docutils/nodes.py", "nameids values are never None")
        return
    n = 0
    for fi in corpus.all_functions():
        if fi.is_lambda:
            continue
        cfg = None
        for src in fi.local_nodes():
            loop_holder = None
            if isinstance(src, ast.For) and isinstance(src.iter, ast.Call) and isinstance(src.iter.func, ast.Attribute) and (dotted(src.iter.func.value) or "").split(".")[-1] == "nameids":
                if src.iter.func.attr == "items" and isinstance(src.target, ast.Tuple) and len(src.target.elts) == 2 and isinstance(src.target.elts[1], ast.Name):
                    loop_holder = src.target.elts[1].id
                elif src.iter.func.attr == "values" and isinstance(src.target, ast.Name):
                    loop_holder = src.target.id
            if loop_holder is None and not _registry_read(src, "nameids"):
                continue
            p_ = parent(src)
            holders: set[str] = set()
            direct_uses: list[ast.AST] = []
            if loop_holder is not None:
                holders.add(loop_holder)
                def_stmt = src
                src = src.iter
            elif isinstance(p_, ast.Assign) and p_.value is src and len(p_.targets) == 1 and isinstance(p_.targets[0], ast.Name):
                holders.add(p_.targets[0].id)
                def_stmt = p_
            elif isinstance(p_, ast.Subscript) and p_.slice is src and (dotted(p_.value) or "").split(".")[-1] == "ids":
                direct_uses.append(p_)
                def_stmt = None
            elif isinstance(p_, ast.Call) and src in p_.args and _registry_read(p_, "ids"):
                direct_uses.append(p_)
                def_stmt = None
            else:
                continue
            n += 1
            k = f"{fi.fq}|{short(src, 50)}"
            site = fi.module.site(src)
            cfg = cfg or get_cfg(fi)
            problem = None
            uses = list(direct_uses)
            for h in holders:
                for u in fi.local_nodes():
                    if isinstance(u, ast.Name) and u.id == h and isinstance(u.ctx, ast.Load):
                        q = parent(u)
                        if (isinstance(q, ast.Subscript) and q.slice is u and (dotted(q.value) or "").split(".")[-1] == "ids") or (isinstance(q, ast.Call) and u in q.args and _registry_read(q, "ids")):
                            # the binding must reach this use
                            other_defs = [cfg.stmt_of(x) for x in fi.local_nodes() if isinstance(x, ast.Name) and x.id == h and isinstance(x.ctx, ast.Store) and cfg.stmt_of(x) is not def_stmt]
                            if cfg.paths_avoiding(def_stmt, cfg.stmt_of(u), lambda nd: any(nd is o for o in other_defs)):
                                uses.append(q)
            for q in uses:
                keyname = {x.id for x in ast.walk(q.slice if isinstance(q, ast.Subscript) else q.args[0]) if isinstance(x, ast.Name)}
                if holders and _none_tested(fi, q, holders):
                    continue
                if isinstance(q, ast.Subscript):
                    problem = (q, f"`{short(q, 50)}` is evaluated with a registry value that may be None (duplicated explicit target): KeyError: None")
                    break
                # ids.get(v): the result is None for v None -> its dereferences must be None-tested
                qp = parent(q)
                if isinstance(qp, ast.Assign) and qp.value is q and len(qp.targets) == 1 and isinstance(qp.targets[0], ast.Name):
                    w = qp.targets[0].id
                    other_defs = [cfg.stmt_of(x) for x in fi.local_nodes() if isinstance(x, ast.Name) and x.id == w and isinstance(x.ctx, ast.Store) and cfg.stmt_of(x) is not qp]
                    for u in sorted((x for x in fi.local_nodes() if isinstance(x, ast.Name) and x.id == w and isinstance(x.ctx, ast.Load)), key=lambda x: (x.lineno, x.col_offset)):
                        d = parent(u)
                        if not ((isinstance(d, (ast.Attribute, ast.Subscript)) and d.value is u) or (isinstance(d, (ast.For, ast.comprehension)) and d.iter is u)):
                            continue
                        if not cfg.paths_avoiding(qp, cfg.stmt_of(u), lambda nd: any(nd is o for o in other_defs)) and cfg.stmt_of(u) is not qp:
                            continue
                        if _none_tested(fi, u, {w}):
                            continue
                        problem = (u, f"`{short(q, 50)}` gives None when the registry value is None (duplicated explicit target), and `{short(d, 40)}` dereferences it without a None test: AttributeError/TypeError")
                        break
                elif isinstance(qp, (ast.Attribute, ast.Subscript)) and qp.value is q:
                    problem = (q, f"`{short(qp, 50)}` dereferences the result of ids.get() of a registry value that may be None")
                if problem:
                    break
            if problem:
                rep.violation("C01.R15", k, fi.module.site(problem[0]), problem[1])
            else:
                rep.ok("C01.R15", k, site, "None-tested before it keys document.ids" if uses else "not used as a key of document.ids")
    rep.expect_min("C01.R15", 1, "reads of document.nameids")


# ---------------------------------------------------------------------------
# R17 a transition is only attached where docutils' Transitions transform accepts it
#
# docutils' standard pipeline runs ``Transitions`` (transforms/misc.py): for a transition that is the first child of its
# parent it executes ``assert isinstance(node.parent, (document, section))``.  A ``nodes.transition`` attached below a
# node that is not provably the document or a section therefore aborts the pipeline with AssertionError.


def _transitions_asserts_parent(corpus: Corpus) -> bool:
    def compute():
        m = corpus.sibling("docutils/transforms/misc.py")
        f = m.functions.get("Transitions.visit_transition")
        if f is None:
            return True  # not readable: assume the documented behaviour
        for a in f.local_nodes():
            if isinstance(a, ast.Assert) and "node.parent" in unparse(a.test) and "isinstance" in unparse(a.test):
                return True
        return False

    return corpus.cache("c01-transitions-assert", compute)


def _package_callee(ci, fi: FunctionInfo, call: ast.Call) -> FunctionInfo | None:
    """``self.m(..)`` / ``cls.m(..)`` -> the method of the class (or a base in the package); ``f(..)`` -> the module function."""
    fn = call.func
    if isinstance(fn, ast.Attribute) and isinstance(fn.value, ast.Name) and fn.value.id in ("self", "cls"):
        return ci.methods.get(fn.attr) if ci is not None else None
    if isinstance(fn, ast.Name):
        return fi.module.functions.get(fn.id)
    return None


def _replaces_node(ci, fi: FunctionInfo, stmts: list, v: str) -> bool:
    """The statements take the node ``v`` out of the tree: ``v.replace_self(..)`` / ``v.parent.remove|replace(v..)``,
    directly or in a helper of the package that does it to the parameter ``v`` is passed for."""

    def direct(c: ast.AST, name: str) -> bool:
        return isinstance(c, ast.Call) and isinstance(c.func, ast.Attribute) and (
            (c.func.attr == "replace_self" and unparse(c.func.value) == name) or (c.func.attr in ("remove", "replace") and unparse(c.func.value) == f"{name}.parent")
        )

    for b in stmts:
        for c in ast.walk(b):
            if direct(c, v):
                return True
            if isinstance(c, ast.Call) and any(isinstance(a_, ast.Name) and a_.id == v for a_ in c.args):
                H = _package_callee(ci, fi, c)
                if H is None or H.is_lambda:
                    continue
                pos = [x.arg for x in H.node.args.posonlyargs + H.node.args.args]
                if H.cls is not None and "staticmethod" not in H.decorators():
                    pos = pos[1:]
                for i, a_ in enumerate(c.args):
                    if isinstance(a_, ast.Name) and a_.id == v and i < len(pos):
                        pname = pos[i]
                        if not any(isinstance(x, ast.Name) and x.id == pname and isinstance(x.ctx, ast.Store) for x in H.local_nodes()):
                            hcfg = get_cfg(H)
                            hits = [hcfg.stmt_of(x) for x in H.local_nodes() if direct(x, pname)]
                            if hits and not hcfg.paths_avoiding("ENTRY", "EXIT", lambda nd: any(nd is h_ for h_ in hits)):
                                return True
    return False


def _is_not_document_or_section(t: ast.expr, v: str, scope: list) -> bool:
    """``not isinstance(S, document|section)`` where S is ``v.parent`` or a local that starts as ``v.parent`` and only
    climbs out of sections (`while isinstance(p, nodes.section): p = p.parent`) - then what the test lets through still
    has a section or the document as its direct parent."""
    if not (isinstance(t, ast.UnaryOp) and isinstance(t.op, ast.Not) and isinstance(t.operand, ast.Call) and dotted(t.operand.func) == "isinstance" and len(t.operand.args) == 2):
        return False
    subject = t.operand.args[0]
    if unparse(subject) != f"{v}.parent":
        if not isinstance(subject, ast.Name):
            return False
        pdefs = [d for d in scope if isinstance(d, ast.Assign) and len(d.targets) == 1 and isinstance(d.targets[0], ast.Name) and d.targets[0].id == subject.id]
        start = [d for d in pdefs if unparse(d.value) == f"{v}.parent"]
        climbs = [d for d in pdefs if unparse(d.value) == f"{subject.id}.parent"]
        if len(start) != 1 or len(start) + len(climbs) != len(pdefs):
            return False
        for d in climbs:
            wl = next((a for a in ancestors(d) if isinstance(a, ast.While)), None)
            tt = wl.test if wl is not None else None
            if not (isinstance(tt, ast.Call) and dotted(tt.func) == "isinstance" and len(tt.args) == 2 and unparse(tt.args[0]) == subject.id):
                return False
            cl = tt.args[1].elts if isinstance(tt.args[1], ast.Tuple) else ([tt.args[1].left, tt.args[1].right] if isinstance(tt.args[1], ast.BinOp) else [tt.args[1]])
            if not all((dotted(c_) or "").rsplit(".", 1)[-1] == "section" for c_ in cl):
                return False
    tp = t.operand.args[1]
    classes = tp.elts if isinstance(tp, ast.Tuple) else ([tp.left, tp.right] if isinstance(tp, ast.BinOp) and isinstance(tp.op, ast.BitOr) else [tp])
    return bool(classes) and all((dotted(c_) or "").rsplit(".", 1)[-1] in ("document", "section") for c_ in classes)


def _transitions_hidden_by(corpus: Corpus) -> tuple[str | None, str]:
    """(name, reason) of a transform of the package that takes every transition whose parent is not the document / a
    section out of the tree BEFORE docutils' Transitions transform runs, and that both parsers register; else (None, why)."""

    def compute():
        why = "no transform of the package hides nested transitions from docutils' Transitions transform"
        for ci in corpus.all_classes():
            if not any(b.rsplit(".", 1)[-1] == "Transform" for b in ci.bases):
                continue
            ap = ci.methods.get("apply")
            if ap is None:
                continue
            # (c) apply(): for every transition of the document with a parent that is not document/section: replace / remove it
            handles = False
            for lp in ap.local_nodes():
                if not (isinstance(lp, ast.For) and isinstance(lp.target, ast.Name)):
                    continue
                if not any(isinstance(x, ast.Attribute) and x.attr == "transition" for x in ast.walk(lp.iter)):
                    continue
                v = lp.target.id
                for st in lp.body:
                    if not isinstance(st, ast.If):
                        continue
                    t = st.test
                    nested_test = _is_not_document_or_section(t, v, [x for b in lp.body for x in ast.walk(b)])
                    if not nested_test and isinstance(t, ast.Call) and len(t.args) == 1 and isinstance(t.args[0], ast.Name) and t.args[0].id == v:
                        # the test lives in a predicate of the package: `if self._is_nested(node):`
                        P = _package_callee(ci, ap, t)
                        if P is not None:
                            pos = [x.arg for x in P.node.args.posonlyargs + P.node.args.args]
                            if P.cls is not None and "staticmethod" not in P.decorators():
                                pos = pos[1:]
                            rets = [r_.value for r_ in P.local_nodes() if isinstance(r_, ast.Return) and r_.value is not None]
                            if len(pos) == 1 and rets and all(_is_not_document_or_section(rv, pos[0], list(P.local_nodes())) for rv in rets):
                                nested_test = True
                    if nested_test and _replaces_node(ci, ap, st.body, v):
                        handles = True
            if not handles:
                continue
            # (a) priority below that of docutils' Transitions
            prio = next((st.value for st in ci.node.body if isinstance(st, ast.Assign) and any(isinstance(t_, ast.Name) and t_.id == "default_priority" for t_ in st.targets)), None)
            before = (
                isinstance(prio, ast.BinOp) and isinstance(prio.op, ast.Sub) and isinstance(prio.right, ast.Constant) and isinstance(prio.right.value, int) and prio.right.value > 0
                and ci.module.resolve(dotted(prio.left) or "").endswith("transforms.misc.Transitions.default_priority")
            )
            if not before:
                why = f"{ci.name} takes nested transitions out of the tree, but its default_priority `{short(prio, 40) if prio is not None else '?'}` does not place it before docutils' Transitions"
                continue
            # (b) registered by both parsers
            missing = []
            for fq in ("parsers.docutils_:Parser.get_transforms", "parsers.sphinx_:MystParser.get_transforms"):
                if not corpus.has_func("myst_parser." + fq):
                    missing.append(fq)
                    continue
                gt = corpus.func(fq)
                if not any(isinstance(x, ast.Name) and x.id == ci.name for r in gt.local_nodes() if isinstance(r, ast.Return) and r.value is not None for x in ast.walk(r.value)):
                    missing.append(gt.qualname)
            if missing:
                why = f"{ci.name} hides nested transitions, but {', '.join(missing)} does not register it"
                continue
            return (ci.name, f"{ci.name} (priority {short(prio, 50)}, registered by both parsers) replaces every transition whose parent is not the document / a section before docutils' Transitions runs")
        return (None, why)

    return corpus.cache("c01-transitions-hidden", compute)


@rule("C01.R17")
def r17_transition_parent(corpus: Corpus, rep: Report, tier: str):
    rep.rule("C01.R17", "a nodes.transition is attached only to a node that is provably the document or a section, or nested transitions are hidden from docutils' Transitions transform (which asserts the parent) by a registered transform that runs before it")
    if not _transitions_asserts_parent(corpus):
        rep.ok("C01.R17", "docutils.transforms.misc:Transitions|parent assertion", "docutils/transforms/misc.py", "this docutils no longer asserts the parent of a transition")
        return
    rep.saw_sibling("docutils/transforms/misc.py")
    n = 0

    def is_transition_ctor(e: ast.AST, fi: FunctionInfo) -> bool:
        return isinstance(e, ast.Call) and fi.module.resolve(dotted(e.func) or "").endswith("nodes.transition")

    for fi in corpus.all_functions():
        if fi.is_lambda:
            continue
        locals_ = {
            st.targets[0].id
            for st in fi.local_nodes()
            if isinstance(st, ast.Assign) and len(st.targets) == 1 and isinstance(st.targets[0], ast.Name) and is_transition_ctor(st.value, fi)
        }

        def is_transition(e: ast.AST) -> bool:
            return is_transition_ctor(e, fi) or (isinstance(e, ast.Name) and e.id in locals_)

        attaches: list[tuple[ast.AST, ast.expr]] = []  # (site, parent expression)
        for x in fi.local_nodes():
            if isinstance(x, ast.AugAssign) and isinstance(x.op, ast.Add) and (is_transition(x.value) or (isinstance(x.value, (ast.List, ast.Tuple)) and any(is_transition(e) for e in x.value.elts))):
                attaches.append((x, x.target))
            elif isinstance(x, ast.Call) and isinstance(x.func, ast.Attribute) and x.func.attr in ("append", "insert", "extend"):
                args = list(x.args)
                flat = [e for a in args for e in (a.elts if isinstance(a, (ast.List, ast.Tuple)) else [a])]
                if any(is_transition(e) for e in flat):
                    attaches.append((x, x.func.value))
        for site_node, par in attaches:
            n += 1
            ptxt = unparse(par)
            k = f"{fi.fq}|transition attached to {ptxt}"
            site = fi.module.site(site_node)
            ok = ptxt.split(".")[-1] == "document"
            if not ok and isinstance(par, ast.Name):
                d = _single_def(fi, par)
                ok = isinstance(d, ast.Call) and fi.module.resolve(dotted(d.func) or "").rsplit(".", 1)[-1] in ("section", "document")
            if not ok:
                for t, pol in _facts_at(fi, site_node):
                    if pol and isinstance(t, ast.Call) and dotted(t.func) == "isinstance" and len(t.args) == 2 and unparse(t.args[0]) == ptxt:
                        classes = t.args[1].elts if isinstance(t.args[1], ast.Tuple) else ([t.args[1].left, t.args[1].right] if isinstance(t.args[1], ast.BinOp) else [t.args[1]])
                        if classes and all((dotted(c_) or "").rsplit(".", 1)[-1] in ("section", "document") for c_ in classes):
                            ok = True
            hider, hwhy = _transitions_hidden_by(corpus)
            if ok:
                rep.ok("C01.R17", k, site, "the parent is the document or a section")
            elif hider is not None:
                rep.ok("C01.R17", k, site, hwhy)
            else:
                rep.violation(
                    "C01.R17",
                    k,
                    site,
                    f"a nodes.transition is attached to `{ptxt}`, which can be any element (block quote, list item, admonition ...): when it is the first child of a parent that is "
                    "neither the document nor a section (`> ---`), docutils' Transitions transform (transforms/misc.py) fails its "
                    f"`assert isinstance(node.parent, (document, section))` and the standard transform pipeline aborts with AssertionError ({hwhy})",
                )
    rep.expect_min("C01.R17", 1, "places where a transition is attached")


# ---------------------------------------------------------------------------
# R18 a document cannot choose code that the parse then runs
#
# (a) ``global_only`` configuration fields (``heading_slug_func`` is imported from a dotted path and called with every
#     heading) must be refused by the file-level merge: otherwise the front matter names a callable (``os._exit``,
#     ``sys.exit``) that is called during the parse - SystemExit and worse leave ``except Exception``.
# (b) template expressions of the document are rendered in a *sandboxed* Jinja environment.


@rule("C01.R18")
def r18_document_chosen_code(corpus: Corpus, rep: Report, tier: str):
    rep.rule("C01.R18", "global_only configuration fields are refused in the file-level merge, and document templates are rendered in a sandboxed Jinja environment")
    fields = _config_fields(corpus)
    go = sorted(f for f, m in fields.items() if "global_only" in m and not (isinstance(m["global_only"], ast.Constant) and not m["global_only"].value))
    mfl = corpus.func("config.main:merge_file_level")
    cfg = get_cfg(mfl)
    applies = [
        c for c in mfl.local_nodes()
        if isinstance(c, ast.Call) and ((dotted(c.func) == "setattr" and len(c.args) == 3) or (dotted(c.func) or "").split(".")[-1] == "validate_field")
        and any(isinstance(a, ast.For) for a in ancestors(c))
    ]
    def applies_value(f: FunctionInfo) -> bool:
        return any(
            isinstance(c, ast.Call) and ((dotted(c.func) == "setattr" and len(c.args) == 3) or (dotted(c.func) or "").split(".")[-1] == "validate_field")
            for c in f.local_nodes()
        )

    def is_application(c: ast.AST) -> bool:
        return isinstance(c, ast.Call) and ((dotted(c.func) == "setattr" and len(c.args) == 3) or (dotted(c.func) or "").split(".")[-1] == "validate_field")

    def refused_at(f: FunctionInfo, c: ast.AST) -> bool:
        """The statement only runs when the field is not global_only (a dominating test in ``f``)."""
        fcfg = get_cfg(f)
        for t, pol in fcfg.guards(fcfg.stmt_of(c)):
            t = _single_def(f, t)
            if isinstance(t, ast.Call) and isinstance(t.func, ast.Attribute) and t.func.attr == "get" and unparse(t.func.value).endswith(".metadata") and t.args and isinstance(t.args[0], ast.Constant) and t.args[0].value == "global_only" and not pol:
                return True
            if isinstance(t, ast.Subscript) and unparse(t.value).endswith(".metadata") and isinstance(t.slice, ast.Constant) and t.slice.value == "global_only" and not pol:
                return True
            if isinstance(t, ast.Compare) and len(t.ops) == 1 and isinstance(t.ops[0], (ast.In, ast.NotIn)) and isinstance(t.comparators[0], (ast.Tuple, ast.List, ast.Set, ast.Name)):
                r = t.comparators[0]
                r = f.module.const_nodes.get(r.id, r) if isinstance(r, ast.Name) else r
                if isinstance(r, (ast.Tuple, ast.List, ast.Set)) and {x.value for x in r.elts if isinstance(x, ast.Constant)} >= set(go):
                    if (isinstance(t.ops[0], ast.In) and not pol) or (isinstance(t.ops[0], ast.NotIn) and pol):
                        return True
        return False

    # the application may have been extracted into a helper: it is then judged inside the helper, and - if the helper
    # does not refuse the field itself - at the helper's call site in the merge loop
    g = get_callgraph(corpus)
    obligations: list[tuple[FunctionInfo, ast.AST]] = [(mfl, c) for c in applies]
    for call, targets in g.callees(mfl):
        if not any(isinstance(a, ast.For) for a in ancestors(call)):
            continue
        for t in g.flat_targets(targets):
            if t.is_lambda or t.fq == mfl.fq or t.module is not mfl.module:
                continue
            inner = [c for c in t.local_nodes() if is_application(c)]
            if not inner:
                continue
            if all(refused_at(t, c) for c in inner):
                obligations.append((t, inner[0]))  # discharged inside the helper (kept for the instance count)
            else:
                obligations.append((mfl, call))
    if not obligations:
        rep.error("C01.R18", f"{mfl.site()}: merge_file_level no longer applies the front-matter values with setattr / validate_field (directly or in a helper of its loop)")
    k = f"{mfl.fq}|global_only fields refused"
    if not go:
        rep.ok("C01.R18", k, mfl.site(), "no configuration field is marked global_only")
    else:
        bad = next(((f, c) for f, c in obligations if not refused_at(f, c)), None)
        if bad is None:
            rep.ok("C01.R18", k, mfl.site(), f"every application of a front-matter value is dominated by the refusal of global_only fields ({', '.join(go)})")
        else:
            rep.violation(
                "C01.R18",
                k,
                bad[0].module.site(bad[1]),
                f"`{short(bad[1], 50)}` applies a front-matter value without first refusing the global_only fields ({', '.join(go)}): `myst: {{heading_slug_func: os._exit}}` makes the parse "
                "import and call what the document names (SystemExit / process exit / arbitrary code out of the parse)",
            )
    # (b) Jinja environments
    n_env = 0
    _SAFETY = ("is_safe_attribute", "is_safe_callable", "call", "getattr", "getitem", "unsafe_undefined", "call_binop", "call_unop", "format_string")

    def env_class(mod, c: ast.Call) -> tuple[str, list[str]] | None:
        """(jinja2 base class, safety methods overridden by package subclasses on the way) for an Environment constructor."""
        full = mod.resolve(dotted(c.func) or "")
        if full.startswith("jinja2.") and full.rsplit(".", 1)[-1].endswith("Environment"):
            return (full, [])
        ci = corpus.find_class(full) or mod.classes.get(dotted(c.func) or "")
        overridden: list[str] = []
        seen_ = set()
        while ci is not None and ci.fq not in seen_:
            seen_.add(ci.fq)
            overridden += [m for m in ci.methods if m in _SAFETY]
            nxt = None
            for b in ci.bases:
                if b.startswith("jinja2.") and b.rsplit(".", 1)[-1].endswith("Environment"):
                    return (b, overridden)
                nxt = nxt or corpus.find_class(b)
            ci = nxt
        return None

    # every construction in the package: inside functions and at module / class level (a shared environment)
    ctor_sites: list[tuple[object, str, ast.Call]] = []
    for fi in corpus.all_functions():
        if not fi.is_lambda:
            ctor_sites += [(fi.module, fi.fq, c) for c in fi.local_nodes() if isinstance(c, ast.Call)]
    for m_ in corpus.modules.values():
        in_funcs = {id(x) for f_ in m_.functions.values() for x in ast.walk(f_.node)}
        ctor_sites += [(m_, f"{m_.name}:<module>", c) for c in ast.walk(m_.tree) if isinstance(c, ast.Call) and id(c) not in in_funcs]

    class _Site:  # what the report lines below need from a FunctionInfo
        def __init__(self, mod, fq):
            self.module, self.fq = mod, fq

    for mod_, fq_, c in ctor_sites:
        if True:
            fi = _Site(mod_, fq_)
            ec = env_class(mod_, c)
            if ec is None:
                continue
            full, overridden = ec
            n_env += 1
            k = f"{fi.fq}|{full.rsplit('.', 1)[-1]}"
            if "Sandboxed" in full and overridden:
                rep.violation(
                    "C01.R18",
                    k + "|safety predicate overridden",
                    fi.module.site(c),
                    f"`{short(c, 60)}` builds a subclass of the jinja2 sandbox that overrides {', '.join(sorted(set(overridden)))}: the sandbox's own predicate also blocks "
                    "non-dunder internals (gi_frame, f_globals, func_globals, mro, ...); a weaker one lets a document expression reach them and run arbitrary code during the parse",
                )
            elif "Sandboxed" in full:
                rep.ok("C01.R18", k, fi.module.site(c), "sandboxed")
            else:
                rep.violation(
                    "C01.R18",
                    k,
                    fi.module.site(c),
                    f"`{short(c, 60)}` is a plain jinja2 Environment: a substitution such as `{{{{ lipsum.__globals__['__builtins__']['exit']() }}}}` reaches __builtins__ and "
                    "runs arbitrary code (SystemExit, file reads, settings changes) during the parse; use jinja2.sandbox.SandboxedEnvironment",
                )
    if n_env < 1:
        rep.error("C01.R18", "expected the Jinja environment of render_substitution")


# ---------------------------------------------------------------------------
# R19 what Sphinx pickles with the environment can be pickled
#
# ``app.env.myst_config`` holds the MdParserConfig; Sphinx pickles the environment after the reading phase.  A field that
# can hold a function object (``heading_slug_func`` set in conf.py) makes that ``PicklingError`` - the build aborts
# without output - unless the class controls its pickled state.


@rule("C01.R19")
def r19_pickled_config(corpus: Corpus, rep: Report, tier: str):
    rep.rule("C01.R19", "the configuration object stored on the Sphinx environment controls its pickled state for fields that can hold a function")
    ci = corpus.cls("config.main:MdParserConfig")
    fields = _config_fields(corpus)
    stored = [
        (fi, n) for fi in corpus.all_functions() if not fi.is_lambda for n in fi.local_nodes()
        if isinstance(n, ast.Assign) and any(isinstance(t, ast.Attribute) and t.attr == "myst_config" and (dotted(t.value) or "").endswith("env") for t in n.targets)
    ]
    if not stored:
        rep.ok("C01.R19", f"{ci.fq}|stored on the environment", ci.module.site(ci.node), "the configuration is not stored on the Sphinx environment")
        return
    callable_fields = []
    for f, m in fields.items():
        v = m.get("validator")
        names = {x.id for x in ast.walk(v) if isinstance(x, ast.Name)} if v is not None else set()
        if "is_callable" in names or any("slug_func" in n_ or "callable" in n_ for n_ in names):
            callable_fields.append(f)
    k = f"{ci.fq}|pickled with the Sphinx environment"
    site = ci.module.site(ci.node)
    if not callable_fields:
        rep.ok("C01.R19", k, site, "no field can hold a function object")
        return
    gs = ci.methods.get("__getstate__") or ci.methods.get("__reduce__") or ci.methods.get("__reduce_ex__")
    missing = [f for f in callable_fields if gs is None or not any(isinstance(x, ast.Constant) and x.value == f for x in ast.walk(gs.node))]
    if not missing:
        rep.ok("C01.R19", k, site, f"{gs.name} handles {', '.join(callable_fields)}")
    else:
        rep.violation(
            "C01.R19",
            k,
            fi_site(stored[0]),
            f"the MdParserConfig stored as env.myst_config can hold a function in {', '.join(missing)} (e.g. `def myst_heading_slug_func(title)` in conf.py) and has no "
            "__getstate__ that replaces it: Sphinx pickles the environment after reading -> PicklingError, the build aborts without output",
        )


def fi_site(pair) -> str:
    fi, n = pair
    return fi.module.site(n)


# ---------------------------------------------------------------------------
# R20 a transform that deletes a node attribute guards its own reads of that attribute
#
# docutils applies a parser's transforms to the sub-document of an rST ``include`` with ``:parser:`` and again to the
# main document: the second run meets the nodes the first run already rewrote.  A transform that executes
# ``del node["k"]`` therefore needs ``"k" in node`` before it reads ``node["k"]``.


def _traversal_predicate_has(corpus: Corpus, f: FunctionInfo, var: str, key: str) -> bool:
    """``var`` is the variable of a loop over a traversal filtered by a predicate function of the package
    (``findall(doc)(self._pred)`` / ``doc.findall(pred)``) whose result requires ``key in <node>``."""
    from ..flow import facts as _atomic

    for lp in f.local_nodes():
        if not (isinstance(lp, ast.For) and isinstance(lp.target, ast.Name) and lp.target.id == var and isinstance(lp.iter, ast.Call)):
            continue
        if any(isinstance(x, ast.Name) and x.id == var and isinstance(x.ctx, ast.Store) and x is not lp.target and not isinstance(parent(x), ast.AugAssign) for x in ast.walk(lp)):
            continue  # (`node += child` appends to the same docutils element, it does not re-bind the node)
        it = lp.iter
        if isinstance(it, ast.Call) and dotted(it.func) in ("list", "tuple") and len(it.args) == 1 and isinstance(it.args[0], ast.Call):
            it = it.args[0]
        for a in it.args:
            name = a.attr if isinstance(a, ast.Attribute) and isinstance(a.value, ast.Name) and a.value.id in ("self", "cls") else (a.id if isinstance(a, ast.Name) else None)
            if name is None:
                continue
            P = (f.cls.methods.get(name) if f.cls is not None and isinstance(a, ast.Attribute) else None) or f.module.functions.get(name)
            if P is None or P.is_lambda:
                continue
            pos = [x.arg for x in P.node.args.posonlyargs + P.node.args.args]
            if P.cls is not None and "staticmethod" not in P.decorators():
                pos = pos[1:]
            if len(pos) != 1:
                continue
            rets = [r_.value for r_ in P.local_nodes() if isinstance(r_, ast.Return) and r_.value is not None]
            if not rets:
                continue
            good = True
            for rv in rets:
                if isinstance(rv, ast.Constant) and rv.value is False:
                    continue
                has = any(
                    pol and isinstance(t, ast.Compare) and len(t.ops) == 1 and isinstance(t.ops[0], ast.In) and isinstance(t.left, ast.Constant) and t.left.value == key
                    and isinstance(t.comparators[0], ast.Name) and t.comparators[0].id == pos[0]
                    for t, pol in _atomic(rv, True)
                )
                good = good and has
            if good:
                return True
    return False


@rule("C01.R20")
def r20_transform_reapplication(corpus: Corpus, rep: Report, tier: str):
    rep.rule("C01.R20", "a transform that deletes a node attribute reads that attribute only under a membership test (transforms run twice for rST include with :parser:)")
    n = 0
    for ci in corpus.all_classes():
        if not any(b.rsplit(".", 1)[-1] in ("Transform", "SphinxPostTransform", "SphinxTransform") for b in ci.bases):
            continue
        for f in ci.methods.values():
            if f.is_lambda:
                continue
            dels = [(unparse(t.value), t.slice.value) for d in f.local_nodes() if isinstance(d, ast.Delete) for t in d.targets if isinstance(t, ast.Subscript) and isinstance(t.slice, ast.Constant) and isinstance(t.slice.value, str)]
            for var, key in sorted(set(dels)):
                n += 1
                k = f"{f.fq}|del {var}[{key!r}]"
                bad = None
                for r in sorted((x for x in f.local_nodes() if isinstance(x, ast.Subscript) and isinstance(x.ctx, ast.Load) and unparse(x.value) == var and isinstance(x.slice, ast.Constant) and x.slice.value == key), key=lambda x: (x.lineno, x.col_offset)):
                    ok = _inside_try_catching(r, "KeyError") or _traversal_predicate_has(corpus, f, var, key)
                    for t, pol in _facts_at(f, r):
                        if isinstance(t, ast.Compare) and len(t.ops) == 1 and isinstance(t.left, ast.Constant) and t.left.value == key and unparse(t.comparators[0]) == var:
                            if (isinstance(t.ops[0], ast.In) and pol) or (isinstance(t.ops[0], ast.NotIn) and not pol):
                                ok = True
                    if not ok:
                        bad = r
                        break
                if bad is None:
                    rep.ok("C01.R20", k, f.site(), "reads of the deleted attribute are under a membership test")
                else:
                    rep.violation(
                        "C01.R20",
                        k,
                        f.module.site(bad),
                        f"`{short(bad, 40)}` is read without `{key!r} in {var}` although the same transform deletes it: on its second application (rST `.. include:: x.md` with "
                        f"`:parser:`; the sub-document and the main document both run the parser's transforms) the attribute is gone -> KeyError out of the transform",
                    )
    if n == 0:
        rep.note("C01.R20: no transform deletes a node attribute")
        rep.ok("C01.R20", "transforms|deleted attributes", "myst_parser/mdit_to_docutils/transforms.py", "no transform deletes a node attribute")


# ---------------------------------------------------------------------------
# R21 queued docutils transforms whose pending node left the document are dropped
#
# A directive can parse its content and then discard it (``table`` without a table).  ``pending`` nodes in there
# (a local ``contents``) stay queued in ``document.transformer.transforms``; docutils' transform then works on a node
# outside the tree (Contents: AttributeError).  The renderer's finalisation must filter the queue.


@rule("C01.R21")
def r21_detached_pending(corpus: Corpus, rep: Report, tier: str):
    rep.rule("C01.R21", "the renderer drops queued transforms whose pending node is no longer in the document before it finishes")
    render = corpus.func("mdit_to_docutils.base:DocutilsRenderer.render")
    g = get_callgraph(corpus)
    cands = [render] + [t for call, targets in g.callees(render) for t in g.flat_targets(targets) if t.cls is not None and not t.is_lambda]
    found = None
    for f in cands:
        for st in f.local_nodes():
            if isinstance(st, ast.Assign) and len(st.targets) == 1 and isinstance(st.targets[0], ast.Attribute) and st.targets[0].attr == "transforms":
                v = st.value
                if isinstance(v, (ast.ListComp, ast.GeneratorExp)) or (isinstance(v, ast.Call) and v.args and isinstance(v.args[0], (ast.ListComp, ast.GeneratorExp))):
                    comp = v if isinstance(v, (ast.ListComp, ast.GeneratorExp)) else v.args[0]
                    if comp.generators[0].ifs and any(isinstance(x, ast.Compare) and isinstance(x.ops[0], ast.In) for t_ in comp.generators[0].ifs for x in ast.walk(t_)):
                        uses_pending = any(isinstance(x, ast.Attribute) and x.attr == "pending" for x in f.local_nodes())
                        if uses_pending:
                            found = (f, st)
    k = f"{render.fq}|queued transforms of detached pending nodes are dropped"
    if found is not None:
        f, st = found
        cfg = get_cfg(f)
        S = cfg.stmt_of(st)
        if cfg.paths_avoiding("ENTRY", "EXIT", lambda nd: nd is S):
            rep.violation("C01.R21", k, f.module.site(st), "the filter of document.transformer.transforms is not executed on every path of the finalisation")
        else:
            rep.ok("C01.R21", k, f.module.site(st), f"{f.qualname} keeps only transforms whose pending node is still found in the document")
    else:
        rep.violation(
            "C01.R21",
            k,
            render.site(),
            "nothing removes the queued transforms of pending nodes that a directive discarded with its content: ```{table}``` / {list-table} whose body holds "
            "`{contents} :local:` but no table leaves a detached pending node, and docutils' Contents transform raises AttributeError on it",
        )


# ---------------------------------------------------------------------------
# R22 a pending node names only transformer components that exist for every document the parser runs on
#
# ``nodes.pending(Filter, {"component": "writer", ...})`` is resolved by docutils' Filter transform through
# ``document.transformer.components["writer"]``.  For the sub-document of an rST ``include`` with ``:parser:`` the
# transformer only knows the parser component: KeyError 'writer' out of the transform pipeline.


@rule("C01.R22")
def r22_pending_components(corpus: Corpus, rep: Report, tier: str):
    rep.rule("C01.R22", "pending(Filter, component=...) nodes only name transformer components that exist in every way the parser can be run")
    n = 0
    for fi in corpus.all_functions():
        if fi.is_lambda:
            continue
        for c in fi.local_nodes():
            if not (isinstance(c, ast.Call) and fi.module.resolve(dotted(c.func) or "").endswith("nodes.pending") and len(c.args) >= 2 and isinstance(c.args[1], ast.Dict)):
                continue
            comp = next((v for k_, v in zip(c.args[1].keys, c.args[1].values) if isinstance(k_, ast.Constant) and k_.value == "component"), None)
            if comp is None:
                continue
            n += 1
            name = comp.value if isinstance(comp, ast.Constant) else None
            k = f"{fi.fq}|pending({short(c.args[0], 20)}, component={name!r})"
            tolerant = False
            tci = fi.module.classes.get(dotted(c.args[0]) or "")
            if tci is not None and "apply" in tci.methods:
                tolerant = any(isinstance(x, ast.Compare) and isinstance(x.ops[0], (ast.In, ast.NotIn)) and "components" in unparse(x.comparators[0]) for x in tci.methods["apply"].local_nodes())
            if name in ("parser", "reader") or tolerant or _inside_try_catching(c, "KeyError"):
                rep.ok("C01.R22", k, fi.module.site(c), "the component is present whenever the parser runs")
            else:
                rep.violation(
                    "C01.R22",
                    k,
                    fi.module.site(c),
                    f"`{short(c, 70)}` is resolved by docutils' Filter transform through transformer.components[{name!r}]; when the file is included from rST with "
                    "`:parser: myst_parser.docutils_` the sub-document's transformer only has the parser component: KeyError out of the transform pipeline",
                )
    if n == 0:
        rep.ok("C01.R22", "package|pending(Filter)", "myst_parser", "no pending node names a transformer component")


# ---------------------------------------------------------------------------
# R23 a node is taken out of the tree once
#
# ``n.parent.remove(n)`` / ``n.parent.index(n)`` / ``n.parent.replace(n, ..)`` raise ValueError when ``n`` is no longer a
# child of that parent.  A loop that removes every node of its iteration collection is safe when the collection is ONE
# traversal (each node once) evaluated when the loop starts - ``for root in ROOTS: for n in list(root.findall(T))``
# re-evaluates the traversal per root, after the removals under the earlier roots.  A collection flattened from the
# traversals of SEVERAL roots before anything is removed lists a node twice when one root lies inside another (the
# document and its registered footnotes): the second removal raises.

_TRAVERSALS = ("findall", "traverse", "iter", "walk")
_DETACH = ("remove", "replace", "index", "pop")


def _traversal_roots(e: ast.expr, fi: FunctionInfo, depth: int = 0) -> int | None:
    """Number of traversal roots flattened into the collection (None: not a traversal collection)."""
    if depth > 3:
        return None
    if isinstance(e, ast.Name):
        d = _single_def(fi, e)
        if d is not e:
            return _traversal_roots(d, fi, depth + 1)
        # the variable of an enclosing loop over a collection OF traversals: when that collection was materialised before
        # the loop (`for ns in [list(r.findall(T)) for r in roots]`) every traversal ran before anything was removed -
        # the same as one flattened list; a lazy one (generator expression / map) runs each traversal in its turn
        for lp in fi.local_nodes():
            if isinstance(lp, ast.For) and isinstance(lp.target, ast.Name) and lp.target.id == e.id and any(e is x for b in lp.body for x in ast.walk(b)):
                it = lp.iter
                if isinstance(it, ast.Name):
                    it = _single_def(fi, it)
                eager = isinstance(it, ast.ListComp) or (isinstance(it, ast.Call) and dotted(it.func) in ("list", "tuple", "sorted") and len(it.args) == 1 and isinstance(it.args[0], (ast.GeneratorExp, ast.ListComp, ast.Call)))
                comp = it if isinstance(it, (ast.ListComp, ast.GeneratorExp)) else (it.args[0] if isinstance(it, ast.Call) and it.args and isinstance(it.args[0], (ast.ListComp, ast.GeneratorExp)) else None)
                if comp is not None and _traversal_roots(comp.elt, fi, depth + 1) is not None:
                    return 2 if eager else 1
                if isinstance(it, (ast.List, ast.Tuple)) and it.elts and all(_traversal_roots(x, fi, depth + 1) is not None for x in it.elts):
                    return 2 if len(it.elts) > 1 else 1
        return None
    if isinstance(e, ast.Call) and dotted(e.func) in ("list", "tuple", "sorted", "reversed") and len(e.args) == 1:
        return _traversal_roots(e.args[0], fi, depth + 1)
    if isinstance(e, ast.Call) and dotted(e.func) in ("set", "frozenset") or (isinstance(e, ast.Call) and unparse(e.func) == "dict.fromkeys"):
        return 1  # de-duplicated
    if isinstance(e, ast.Call) and isinstance(e.func, ast.Attribute) and e.func.attr in _TRAVERSALS:
        return 1
    if isinstance(e, ast.Call) and isinstance(e.func, ast.Call) and (dotted(e.func.func) or "").split(".")[-1] in _TRAVERSALS:
        return 1  # findall(root)(T)
    if isinstance(e, (ast.ListComp, ast.GeneratorExp)):
        gens = e.generators
        inner = _traversal_roots(gens[-1].iter, fi, depth + 1)
        if inner is None:
            return None
        if len(gens) == 1:
            return inner
        # `for root in ROOTS for n in root.findall(T)`: as many roots as ROOTS has (2 = "several")
        return 2
    if isinstance(e, ast.BinOp) and isinstance(e.op, ast.Add):
        l, r = _traversal_roots(e.left, fi, depth + 1), _traversal_roots(e.right, fi, depth + 1)
        return None if l is None or r is None else l + r
    if isinstance(e, ast.Call) and (dotted(e.func) or "").split(".")[-1] in ("chain", "from_iterable"):
        parts = [_traversal_roots(a.value if isinstance(a, ast.Starred) else a, fi, depth + 1) for a in e.args]
        if parts and all(p_ is not None for p_ in parts):
            return max(2, sum(parts)) if len(parts) > 1 or isinstance(e.args[0], (ast.Starred, ast.GeneratorExp, ast.ListComp)) else parts[0]
    return None


@rule("C01.R23")
def r23_single_removal(corpus: Corpus, rep: Report, tier: str):
    rep.rule("C01.R23", "a loop that detaches every node of its collection iterates ONE traversal evaluated at loop start, not a list flattened from the traversals of several roots")
    n = 0
    seen_keys: dict[str, int] = {}
    for fi in corpus.all_functions():
        if fi.is_lambda or fi.module.name.endswith("._docs"):
            continue
        for lp in fi.local_nodes():
            if not (isinstance(lp, ast.For) and isinstance(lp.target, ast.Name)):
                continue
            v = lp.target.id
            parents = {f"{v}.parent"} | {
                a_.targets[0].id
                for b in lp.body for a_ in ast.walk(b)
                if isinstance(a_, ast.Assign) and len(a_.targets) == 1 and isinstance(a_.targets[0], ast.Name) and unparse(a_.value) == f"{v}.parent"
            }
            detaches = [
                c for b in lp.body for c in ast.walk(b)
                if isinstance(c, ast.Call) and isinstance(c.func, ast.Attribute)
                and ((c.func.attr in _DETACH and unparse(c.func.value) in parents and c.args and unparse(c.args[0]) == v) or (c.func.attr == "replace_self" and unparse(c.func.value) == v))
            ]
            # a node found by a DEEP traversal of R is detached through its own parent: `R.remove(v)` / `R.index(v)` only
            # work for the direct children of R
            it0 = lp.iter
            if isinstance(it0, ast.Call) and dotted(it0.func) in ("list", "tuple", "reversed") and len(it0.args) == 1:
                it0 = it0.args[0]
            troot = None
            if isinstance(it0, ast.Call) and isinstance(it0.func, ast.Attribute) and it0.func.attr in _TRAVERSALS:
                troot = unparse(it0.func.value)
            elif isinstance(it0, ast.Call) and isinstance(it0.func, ast.Call) and (dotted(it0.func.func) or "").split(".")[-1] in _TRAVERSALS and it0.func.args:
                troot = unparse(it0.func.args[0])
            if troot is not None:
                via_root = [
                    c for b in lp.body for c in ast.walk(b)
                    if isinstance(c, ast.Call) and isinstance(c.func, ast.Attribute) and c.func.attr in _DETACH and unparse(c.func.value) == troot and c.args and unparse(c.args[0]) == v
                ]
                if via_root:
                    n += 1
                    c0 = via_root[0]
                    if _inside_try_catching(c0, "ValueError"):
                        rep.ok("C01.R23", f"{fi.fq}|{short(c0, 40)}", fi.module.site(c0), "guarded by try/except ValueError")
                    else:
                        rep.violation(
                            "C01.R23",
                            f"{fi.fq}|{unparse(c0.func)}({v}) on the traversal root",
                            fi.module.site(c0),
                            f"`{short(c0, 50)}` detaches `{v}`, which the loop found by a deep traversal of `{troot}`, from `{troot}` itself: that only works when `{v}` is a direct "
                            f"child - a deeper one raises ValueError (list.remove / list.index); detach it through `{v}.parent`",
                        )
            if not detaches:
                continue
            roots = _traversal_roots(lp.iter, fi)
            if roots is None:
                continue
            n += 1
            k = f"{fi.fq}|for {v} in {short(lp.iter, 40)}"
            seen_keys[k] = seen_keys.get(k, 0) + 1
            if seen_keys[k] > 1:
                k += f"#{seen_keys[k]}"
            site = fi.module.site(lp)
            d0 = detaches[0]
            guarded = _inside_try_catching(d0, "ValueError") or any(
                (isinstance(t, ast.Compare) and len(t.ops) == 1 and unparse(t.left) == f"{v}.parent" and isinstance(t.comparators[0], ast.Constant) and t.comparators[0].value is None
                 and ((isinstance(t.ops[0], ast.IsNot) and pol) or (isinstance(t.ops[0], ast.Is) and not pol)))
                or (isinstance(t, ast.Compare) and len(t.ops) == 1 and isinstance(t.ops[0], ast.In) and unparse(t.left) == v and pol)
                for t, pol in _facts_at(fi, d0)
            )
            if roots <= 1 or guarded:
                rep.ok("C01.R23", k, site, "one traversal, evaluated when the loop starts" if roots <= 1 else "the detachment is guarded")
            else:
                rep.violation(
                    "C01.R23",
                    k,
                    site,
                    f"`{short(d0, 40)}` runs for every node of a collection that was flattened from the traversals of several roots before anything was removed: when one root lies "
                    "inside another (the document and its registered footnotes) a node is listed twice and the second detachment raises ValueError (list.remove / list.index) out of the parse",
                )
    rep.expect_min("C01.R23", 2, "loops that detach the nodes of a traversal")


# ---------------------------------------------------------------------------
# R24 empty block quotes that carry attributes are hidden from Sphinx's HandleCodeBlocks
#
# sphinx.transforms.HandleCodeBlocks replaces every block_quote whose children are all doctest blocks by its children -
# ``all([])`` holds for a block quote WITHOUT children - and docutils' replace_self asserts that no basic attribute
# (ids, names, classes, dupnames) is lost: AssertionError aborts the build.  A transform of the package must take such
# block quotes out of the tree before HandleCodeBlocks runs, and the Sphinx parser must register it.


def _sphinx_handle_code_blocks_priority(corpus: Corpus) -> int | None:
    def compute():
        m = corpus.sibling_module("sphinx.transforms")
        ci = m.classes.get("HandleCodeBlocks") if m is not None else None
        if ci is None:
            return 210
        ap = ci.methods.get("apply")
        vacuous = ap is not None and any(
            isinstance(c, ast.Call) and dotted(c.func) == "all" and c.args and isinstance(c.args[0], ast.GeneratorExp) and "children" in unparse(c.args[0].generators[0].iter)
            for c in ap.local_nodes()
        ) and any(isinstance(c, ast.Call) and isinstance(c.func, ast.Attribute) and c.func.attr == "replace_self" for c in ap.local_nodes())
        if not vacuous:
            return None  # this Sphinx does not replace childless block quotes any more
        for st in ci.node.body:
            if isinstance(st, ast.Assign) and any(isinstance(t, ast.Name) and t.id == "default_priority" for t in st.targets) and isinstance(st.value, ast.Constant):
                return st.value.value
        return 210

    return corpus.cache("c01-sphinx-handlecodeblocks", compute)


_BASIC_ATTRS = {"ids", "names", "classes", "dupnames"}


@rule("C01.R24")
def r24_empty_block_quotes(corpus: Corpus, rep: Report, tier: str):
    rep.rule(
        "C01.R24",
        "a registered transform that runs before sphinx's HandleCodeBlocks takes every childless block_quote carrying ids/names/classes/dupnames out of the tree "
        "(HandleCodeBlocks replaces a childless block quote by its children and docutils asserts that no attribute is lost)",
    )
    prio = _sphinx_handle_code_blocks_priority(corpus)
    k = "myst_parser.parsers.sphinx_:MystParser.get_transforms|childless block quotes hidden from HandleCodeBlocks"
    gt = corpus.func("parsers.sphinx_:MystParser.get_transforms")
    if prio is None:
        rep.ok("C01.R24", k, gt.site(), "this Sphinx no longer replaces childless block quotes")
        return
    rep.saw_sibling("sphinx/transforms/__init__.py")
    # can the renderer produce a childless block quote with attributes at all?
    why = "no transform of the package hides childless block quotes"
    for ci in corpus.all_classes():
        if not any(b.rsplit(".", 1)[-1] == "Transform" for b in ci.bases):
            continue
        ap = ci.methods.get("apply")
        if ap is None:
            continue
        covered = None
        for lp in ap.local_nodes():
            if not (isinstance(lp, ast.For) and isinstance(lp.target, ast.Name) and any(isinstance(x, ast.Attribute) and x.attr == "block_quote" for x in ast.walk(lp.iter))):
                continue
            v = lp.target.id
            for st in lp.body:
                if not (isinstance(st, ast.If) and _replaces_node(ci, ap, st.body, v)):
                    continue
                conj = st.test.values if isinstance(st.test, ast.BoolOp) and isinstance(st.test.op, ast.And) else [st.test]
                childless = any(
                    (isinstance(t, ast.UnaryOp) and isinstance(t.op, ast.Not) and unparse(t.operand) in (f"{v}.children", f"len({v}.children)", f"len({v})", v))
                    or (isinstance(t, ast.Compare) and len(t.ops) == 1 and isinstance(t.ops[0], ast.Eq) and unparse(t.left) in (f"len({v}.children)", f"len({v})") and unparse(t.comparators[0]) == "0")
                    for t in conj
                )
                others = [t for t in conj if not ((isinstance(t, ast.UnaryOp) and "children" in unparse(t)) or (isinstance(t, ast.Compare) and "len(" in unparse(t)))]
                attrs_ok = True
                for t in others:
                    txt = unparse(t)
                    named = {a for a in _BASIC_ATTRS if f"'{a}'" in txt or f'"{a}"' in txt}
                    if "basic_attributes" in txt and dotted(t.func if isinstance(t, ast.Call) else t) in ("any", None) and isinstance(t, ast.Call) and dotted(t.func) == "any":
                        continue  # any(node[att] for att in node.basic_attributes)
                    if isinstance(t, ast.BoolOp) and isinstance(t.op, ast.Or) and named >= _BASIC_ATTRS:
                        continue
                    attrs_ok = False
                    covered = (False, f"{ci.name} only hides childless block quotes when `{short(t, 60)}`: one carrying another basic attribute (ids, names, classes, dupnames) still reaches HandleCodeBlocks")
                if childless and attrs_ok:
                    covered = (True, "")
                elif not childless and covered is None:
                    covered = (False, f"{ci.name} does not test for childless block quotes")
        if covered is None:
            continue
        if not covered[0]:
            why = covered[1]
            continue
        pr = next((st.value for st in ci.node.body if isinstance(st, ast.Assign) and any(isinstance(t_, ast.Name) and t_.id == "default_priority" for t_ in st.targets)), None)
        pv = pr.value if isinstance(pr, ast.Constant) and isinstance(pr.value, int) else None
        if pv is None or pv >= prio:
            why = f"{ci.name} hides childless block quotes, but its default_priority `{short(pr, 30) if pr is not None else '?'}` is not below HandleCodeBlocks' {prio}"
            continue
        if not any(isinstance(x, ast.Name) and x.id == ci.name for r in gt.local_nodes() if isinstance(r, ast.Return) and r.value is not None for x in ast.walk(r.value)):
            why = f"{ci.name} hides childless block quotes, but MystParser.get_transforms does not register it"
            continue
        rep.ok("C01.R24", k, gt.site(), f"{ci.name} (priority {pv} < {prio}, registered by the Sphinx parser) replaces every childless block quote that carries a basic attribute")
        return
    rep.violation(
        "C01.R24",
        k,
        gt.site(),
        f"{why}: `{{#a}}` before a lone `>` (attrs_block), or an {{epigraph}} whose body is only `[a]: url`, gives a childless block_quote with ids/classes; sphinx's HandleCodeBlocks "
        "(priority 210) replaces it by its (no) children and docutils asserts `Losing \"ids\" attribute`: AssertionError aborts the Sphinx build",
    )


# ---------------------------------------------------------------------------
# R25 the text handed to markdown-it's block parser ends with a line feed
#
# Block rules of the MyST plugins (myst_blocks, colon_fence) read ``state.src`` at the start of the next line without a
# bounds check; for an empty last line of a container (``>`` at the very end of the text) that is the end of the
# string: IndexError.  Every block-level parse therefore newline-terminates its text.


def _newline_terminated(fi: FunctionInfo, call: ast.Call, e: ast.expr) -> bool:
    if isinstance(e, ast.BinOp) and isinstance(e.op, ast.Add) and isinstance(e.right, ast.Constant) and isinstance(e.right.value, str) and e.right.value.endswith("\n"):
        return True
    if isinstance(e, ast.JoinedStr) and e.values and isinstance(e.values[-1], ast.Constant) and str(e.values[-1].value).endswith("\n"):
        return True
    if not isinstance(e, ast.Name):
        return False
    cfg = get_cfg(fi)
    C = cfg.stmt_of(call)
    for t, pol in cfg.guards(C):
        if pol and isinstance(t, ast.Call) and isinstance(t.func, ast.Attribute) and t.func.attr == "endswith" and unparse(t.func.value) == e.id and t.args and isinstance(t.args[0], ast.Constant) and t.args[0].value == "\n":
            return True
    # `if not x.endswith("\n"): x += "\n"` (or x = x + "\n") dominating the call, x not re-bound afterwards
    for I in fi.local_nodes():
        if not (isinstance(I, ast.If) and not I.orelse and isinstance(I.test, ast.UnaryOp) and isinstance(I.test.op, ast.Not)):
            continue
        t = I.test.operand
        if not (isinstance(t, ast.Call) and isinstance(t.func, ast.Attribute) and t.func.attr == "endswith" and unparse(t.func.value) == e.id and t.args and isinstance(t.args[0], ast.Constant) and t.args[0].value == "\n"):
            continue
        fixes = [
            x for x in I.body
            if (isinstance(x, ast.AugAssign) and isinstance(x.op, ast.Add) and unparse(x.target) == e.id and isinstance(x.value, ast.Constant) and str(x.value.value).endswith("\n"))
            or (isinstance(x, ast.Assign) and len(x.targets) == 1 and unparse(x.targets[0]) == e.id and _newline_terminated(fi, call, x.value))
        ]
        if not fixes or not cfg.dominates(I, C):
            continue
        later = [x for x in fi.local_nodes() if isinstance(x, ast.Name) and x.id == e.id and isinstance(x.ctx, (ast.Store, ast.Del)) and I.end_lineno < x.lineno <= call.lineno]
        if not later:
            return True
    return False


@rule("C01.R25")
def r25_newline_terminated_source(corpus: Corpus, rep: Report, tier: str):
    rep.rule("C01.R25", "every text handed to markdown-it's block parser (parser.render in both front ends, md.parse in nested renders) provably ends with a line feed")
    n = 0
    sites: list[tuple[FunctionInfo, ast.Call, ast.expr]] = []
    for _, fq, _ in FRONT_ENTRIES:
        if fq.endswith(".parse"):
            pf = corpus.func(fq)
            for c in pf.local_nodes():
                if isinstance(c, ast.Call) and isinstance(c.func, ast.Attribute) and c.func.attr == "render" and c.args and isinstance(c.func.value, ast.Name):
                    sites.append((pf, c, c.args[0]))
    base = corpus.cls("mdit_to_docutils.base:DocutilsRenderer")
    for ci in [base] + corpus.subclasses(base):
        for f in ci.methods.values():
            if f.is_lambda:
                continue
            for c in f.local_nodes():
                if isinstance(c, ast.Call) and isinstance(c.func, ast.Attribute) and c.func.attr == "parse" and unparse(c.func.value) == "self.md" and c.args:
                    sites.append((f, c, c.args[0]))
    for f, c, e in sites:
        n += 1
        k = f"{f.fq}|{unparse(c.func)}({short(e, 30)})"
        if _newline_terminated(f, c, e):
            rep.ok("C01.R25", k, f.module.site(c), "the text ends with a line feed")
        else:
            rep.violation(
                "C01.R25",
                k,
                f.module.site(c),
                f"`{short(c, 50)}` parses a text that need not end with a line feed: for `> % a comment\\n>` (an empty last line of a block quote at the very end of the text) the "
                "myst_blocks / colon_fence block rules read state.src at the start of the next line unchecked: IndexError out of the parse",
            )
    rep.expect_min("C01.R25", 3, "block-level markdown-it parse calls")


# ---------------------------------------------------------------------------
# R26 an inline substitution is not rendered as blocks
#
# ``render_substitution(token, inline=True)`` runs with a paragraph (a TextElement) as current node.  A block-level nested
# render there places block nodes - e.g. the pending(ClassAttribute) of a content-less ``{class}`` directive - next to
# Text nodes; docutils' ClassAttribute transform subscripts the following sibling: TypeError on a Text.


def _flag_follows_inline(e: ast.AST | None) -> bool | None:
    """True: the expression is truthy whenever the `inline` parameter is (`inline`, `bool(inline)`, `inline or X`,
    `True if inline else X`); False: it can be falsy while `inline` is truthy (`inline and X`); None: not an
    expression over `inline` that is understood (constants included)."""
    if e is None:
        return None
    if isinstance(e, ast.Name) and e.id == "inline":
        return True
    if isinstance(e, ast.Call) and dotted(e.func) == "bool" and len(e.args) == 1 and not e.keywords:
        return _flag_follows_inline(e.args[0])
    if isinstance(e, ast.BoolOp):
        parts = [_flag_follows_inline(v) for v in e.values]
        if not any(p is not None for p in parts):
            return None
        if isinstance(e.op, ast.Or):
            return True if any(p is True for p in parts) else None
        # and: every conjunct must follow `inline`; a conjunct that does not mention it can be false
        if any(p is None and any(isinstance(x, ast.Name) and x.id == "inline" for x in ast.walk(v)) for p, v in zip(parts, e.values)):
            return None
        return all(p is True for p in parts)
    if isinstance(e, ast.IfExp) and _flag_follows_inline(e.test) is True and isinstance(e.body, ast.Constant) and e.body.value is True:
        return True
    return None


@rule("C01.R26")
def r26_inline_substitution(corpus: Corpus, rep: Report, tier: str):
    rep.rule("C01.R26", "render_substitution never renders block-level text while its `inline` parameter is true")
    f = corpus.func("mdit_to_docutils.base:DocutilsRenderer.render_substitution")
    if "inline" not in f.params:
        rep.error("C01.R26", f"{f.site()}: render_substitution has no `inline` parameter")
        return
    cfg = get_cfg(f)
    n = 0
    for c in f.local_nodes():
        if not (isinstance(c, ast.Call) and isinstance(c.func, ast.Attribute) and c.func.attr == "nested_render_text"):
            continue
        n += 1
        arg = next((k_.value for k_ in c.keywords if k_.arg == "inline"), c.args[2] if len(c.args) > 2 else None)
        inline_false = any(isinstance(t, ast.Name) and t.id == "inline" and not pol for t, pol in cfg.guards(cfg.stmt_of(c)))
        k = f"{f.fq}|nested_render_text({'inline=' + unparse(arg) if arg is not None else 'block'})"
        # the flag may be computed (one call standing for both renders): decide whether it is true whenever `inline` is
        val = _only_binding(f, arg) if isinstance(arg, ast.Name) and arg.id != "inline" else arg
        follows = _flag_follows_inline(val)
        if follows is not None:
            n += 1  # the inline and the block render in one call
        if follows is None and val is not None and not inline_false and any(isinstance(x, ast.Name) and x.id == "inline" for x in ast.walk(val)):
            rep.error("C01.R26", f"{f.module.site(c)}: the `inline` flag `{short(val, 50)}` of the nested render is not a decided function of the `inline` parameter")
            continue
        if inline_false or (isinstance(arg, ast.Constant) and arg.value is True) or follows is True:
            rep.ok("C01.R26", k, f.module.site(c), "inline text is rendered inline" if not inline_false else "only reached for a block substitution")
        else:
            rep.violation(
                "C01.R26",
                f"{f.fq}|block-level nested render reachable with inline=True",
                f.module.site(c),
                f"`{short(c, 60)}` renders the substituted text as blocks and can run while `inline` is true (the current node is then a paragraph): `Some {{{{ important }}}} text.` with "
                "important = '```{class} important\\n```' puts the directive's pending(ClassAttribute) next to Text nodes and docutils' ClassAttribute transform raises TypeError",
            )
    if n < 2:
        rep.error("C01.R26", f"expected the inline and the block nested render of render_substitution, found {n}")


# ---------------------------------------------------------------------------
# R27 YAML keys and values become docutils text only as str
#
# docutils' ``nodes.Text.__new__`` raises TypeError for bytes (``nodes.TextElement(raw, text)`` builds a Text from its
# second argument).  A key or value of a YAML mapping can be bytes (``? !!binary aGVsbG8=``), a number, None, ...: before
# it is handed to a docutils text constructor it must provably be a str.


def _docutils_text_constructors(corpus: Corpus) -> tuple[bool, set[str]]:
    """(Text.__new__ rejects bytes, names of the TextElement classes) read from docutils/nodes.py."""

    def compute():
        m = corpus.sibling("docutils/nodes.py")
        t = m.classes.get("Text")
        new = t.methods.get("__new__") if t is not None else None
        rejects = new is not None and any(isinstance(r, ast.Raise) and "TypeError" in unparse(r) for r in new.local_nodes()) and any(
            isinstance(c, ast.Call) and dotted(c.func) == "isinstance" and "bytes" in unparse(c) for c in new.local_nodes()
        )
        te: set[str] = {"TextElement"}
        changed = True
        while changed:
            changed = False
            for name, ci in m.classes.items():
                if name not in te and any(b.rsplit(".", 1)[-1] in te for b in ci.bases):
                    te.add(name)
                    changed = True
        return (rejects, te)

    return corpus.cache("c01-docutils-text-ctors", compute)


def _yaml_mappings(corpus: Corpus) -> list[tuple[FunctionInfo, str]]:
    """(function, local name) pairs that hold a mapping loaded from YAML: the safe_load results, what is built from
    their items by a comprehension, and the parameters of package methods that receive one of those."""
    g = get_callgraph(corpus)
    out: list[tuple[FunctionInfo, str]] = []
    work: list[tuple[FunctionInfo, str]] = []
    for fi in corpus.all_functions():
        if fi.is_lambda:
            continue
        for st in fi.local_nodes():
            if isinstance(st, ast.Assign) and len(st.targets) == 1 and isinstance(st.targets[0], ast.Name) and any(
                isinstance(c, ast.Call) and fi.module.resolve(dotted(c.func) or "") in ("yaml.safe_load", "yaml.load") for c in ast.walk(st.value)
            ):
                work.append((fi, st.targets[0].id))
    seen = set()
    while work:
        fi, var = work.pop()
        if (fi.fq, var) in seen or len(seen) > 200:
            continue
        seen.add((fi.fq, var))
        out.append((fi, var))

        def derived(e: ast.AST) -> bool:
            if isinstance(e, ast.Name):
                return e.id == var
            if isinstance(e, (ast.DictComp, ast.ListComp, ast.GeneratorExp)):
                it = e.generators[0].iter
                return (isinstance(it, ast.Call) and isinstance(it.func, ast.Attribute) and isinstance(it.func.value, ast.Name) and it.func.value.id == var) or (isinstance(it, ast.Name) and it.id == var)
            return False

        for st in fi.local_nodes():
            if isinstance(st, ast.Assign) and len(st.targets) == 1 and isinstance(st.targets[0], ast.Name) and st.targets[0].id != var and derived(st.value):
                work.append((fi, st.targets[0].id))
        for call, targets in g.callees(fi):
            for t in g.flat_targets(targets):
                if t.is_lambda or t.fq == fi.fq:
                    continue
                a = t.node.args
                pos = [x.arg for x in a.posonlyargs + a.args]
                if t.cls is not None and isinstance(call.func, ast.Attribute) and "staticmethod" not in t.decorators():
                    pos = pos[1:]
                bound = dict(zip(pos, call.args))
                for k_ in call.keywords:
                    if k_.arg:
                        bound[k_.arg] = k_.value
                for pname, v in bound.items():
                    if derived(v):
                        work.append((t, pname))
    return out


@rule("C01.R27")
def r27_yaml_text(corpus: Corpus, rep: Report, tier: str):
    rep.rule("C01.R27", "a key or value of a YAML-loaded mapping reaches docutils' Text / TextElement(raw, text) constructors only as a provable str (Text raises TypeError for bytes)")
    rejects, text_elements = _docutils_text_constructors(corpus)
    if not rejects:
        rep.ok("C01.R27", "docutils.nodes:Text.__new__|bytes", "docutils/nodes.py", "this docutils accepts bytes in nodes.Text")
        return
    rep.saw_sibling("docutils/nodes.py")
    n = 0
    seen_keys: dict[str, int] = {}
    for fi, var in _yaml_mappings(corpus):
        cfg = get_cfg(fi)
        for lp in fi.local_nodes():
            if not isinstance(lp, ast.For):
                continue
            it, tg = lp.iter, lp.target
            names: list[tuple[str, str]] = []
            if isinstance(it, ast.Call) and isinstance(it.func, ast.Attribute) and isinstance(it.func.value, ast.Name) and it.func.value.id == var and not it.args:
                if it.func.attr == "items" and isinstance(tg, ast.Tuple) and len(tg.elts) == 2:
                    names = [(x.id, role) for x, role in zip(tg.elts, ("key", "value")) if isinstance(x, ast.Name)]
                elif it.func.attr in ("keys", "values") and isinstance(tg, ast.Name):
                    names = [(tg.id, it.func.attr[:-1])]
            elif isinstance(it, ast.Name) and it.id == var and isinstance(tg, ast.Name):
                names = [(tg.id, "key")]
            for nm, role in names:
                for c in sorted((x for b in lp.body for x in ast.walk(b) if isinstance(x, ast.Call)), key=lambda x: (x.lineno, x.col_offset)):
                    full = fi.module.resolve(dotted(c.func) or "")
                    if not full.startswith("docutils.nodes."):
                        continue
                    cls = full.rsplit(".", 1)[-1]
                    sink = None
                    if cls == "Text" and c.args and isinstance(c.args[0], ast.Name) and c.args[0].id == nm:
                        sink = c.args[0]
                    elif cls in text_elements and len(c.args) > 1 and isinstance(c.args[1], ast.Name) and c.args[1].id == nm:
                        sink = c.args[1]
                    if sink is None:
                        continue
                    n += 1
                    k = f"{fi.fq}|{role} `{nm}` of {var} -> nodes.{cls}"
                    seen_keys[k] = seen_keys.get(k, 0) + 1
                    if seen_keys[k] > 1:
                        k += f"#{seen_keys[k]}"
                    site = fi.module.site(c)
                    U = cfg.stmt_of(c)
                    ok = any(pol and isinstance(t, ast.Call) and dotted(t.func) == "isinstance" and len(t.args) == 2 and unparse(t.args[0]) == nm and unparse(t.args[1]) == "str" for t, pol in _facts_at(fi, c))
                    ok = ok or _normalised_before(fi, cfg, nm, U, {"str"})
                    if not ok:
                        # every binding that reaches the sink is a str by construction
                        def strish(v: ast.expr) -> bool:
                            return (
                                isinstance(v, ast.JoinedStr) or (isinstance(v, ast.Constant) and isinstance(v.value, str))
                                or (isinstance(v, ast.Call) and (dotted(v.func) in ("str", "repr", "json.dumps") or (isinstance(v.func, ast.Attribute) and v.func.attr in ("join", "format", "strip", "lower", "upper") and not isinstance(v.func.value, ast.Name))))
                            )

                        defs = [x for x in ast.walk(lp) if isinstance(x, ast.Name) and x.id == nm and isinstance(x.ctx, ast.Store)]
                        reaching = []
                        for d in defs:
                            D = cfg.stmt_of(d)
                            others = [cfg.stmt_of(o) for o in defs if o is not d]
                            if D is U or cfg.paths_avoiding(D, U, lambda nd: any(nd is o for o in others if o is not D)):
                                reaching.append(d)
                        ok = bool(reaching) and all(isinstance(parent(d), ast.Assign) and len(parent(d).targets) == 1 and strish(parent(d).value) for d in reaching)
                    if ok:
                        rep.ok("C01.R27", k, site, "a str on every path (str(..) / isinstance guard / normalisation)")
                    else:
                        rep.violation(
                            "C01.R27",
                            k,
                            site,
                            f"`{short(c, 50)}` builds docutils text from the {role} `{nm}` of a YAML mapping, which need not be a str: `? !!binary aGVsbG8=` gives a bytes key and "
                            "nodes.Text raises TypeError('expecting str data, not bytes') out of the parse",
                        )
    rep.expect_min("C01.R27", 2, "YAML keys / values handed to docutils text constructors")


# ---------------------------------------------------------------------------
# R28 reads of the per-document slug registry are under a membership test
#
# ``document.myst_slugs`` (= ``env.metadata[doc]["myst_slugs"]``) only holds the headings that THIS parse registered.  A
# key that comes from anywhere else - a link target, or the ``slug`` attribute of a section that an rST ``include`` with
# ``:parser:`` spliced in from a separately parsed sub-document - need not be in it: ``registry[key]`` is a KeyError
# out of the transform unless a membership test (dominating, short-circuit, in the traversal's predicate) or a
# catching try stands before it.


def _is_slug_registry(e: ast.AST) -> bool:
    if isinstance(e, ast.Attribute) and e.attr == "myst_slugs":
        return True
    if isinstance(e, ast.Subscript) and isinstance(e.slice, ast.Constant) and e.slice.value == "myst_slugs":
        return True
    if isinstance(e, ast.Call) and e.args:
        if dotted(e.func) == "getattr" and len(e.args) >= 2 and isinstance(e.args[1], ast.Constant) and e.args[1].value == "myst_slugs":
            return True
        if isinstance(e.func, ast.Attribute) and e.func.attr in ("get", "setdefault") and isinstance(e.args[0], ast.Constant) and e.args[0].value == "myst_slugs":
            return True
    return False


def _only_binding(f: FunctionInfo, nm: ast.Name) -> ast.AST:
    """The value of the single (annotated or plain) assignment that binds the local, else the name itself."""
    stores = [x for x in f.local_nodes() if isinstance(x, ast.Name) and x.id == nm.id and isinstance(x.ctx, ast.Store)]
    if len(stores) == 1:
        p_ = parent(stores[0])
        if isinstance(p_, ast.AnnAssign) and p_.target is stores[0] and p_.value is not None:
            return p_.value
        if isinstance(p_, ast.Assign) and len(p_.targets) == 1 and p_.targets[0] is stores[0]:
            return p_.value
    return nm


def _attr_read(e: ast.AST) -> tuple[str, object] | None:
    """``v["k"]`` / ``v.get("k")`` -> (v, k): the two spellings of reading a docutils node attribute."""
    if isinstance(e, ast.Subscript) and isinstance(e.value, ast.Name) and isinstance(e.slice, ast.Constant):
        return (e.value.id, e.slice.value)
    if isinstance(e, ast.Call) and isinstance(e.func, ast.Attribute) and e.func.attr == "get" and isinstance(e.func.value, ast.Name) and len(e.args) == 1 and isinstance(e.args[0], ast.Constant) and not e.keywords:
        return (e.func.value.id, e.args[0].value)
    return None


def _membership_fact(facts_, key: ast.expr, reg_text: str, rename: dict[str, str] | None = None) -> bool:
    """One of the facts says ``key in registry`` (the key compared by text, or as the same node-attribute read)."""
    rename = rename or {}
    ka = _attr_read(key)
    for t, pol in facts_:
        if not (isinstance(t, ast.Compare) and len(t.ops) == 1):
            continue
        if not ((isinstance(t.ops[0], ast.In) and pol) or (isinstance(t.ops[0], ast.NotIn) and not pol)):
            continue
        if unparse(t.comparators[0]) != reg_text:
            continue
        la = _attr_read(t.left)
        if la is not None and ka is not None and (rename.get(la[0], la[0]), la[1]) == ka:
            return True
        if not rename and unparse(t.left) == unparse(key):
            return True
    return False


def _predicate_membership(f: FunctionInfo, key: ast.expr, reg_text: str) -> bool:
    """The key is an attribute of the variable of a loop over a traversal whose predicate (a lambda or a nested
    function, i.e. a closure that sees the same registry name) requires ``<that attribute> in registry``."""
    from ..flow import facts as _atomic

    ka = _attr_read(key)
    if ka is None:
        return False
    var = ka[0]
    for lp in f.local_nodes():
        if not (isinstance(lp, ast.For) and isinstance(lp.target, ast.Name) and lp.target.id == var and isinstance(lp.iter, ast.Call)):
            continue
        if not any(key is x for x in ast.walk(lp)):
            continue
        if any(isinstance(x, ast.Name) and x.id == var and isinstance(x.ctx, ast.Store) and x is not lp.target and not isinstance(parent(x), ast.AugAssign) for x in ast.walk(lp)):
            continue
        it = lp.iter
        if dotted(it.func) in ("list", "tuple") and len(it.args) == 1 and isinstance(it.args[0], ast.Call):
            it = it.args[0]
        for a in list(it.args) + [k_.value for k_ in it.keywords]:
            rets: list[ast.expr] = []
            pname = None
            if isinstance(a, ast.Lambda) and len(a.args.args) == 1:
                pname, rets = a.args.args[0].arg, [a.body]
            elif isinstance(a, ast.Name):
                P = f.module.functions.get(f"{f.qualname}.{a.id}")
                if P is not None and not P.is_lambda and len(P.node.args.args) == 1:
                    pname = P.node.args.args[0].arg
                    rets = [r_.value for r_ in P.local_nodes() if isinstance(r_, ast.Return) and r_.value is not None]
            if pname is None or not rets:
                continue
            if all((isinstance(rv, ast.Constant) and rv.value is False) or _membership_fact(_atomic(rv, True), key, reg_text, {pname: var}) for rv in rets):
                return True
    return False


@rule("C01.R28")
def r28_slug_registry_reads(corpus: Corpus, rep: Report, tier: str):
    rep.rule("C01.R28", "the per-document slug registry (myst_slugs) is subscripted only under a membership test of the same key (or a try catching KeyError)")
    n = 0
    for f in corpus.all_functions():
        if f.is_lambda:
            continue
        for s in f.local_nodes():
            if not (isinstance(s, ast.Subscript) and isinstance(s.ctx, ast.Load) and not isinstance(s.slice, ast.Slice)):
                continue
            reg = s.value
            if not (_is_slug_registry(reg) or (isinstance(reg, ast.Name) and _is_slug_registry(_only_binding(f, reg)))):
                continue
            key = s.slice
            n += 1
            k = f"{f.fq}|{unparse(reg)}[{unparse(key)}]"
            reg_text = unparse(reg)
            # a key that enumerates the registry itself
            if isinstance(key, ast.Name):
                own = False
                for lp in f.local_nodes():
                    if isinstance(lp, (ast.For, ast.comprehension)) and any(s is x for x in ast.walk(lp if isinstance(lp, ast.For) else parent(lp))):
                        tg = lp.target.elts[0] if isinstance(lp.target, ast.Tuple) and lp.target.elts else lp.target
                        itx = lp.iter
                        if isinstance(itx, ast.Call) and isinstance(itx.func, ast.Attribute) and itx.func.attr in ("items", "keys") and not itx.args:
                            itx = itx.func.value if (itx.func.attr == "keys" or isinstance(lp.target, ast.Tuple)) else itx
                        elif isinstance(lp.target, ast.Tuple):
                            continue
                        if isinstance(tg, ast.Name) and tg.id == key.id and unparse(itx) == reg_text:
                            own = True
                if own:
                    rep.ok("C01.R28", k, f.module.site(s), "the key enumerates the registry")
                    continue
            if _inside_try_catching(s, "KeyError") or _inside_try_catching(s, "LookupError"):
                rep.ok("C01.R28", k, f.module.site(s), "inside a try that catches KeyError")
            elif _membership_fact(_facts_at(f, s), key, reg_text):
                rep.ok("C01.R28", k, f.module.site(s), "under a membership test of the key")
            elif _predicate_membership(f, key, reg_text):
                rep.ok("C01.R28", k, f.module.site(s), "the traversal's predicate requires the key to be registered")
            else:
                rep.violation(
                    "C01.R28",
                    k,
                    f.module.site(s),
                    f"`{short(s, 50)}` reads the document's slug registry without `{unparse(key)} in {reg_text}`: the registry only holds the headings this parse "
                    "registered; a section spliced in from a separately parsed part (rST `.. include:: x.md` with `:parser:` inside {eval-rst}) carries a slug that is "
                    "not in it -> KeyError out of the transform",
                )
    rep.expect_min("C01.R28", 2, "subscript reads of the myst_slugs registry (ResolveAnchorIds, the reference resolver)")


# ---------------------------------------------------------------------------
# R29 a validator's unguarded positional read of the front-matter value is caught at the file-level merge
#
# The configuration validators also run on what a document writes under ``myst:`` in its front matter.  ``value[1]``
# without a dominating length test is an IndexError for a short list; that is harmless exactly as long as the handler
# around ``validate_field`` in ``merge_file_level`` catches it.  Either half may change alone; the pair may not.

_LEN1_SPLITS = ("split", "rsplit", "splitlines", "partition", "rpartition")


def _len_proves(facts_, name: str, need: int) -> str:
    """'yes' | 'no' | 'unknown' (a len() fact about the name that is not understood)."""
    verdict = "no"
    for t, pol in facts_:
        if isinstance(t, ast.Name) and t.id == name:
            if pol and need <= 1:
                return "yes"
            continue
        mentions = any(isinstance(c, ast.Call) and dotted(c.func) == "len" and len(c.args) == 1 and isinstance(c.args[0], ast.Name) and c.args[0].id == name for c in ast.walk(t))
        if not mentions:
            continue
        if isinstance(t, ast.Compare) and len(t.ops) == 1:
            l, r, op = t.left, t.comparators[0], t.ops[0]
            flip = {ast.Lt: ast.Gt, ast.Gt: ast.Lt, ast.LtE: ast.GtE, ast.GtE: ast.LtE}
            if isinstance(l, ast.Constant) and isinstance(r, ast.Call):
                l, r = r, l
                op = flip.get(type(op), type(op))()
            if isinstance(l, ast.Call) and dotted(l.func) == "len" and isinstance(r, ast.Constant) and isinstance(r.value, int) and not isinstance(r.value, bool):
                c = r.value
                lo = None  # proven lower bound of len(name)
                if (isinstance(op, ast.Eq) and pol) or (isinstance(op, ast.NotEq) and not pol):
                    lo = c
                elif (isinstance(op, ast.GtE) and pol) or (isinstance(op, ast.Lt) and not pol):
                    lo = c
                elif (isinstance(op, ast.Gt) and pol) or (isinstance(op, ast.LtE) and not pol):
                    lo = c + 1
                else:
                    continue  # an upper bound: says nothing
                if lo >= need:
                    return "yes"
                continue
        verdict = "unknown"
    return verdict


@rule("C01.R29")
def r29_validator_positional_reads(corpus: Corpus, rep: Report, tier: str):
    rep.rule("C01.R29", "a configuration validator's positional read `x[N]` without a dominating length test is caught by the handler around validate_field in the file-level merge")
    g = get_callgraph(corpus)
    fields = _config_fields(corpus)
    cm, dv = corpus.mod("config.main"), corpus.mod("config.dc_validators")
    V: dict[str, FunctionInfo] = {}
    for meta in fields.values():
        v = meta.get("validator")
        if v is None:
            continue
        for nm in ast.walk(v):
            if isinstance(nm, ast.Name):
                for m in (cm, dv):
                    for q, fn in m.functions.items():
                        if not fn.is_lambda and (q == nm.id or q.startswith(nm.id + ".")):
                            V[fn.fq] = fn
    if len(V) < 5:
        raise AnchorMissing(f"only {len(V)} configuration validators found in the field metadata")
    work = list(V.values())
    while work:  # helpers a validator was split into
        fn = work.pop()
        for call, targets in g.callees(fn):
            for t in targets:
                if isinstance(t, FunctionInfo) and not t.is_lambda and t.module in (cm, dv) and t.fq not in V:
                    V[t.fq] = t
                    work.append(t)
    # the applications of a front-matter value and what their handlers catch
    mfl = corpus.func("config.main:merge_file_level")

    def is_validate(c: ast.AST) -> bool:
        return isinstance(c, ast.Call) and (dotted(c.func) or "").split(".")[-1] in ("validate_field", "validate_fields")

    def catches_index_error(f: FunctionInfo, node: ast.AST) -> bool:
        return any(_inside_try_catching(node, x) for x in ("IndexError", "LookupError"))

    sites: list[tuple[FunctionInfo, ast.AST, bool]] = [(mfl, c, catches_index_error(mfl, c)) for c in mfl.local_nodes() if is_validate(c)]
    for call, targets in g.callees(mfl):
        for t in g.flat_targets(targets):
            if t.is_lambda or t.fq == mfl.fq or t.module is not mfl.module or t.fq in V:
                continue
            for c in t.local_nodes():
                if is_validate(c):
                    sites.append((t, c, catches_index_error(t, c) or catches_index_error(mfl, call)))
    if not sites:
        rep.error("C01.R29", f"{mfl.site()}: merge_file_level no longer validates the front-matter values with validate_field (directly or in a helper)")
        return
    open_sites = [(f, c) for f, c, ok in sites if not ok]
    n = 0
    seen_keys: set[str] = set()
    for fn in sorted(V.values(), key=lambda x: x.fq):
        params = set(fn.params)
        for s in fn.local_nodes():
            if not (isinstance(s, ast.Subscript) and isinstance(s.ctx, ast.Load) and isinstance(s.value, ast.Name)):
                continue
            idx = s.slice
            if isinstance(idx, ast.UnaryOp) and isinstance(idx.op, ast.USub) and isinstance(idx.operand, ast.Constant) and isinstance(idx.operand.value, int):
                need = idx.operand.value
            elif isinstance(idx, ast.Constant) and isinstance(idx.value, int) and not isinstance(idx.value, bool):
                need = idx.value + 1
            else:
                continue
            name = s.value.id
            k = f"{stmt_key(fn, enclosing_stmt_(s))}|{unparse(s)}"
            if k in seen_keys:
                continue
            seen_keys.add(k)
            n += 1
            site = fn.module.site(s)
            stores = [x for x in fn.local_nodes() if isinstance(x, ast.Name) and x.id == name and isinstance(x.ctx, ast.Store)]
            d = _single_def(fn, s.value)
            if d is not s.value:
                if isinstance(d, (ast.Tuple, ast.List)) and not any(isinstance(e, ast.Starred) for e in d.elts) and len(d.elts) >= need:
                    rep.ok("C01.R29", k, site, "a display of sufficient length")
                    continue
                if isinstance(d, ast.Call) and isinstance(d.func, ast.Attribute) and d.func.attr in _LEN1_SPLITS and (need <= 1 or (d.func.attr.endswith("partition") and need <= 3)):
                    rep.ok("C01.R29", k, site, "a split result always has a first element")
                    continue
            proved = _len_proves(_facts_at(fn, s), name, need)
            if proved == "yes":
                rep.ok("C01.R29", k, site, "under a length test")
                continue
            if not open_sites:
                rep.ok("C01.R29", k, site, "no length test, but every validate_field of a front-matter value sits in a handler that catches IndexError")
                continue
            binder = parent(stores[0]) if len(stores) == 1 else None
            while isinstance(binder, (ast.Tuple, ast.List)):
                binder = parent(binder)  # `for key, val in value.items()`
            direct = (name in params and not stores) or isinstance(binder, (ast.For, ast.comprehension))
            if proved == "unknown" or not direct:
                rep.error("C01.R29", f"{site}: `{unparse(s)}` in {fn.qualname}: the length of `{name}` at this read is not decided (a len() test of an unknown form, or a re-bound local)")
                continue
            of, oc = open_sites[0]
            rep.violation(
                "C01.R29",
                k,
                site,
                f"`{unparse(s)}` in {fn.qualname} runs before any test of len({name}), and the handler around `{short(oc, 40)}` in {of.qualname} does not catch IndexError: "
                "front matter such as `myst: {sub_delimiters: []}` (a list that is too short) raises IndexError out of the parse instead of a [myst.topmatter] warning",
                path=[of.module.site(oc)],
            )
    if n == 0:
        rep.ok("C01.R29", "validators|positional reads", cm.rel, "no validator reads its value by position")
    else:
        rep.expect_min("C01.R29", 1, "positional reads in configuration validators")


RULES = [
    r1_failure_mode_closure, r2_token_line, r3_html_attr_none, r4_reentry_guards, r5_loop_progress, r6_yaml_narrowing, r7_single_registration,
    r8_nullable_env_slots, r9_document_attributes, r10_config_divisors, r11_disable_syntax, r12_handler_attributes, r13_rebound_loop_key,
    r14_heading_offset, r15_registry_none, r16_settings_attributes, r17_transition_parent,
    r18_document_chosen_code, r19_pickled_config, r20_transform_reapplication, r21_detached_pending, r22_pending_components, r23_single_removal,
    r24_empty_block_quotes, r25_newline_terminated_source, r26_inline_substitution, r27_yaml_text,
    r28_slug_registry_reads, r29_validator_positional_reads,
]


# ---------------------------------------------------------------------------
# mutants of the current tree


def mutants(corpus: Corpus):
    out = []
    base = corpus.mod("mdit_to_docutils.base")
    h2n = corpus.mod("mdit_to_docutils.html_to_nodes")
    # 1. drop the try around tokenize_html in html_to_nodes
    f = next((x for x in h2n.functions.values() if not x.is_lambda and any(isinstance(t_, ast.Try) and any(isinstance(c_, ast.Call) and dotted(c_.func) == "tokenize_html" for b_ in t_.body for c_ in ast.walk(b_)) for t_ in x.local_nodes())), h2n.func("html_to_nodes"))
    tr = find_stmt(f, lambda s: isinstance(s, ast.Try) and any(isinstance(c_, ast.Call) and dotted(c_.func) == "tokenize_html" for b_ in s.body for c_ in ast.walk(b_)))
    # (since the F23 repair the only raise of HTMLParser.feed is caught inside the parser class itself:
    #  the mutant also reverts that repair, otherwise nothing can escape and dropping the try is harmless)
    ph = corpus.mod("parsers.parse_html")
    pms = ph.functions.get("HtmlToAst.parse_marked_section")
    ptr = find_stmt(pms, lambda s: isinstance(s, ast.Try)) if pms is not None else None
    if tr is not None and ptr is not None:
        out.append(Mutant("c01-html-try-dropped", "C01.R1", h2n.rel, unwrap_try(f, tr), expect="feed", canary=True, more={ph.rel: unwrap_try(pms, ptr)}))
    elif tr is not None:
        out.append(Mutant("c01-html-try-dropped", "C01.R1", h2n.rel, unwrap_try(f, tr), expect="feed", canary=True))
    else:
        out.append(("c01-html-try-dropped", "no try in html_to_nodes"))
    # 2. narrow except Exception in render_substitution
    f = base.func("DocutilsRenderer.render_substitution")
    tr_s = find_node(f, lambda n: isinstance(n, ast.Try) and any(isinstance(c, ast.Call) and isinstance(c.func, ast.Attribute) and c.func.attr in ("from_string", "render") for b in n.body for c in ast.walk(b)))
    h = next((h_ for h_ in (tr_s.handlers if tr_s is not None else []) if h_.type is not None and unparse(h_.type) == "Exception"), None)
    if h is not None:
        out.append(Mutant("c01-substitution-except-narrowed", "C01.R1", base.rel, splice(base.src, h.type, "jinja2.TemplateSyntaxError"), expect="render_substitution"))
    else:
        out.append(("c01-substitution-except-narrowed", "render_substitution: no `except Exception` around the template rendering"))
    # 3. narrow except Exception around fetch_inventory
    f = base.func("DocutilsRenderer.get_inventory_matches")
    h = find_node(f, lambda n: isinstance(n, ast.ExceptHandler) and n.type is not None and unparse(n.type) == "Exception")
    if h is not None:
        out.append(Mutant("c01-inventory-except-narrowed", "C01.R1", base.rel, splice(base.src, h.type, "OSError"), expect="inventory"))
    # 4. merge_file_level: narrow the validation handler
    cm = corpus.mod("config.main")
    f = cm.func("merge_file_level")
    h = find_node(f, lambda n: isinstance(n, ast.ExceptHandler) and n.type is not None and unparse(n.type) == "Exception")
    if h is not None:
        out.append(Mutant("c01-merge-except-narrowed", "C01.R1", cm.rel, splice(cm.src, h.type, "TypeError"), expect="config"))
    mk = corpus.mod("mocking")
    # 5. (include mock `except Exception` around read_text: since d6174ee run_directive reports every failure of a directive's
    #    run(), so narrowing that handler no longer lets anything escape - the mutant was retired)
    # 6. a new raise on a render path
    f = base.func("DocutilsRenderer.render_hr")
    out.append(Mutant("c01-raise-on-render-path", "C01.R1", base.rel, splice(base.src, f.node.body[0], "if token.markup == '___':\n            raise KeyError(token.markup)\n        " + ast.get_source_segment(base.src, f.node.body[0])), expect="render_hr"))
    # 7. suppress(ValueError) replaced around int(token.attrs[...])
    f = base.func("DocutilsRenderer.render_fence")
    w = find_node(f, lambda n: isinstance(n, ast.With) and "suppress(ValueError)" in unparse(n.items[0].context_expr))
    if w is not None:
        out.append(Mutant("c01-suppress-narrowed", "C01.R1", base.rel, splice(base.src, w.items[0].context_expr, "suppress(KeyError)"), expect="lineno-start"))
    # 8. token_line without default in a handler without map knowledge
    f = base.func("DocutilsRenderer.render_s")
    c = find_node(f, lambda n: isinstance(n, ast.Call) and unparse(n.func) == "token_line")
    if c is not None:
        out.append(Mutant("c01-token-line-default-dropped", "C01.R2", base.rel, splice(base.src, c, "token_line(token)"), expect="render_s", canary=True))
    # 9. substitution cycle guard: drop the early return
    f = base.func("DocutilsRenderer.render_substitution")
    iff = find_node(f, lambda n: isinstance(n, ast.If) and unparse(n.test) == "cyclic")
    if iff is not None:
        out.append(Mutant("c01-substitution-guard-dropped", "C01.R4", base.rel, splice(base.src, iff.body[-1], "pass"), expect="Jinja", canary=True))
    # 10. loops lose their progress step (provably stuck paths; the field-list loop hands its element to other
    #     methods, so a dropped pop there is honestly an ANALYSIS-ERROR, not a provable violation)
    dm_ = corpus.mod("parsers.directives")
    f = dm_.func("_parse_directive_options")
    c = find_node(f, lambda n: isinstance(n, ast.Call) and unparse(n) == "content_lines.pop(0)" and any(isinstance(a, ast.While) for a in ancestors(n)))
    if c is not None:
        out.append(Mutant("c01-option-lines-pop-dropped", "C01.R5", dm_.rel, splice(dm_.src, c, "content_lines[0]"), expect="while content_lines"))
    else:
        out.append(("c01-option-lines-pop-dropped", "content_lines.pop(0) not found in the option-lines loop"))
    f = base.func("compute_unique_slug")
    w_ = find_node(f, lambda n: isinstance(n, ast.While))
    inc = next((x for x in (w_.body if w_ is not None else []) if isinstance(x, ast.AugAssign)), None)
    if inc is not None:
        out.append(Mutant("c01-uniquifier-counter-dropped", "C01.R5", base.rel, splice(base.src, inc, "pass"), expect="while uniq in"))
    else:
        out.append(("c01-uniquifier-counter-dropped", "no counter increment in the uniquifier loop"))
    f = base.func("DocutilsRenderer.render_field_list")
    w_ = find_node(f, lambda n: isinstance(n, ast.While))
    brk = find_node(f, lambda n: isinstance(n, ast.Break) and w_ is not None and any(a is w_ for a in ancestors(n)))
    if brk is not None:
        # `continue` instead of `break` after the error message is harmless (the element was popped) - but a
        # `continue` placed BEFORE the pop is a stuck path
        pop = find_node(f, lambda n: isinstance(n, ast.Assign) and unparse(n.value) == "children.pop(0)")
        if pop is not None:
            ind = " " * pop.col_offset
            out.append(Mutant("c01-fieldlist-continue-before-pop", "C01.R5", base.rel, splice(base.src, pop, f"if not children[0]:\n{ind}    continue\n{ind}" + segment_(base.src, pop)), expect="while children"))
    # 11. front matter: isinstance narrowing dropped
    f = base.func("DocutilsRenderer.render_front_matter")
    iff = find_node(f, lambda n: isinstance(n, ast.If) and "isinstance(data, dict)" in unparse(n.test))
    if iff is not None:
        out.append(Mutant("c01-front-matter-narrowing-dropped", "C01.R6", base.rel, splice(base.src, iff.test, "data is None"), expect="data", canary=True))
    # 12. (MockingError handler: subsumed by the catch-all of d6174ee, retired)
    # --- regressions of the repaired defects (each fix reverted) ---
    for modname, q, tag in (("config.main", "read_topmatter", "topmatter"), ("mdit_to_docutils.base", "DocutilsRenderer.render_front_matter", "front-matter"), ("parsers.directives", "_parse_directive_options", "as-yaml")):
        m = corpus.mod(modname)
        f = m.func(q)
        h = find_node(f, lambda n: isinstance(n, ast.ExceptHandler) and n.type is not None and "YAMLError" in unparse(n.type))
        if h is not None:
            out.append(Mutant(f"c01-yaml-handler-narrowed-{tag}", "C01.R1", m.rel, splice(m.src, h.type, "(yaml.parser.ParserError, yaml.scanner.ScannerError)"), expect="yaml.safe_load", canary=(tag == "topmatter")))
    om = corpus.mod("parsers.options")
    f = om.func("_scan_flow_scalar_non_spaces")
    iff = find_node(f, lambda n: isinstance(n, ast.If) and unparse(n.test).startswith("code >"))
    if iff is not None:
        out.append(Mutant("c01-chr-range-check-dropped", "C01.R1", om.rel, splice(om.src, iff.test, "False"), expect="chr(code)"))
    f = base.func("DocutilsRenderer.dict_to_fm_field_list")
    h = find_node(f, lambda n: isinstance(n, ast.ExceptHandler) and n.type is not None and "TypeError" in unparse(n.type))
    if h is not None:
        out.append(Mutant("c01-json-dumps-handler-narrowed", "C01.R1", base.rel, splice(base.src, h.type, "RecursionError"), expect="json.dumps"))
    ph = corpus.mod("parsers.parse_html")
    f = ph.func("Attribute.__getitem__")
    r = find_node(f, lambda n: isinstance(n, ast.Return))
    if r is not None and isinstance(r.value, ast.BoolOp):
        out.append(Mutant("c01-attr-none-coalescing-dropped", "C01.R3", ph.rel, splice(ph.src, r.value, unparse(r.value.values[0])), expect="__getitem__"))
    dm = corpus.mod("parsers.directives")
    f = dm.func("_parse_directive_options")
    for n in walk_local(f.node):
        if isinstance(n, ast.Try) and any("converter(" in unparse(b) for b in n.body):
            h = n.handlers[0]
            out.append(Mutant("c01-converter-handler-narrowed", "C01.R1", dm.rel, splice(dm.src, h.type, "(ValueError, TypeError)"), expect="converter(value)"))
    sm = corpus.mod("mdit_to_docutils.sphinx_")
    f = sm.func("SphinxRenderer.render_link_unknown")
    for n in walk_local(f.node):
        if isinstance(n, ast.Try) and any("is_file" in unparse(b) for b in n.body):
            out.append(Mutant("c01-is-file-handler-narrowed", "C01.R1", sm.rel, splice(sm.src, n.handlers[0].type, "FileNotFoundError"), expect="is_file"))
    f = mk.func("MockIncludeDirective.run")
    iff = find_node(f, lambda n: isinstance(n, ast.If) and "myst_include_stack" in unparse(n.test) and " in " in unparse(n.test))
    if iff is not None:
        out.append(Mutant("c01-include-cycle-guard-dropped", "C01.R4", mk.rel, splice(mk.src, iff.body[-1], "pass"), expect="file content"))
    # --- tuple-unpack of split-derived sequences (catalogue entry generalised in round 2) ---
    f = base.func("DocutilsRenderer.render_link_inventory")
    wth = find_node(f, lambda n: isinstance(n, ast.With) and "suppress(IndexError)" in unparse(n.items[0].context_expr))
    def _indexed(v_):
        v_ = v_.values[0] if isinstance(v_, ast.BoolOp) and isinstance(v_.op, ast.Or) else v_
        return v_ if isinstance(v_, ast.Subscript) else None

    if wth is not None and wth.body and isinstance(wth.body[0], ast.Assign) and _indexed(wth.body[0].value) is not None:
        parts = unparse(_indexed(wth.body[0].value).value)
        names = [unparse(b.targets[0]) for b in wth.body if isinstance(b, ast.Assign)]
        lhs = ", ".join(names)
        # the split that feeds the parts: a maxsplit that already bounds the number of parts is dropped as well
        # (the padded / weakly guarded unpack is only wrong for an unbounded number of parts)
        pdef = find_node(f, lambda n: isinstance(n, ast.Assign) and len(n.targets) == 1 and unparse(n.targets[0]) == parts and isinstance(n.value, ast.Call) and isinstance(n.value.func, ast.Attribute) and n.value.func.attr == "split")
        base_src = base.src
        if pdef is not None and len(pdef.value.args) == 2 and pdef.lineno > wth.lineno:
            pdef = None
        def with_unbounded_split(new_with: str) -> str:
            src_ = splice(base.src, wth, new_with)  # the with-block comes after the split: splice it first
            if pdef is not None and len(pdef.value.args) == 2:
                src_ = splice(src_, pdef.value, f"{unparse(pdef.value.func)}({unparse(pdef.value.args[0])})")
            return src_
        out.append(Mutant("c01-inv-path-padded-unpack", "C01.R1", base.rel, with_unbounded_split(f"{lhs} = {parts} + [None] * ({len(names)} - len({parts}))"), expect="[None] *", canary=True))
        out.append(Mutant("c01-inv-path-unpack-unpadded", "C01.R1", base.rel, splice(base.src, wth, f"{lhs} = {parts}[:{len(names)}]"), expect=f"{parts}[:{len(names)}]"))
        out.append(Mutant("c01-inv-path-len-guard-too-weak", "C01.R1", base.rel, with_unbounded_split(f"if len({parts}) >= {len(names)}:\n{' ' * wth.col_offset}    {lhs} = {parts}"), expect=f"origin={f.fq}|{parts}"))
    else:
        out.append(("c01-inv-path-padded-unpack", "render_link_inventory no longer indexes the path parts under suppress(IndexError)"))
    wm = corpus.mod("warnings_")
    f = wm.func("_is_suppressed_warning")
    c = find_node(f, lambda n: isinstance(n, ast.Call) and isinstance(n.func, ast.Attribute) and n.func.attr == "split" and len(n.args) == 2)
    if c is not None:
        out.append(Mutant("c01-suppress-entry-maxsplit-dropped", "C01.R1", wm.rel, splice(wm.src, c, f"{unparse(c.func)}({unparse(c.args[0])})"), expect="_is_suppressed_warning"))
    else:
        out.append(("c01-suppress-entry-maxsplit-dropped", "no split(sep, 1) in _is_suppressed_warning"))
    # --- values read out of the front matter (R6, round 2) ---
    f = cm.func("merge_file_level")
    mif = find_node(f, lambda n: isinstance(n, ast.If) and "merge_topmatter" in unparse(n.test))
    sa = find_node(f, lambda n: isinstance(n, ast.Expr) and unparse(n).startswith("setattr(new, name, value)"))
    if mif is not None and sa is not None and sa.lineno < mif.lineno:
        ind = " " * sa.col_offset
        src1 = splice(cm.src, mif, "pass")
        src1 = splice(src1, sa, f"if {unparse(mif.test)}:\n{ind}    value = {{**old_value, **value}}\n{ind}setattr(new, name, value)")
        out.append(Mutant("c01-topmatter-merge-before-validation", "C01.R6", cm.rel, src1, expect="merge_file_level|value"))
    else:
        out.append(("c01-topmatter-merge-before-validation", "merge_file_level: merge/store statements not found"))
    hcont = find_node(f, lambda n: isinstance(n, ast.Continue) and isinstance(parent(n), ast.ExceptHandler))
    if hcont is not None:
        out.append(Mutant("c01-topmatter-failed-validation-falls-through", "C01.R6", cm.rel, splice(cm.src, hcont, "pass"), expect="merge_file_level|value"))
    else:
        out.append(("c01-topmatter-failed-validation-falls-through", "no `continue` in the validation handler"))
    ci = corpus.cls("config.main:MdParserConfig")
    sub = next((st for st in ci.node.body if isinstance(st, ast.AnnAssign) and isinstance(st.target, ast.Name) and st.target.id == "substitutions"), None)
    dmc = next((x for x in ast.walk(sub) if isinstance(x, ast.Call) and (dotted(x.func) or "").endswith("deep_mapping") and len(x.args) == 3), None) if sub is not None else None
    if dmc is not None:
        out.append(Mutant("c01-merged-field-validator-admits-non-mapping", "C01.R6", cm.rel, splice(cm.src, dmc, f"{unparse(dmc.func)}({unparse(dmc.args[0])}, {unparse(dmc.args[1])})"), expect="merge_file_level|value"))
    else:
        out.append(("c01-merged-field-validator-admits-non-mapping", "substitutions is not validated by a 3-argument deep_mapping"))
    # --- digit guard widened to str.isdigit(): int('\u00b2') raises ValueError ---
    f = om.func("_scan_block_scalar_indicators")
    iff = find_node(f, lambda n: isinstance(n, ast.If) and isinstance(n.test, ast.Compare) and isinstance(n.test.comparators[0], ast.Constant) and n.test.comparators[0].value == "0123456789")
    if iff is not None:
        out.append(Mutant("c01-digit-guard-widened-to-isdigit", "C01.R1", om.rel, splice(om.src, iff.test, f"{unparse(iff.test.left)}.isdigit()"), expect="int("))
    else:
        out.append(("c01-digit-guard-widened-to-isdigit", "no digit-set membership test in _scan_block_scalar_indicators"))
    # --- a node offered twice to the docutils name registry (R7) ---
    f = mk.func("MockIncludeDirective.run")
    st = find_node(f, lambda n: isinstance(n, ast.Expr) and unparse(n).startswith("self.add_name("))
    if st is not None:
        ind = " " * st.col_offset
        out.append(Mutant("c01-literal-include-named-twice", "C01.R7", mk.rel, splice(mk.src, st, segment_(mk.src, st) + f"\n{ind}" + segment_(mk.src, st)), expect="MockIncludeDirective.run|"))
    else:
        out.append(("c01-literal-include-named-twice", "no self.add_name(...) statement in the include mock"))
    f = base.func("DocutilsRenderer.render_paragraph")
    st = find_node(f, lambda n: isinstance(n, ast.Expr) and unparse(n).startswith("self.copy_attributes("))
    if st is not None and isinstance(st.value, ast.Call) and len(st.value.args) >= 2 and isinstance(st.value.args[1], ast.Name):
        ind = " " * st.col_offset
        nd = st.value.args[1].id
        out.append(Mutant("c01-paragraph-registered-implicit-too", "C01.R7", base.rel, splice(base.src, st, segment_(base.src, st) + f"\n{ind}self.document.note_implicit_target({nd}, {nd})"), expect="render_paragraph|", canary=False))
    else:
        out.append(("c01-paragraph-registered-implicit-too", "render_paragraph does not call copy_attributes(token, <name>, ...)"))
    f = base.func("DocutilsRenderer.render_myst_target")
    c = find_node(f, lambda n: isinstance(n, ast.Call) and isinstance(n.func, ast.Attribute) and n.func.attr == "note_explicit_target")
    st = c
    while st is not None and not isinstance(st, ast.stmt):
        st = parent(st)
    if st is not None:
        ind = " " * st.col_offset
        out.append(Mutant("c01-target-registered-explicit-and-implicit", "C01.R7", base.rel, splice(base.src, st, segment_(base.src, st) + f"\n{ind}" + segment_(base.src, st).replace("note_explicit_target", "note_implicit_target")), expect="render_myst_target|"))
    else:
        out.append(("c01-target-registered-explicit-and-implicit", "render_myst_target does not register its target"))
    # --- render-environment slots that may hold None (R8) ---
    sx = corpus.mod("mdit_to_docutils.sphinx_")
    f = sx.func("SphinxRenderer._handle_relative_docs")
    cmp_ = find_node(f, lambda n: isinstance(n, ast.Compare) and isinstance(n.ops[0], ast.IsNot) and isinstance(n.comparators[0], ast.Constant) and n.comparators[0].value is None)
    if cmp_ is not None:
        out.append(Mutant("c01-relative-docs-presence-test", "C01.R8", sx.rel, splice(sx.src, cmp_, '"relative-docs" in self.md_env'), expect="relative-docs", canary=True))
        bo = parent(cmp_)
        if isinstance(bo, ast.BoolOp) and isinstance(bo.op, ast.And) and len(bo.values) == 2 and bo.values[0] is cmp_:
            out.append(Mutant("c01-relative-docs-none-test-dropped", "C01.R8", sx.rel, splice(sx.src, bo, segment_(sx.src, bo.values[1])), expect="relative-docs"))
    else:
        out.append(("c01-relative-docs-presence-test", "_handle_relative_docs has no `is not None` test"))
    # --- MyST-specific document attributes read by transforms (R9) ---
    tm = corpus.mod("mdit_to_docutils.transforms")
    f = tm.func("ResolveAnchorIds.apply")
    ga = find_node(f, lambda n: isinstance(n, ast.Call) and dotted(n.func) == "getattr" and len(n.args) == 3 and isinstance(n.args[1], ast.Constant) and n.args[1].value == "myst_slugs")
    if ga is not None:
        out.append(Mutant("c01-slugs-read-without-default", "C01.R9", tm.rel, splice(tm.src, ga, f"{unparse(ga.args[0])}.myst_slugs"), expect="document.myst_slugs"))
        out.append(Mutant("c01-slugs-read-or-default", "C01.R9", tm.rel, splice(tm.src, ga, f"({unparse(ga.args[0])}.myst_slugs or {{}})"), expect="document.myst_slugs"))
    else:
        out.append(("c01-slugs-read-without-default", "ResolveAnchorIds.apply does not read myst_slugs through getattr"))
    # --- the YAML branch of the option parser becomes live for the renderer (R1 flag filter) ---
    f = base.func("DocutilsRenderer.run_directive")
    pc = find_node(f, lambda n: isinstance(n, ast.Call) and (dotted(n.func) or "").split(".")[-1] == "parse_directive_text")
    yh = find_node(dm.func("_parse_directive_options"), lambda n: isinstance(n, ast.ExceptHandler) and n.type is not None and "YAMLError" in unparse(n.type))
    if yh is not None and any(x in unparse(yh.type) for x in ("ValueError", "Exception")):
        pass  # the YAML branch no longer leaks anything: making it live is harmless
    elif pc is not None and not any(k.arg == "validate_options" for k in pc.keywords):
        last = (pc.keywords[-1].value if pc.keywords else pc.args[-1])
        out.append(Mutant("c01-renderer-parses-options-as-yaml", "C01.R1", base.rel, splice(base.src, last, segment_(base.src, last) + ", validate_options=False"), expect="yaml.safe_load(options_block"))
    else:
        out.append(("c01-renderer-parses-options-as-yaml", "run_directive does not call parse_directive_text without validate_options"))
    # --- repairs of the round-4 findings, reverted (emitted once the repaired shape is in the tree) ---
    for q in ("DocutilsRenderer.render_link_inventory", "DocutilsRenderer.render_link_url"):
        f = base.func(q)
        up = find_node(f, lambda n: isinstance(n, ast.Call) and dotted(n.func) in ("urlparse", "urlsplit"))
        tr_ = next((a for a in ancestors(up) if isinstance(a, ast.Try)), None) if up is not None else None
        if tr_ is not None and any(up in ast.walk(b) for b in tr_.body):
            h = next((h for h in tr_.handlers if h.type is not None and "ValueError" in unparse(h.type)), None)
            if h is not None:
                out.append(Mutant(f"c01-urlparse-handler-narrowed-{q.split('_')[-1]}", "C01.R1", base.rel, splice(base.src, h.type, "KeyError"), expect="urlparse("))
    ci = corpus.cls("config.main:MdParserConfig")
    flds = _config_fields(corpus)
    wpm = next((st for st in ci.node.body if isinstance(st, ast.AnnAssign) and isinstance(st.target, ast.Name) and st.target.id == "words_per_minute"), None)
    v_ = flds.get("words_per_minute", {}).get("validator")
    if wpm is not None and v_ is not None and _validator_rejects(corpus, v_, _excludes_zero, lambda x: isinstance(x, (int, float)) and x != 0):
        out.append(Mutant("c01-words-per-minute-validator-admits-zero", "C01.R10", cm.rel, splice(cm.src, v_, "instance_of(int)"), expect="words_per_minute"))
    mdm = corpus.mod("parsers.mdit")
    f = mdm.func("create_md_parser")
    dc_ = find_node(f, lambda n: isinstance(n, ast.Call) and isinstance(n.func, ast.Attribute) and n.func.attr == "disable")
    gi = next((a for a in ancestors(dc_) if isinstance(a, ast.If)), None) if dc_ is not None else None
    if gi is not None and "paragraph" in unparse(gi.test):
        out.append(Mutant("c01-disable-syntax-guard-dropped", "C01.R11", mdm.rel, splice(mdm.src, gi.test, "True" if any(dc_ in ast.walk(b) for b in gi.body) else "False"), expect="disable(<"))
    v_ = flds.get("disable_syntax", {}).get("validator")
    if v_ is not None and _validator_rejects(corpus, v_, lambda t: _mentions_const(t, "paragraph"), lambda x: x != "paragraph"):
        out.append(Mutant("c01-disable-syntax-validator-weakened", "C01.R11", cm.rel, splice(cm.src, v_, "deep_iterable(instance_of(str), instance_of((list, tuple)))"), expect="disable(<"))
    # --- the NUL repair (1efe2fa) reverted at its three sites: relfn2path / download_reference of percent-decoded text ---
    sx_ = corpus.mod("mdit_to_docutils.sphinx_")
    for q, tag in (("SphinxRenderer.render_link_project", "project"), ("SphinxRenderer.render_link_unknown", "unknown")):
        f = sx_.func(q)
        tr_ = find_node(f, lambda n: isinstance(n, ast.Try) and any(isinstance(c, ast.Call) and isinstance(c.func, ast.Attribute) and c.func.attr == "relfn2path" for b in n.body for c in ast.walk(b)))
        if tr_ is not None:
            out.append(Mutant(f"c01-relfn2path-try-dropped-{tag}", "C01.R1", sx_.rel, unwrap_try(f, tr_), expect="relfn2path(", canary=(tag == "project")))
        else:
            out.append((f"c01-relfn2path-try-dropped-{tag}", f"{q}: relfn2path is not inside a try"))
    f = sx_.func("SphinxRenderer.render_link_path")
    iff = find_node(f, lambda n: isinstance(n, ast.If) and isinstance(n.test, ast.Compare) and isinstance(n.test.left, ast.Constant) and n.test.left.value == "\x00")
    if iff is None:
        # the later shape: `if not <witness of a successful relfn2path>: warn; return` before the download_reference
        iff = find_node(f, lambda n: isinstance(n, ast.If) and isinstance(n.test, ast.UnaryOp) and isinstance(n.test.op, ast.Not) and isinstance(n.test.operand, ast.Name) and n.body and isinstance(n.body[-1], ast.Return))
    if iff is not None:
        out.append(Mutant("c01-download-target-nul-test-dropped", "C01.R1", sx_.rel, splice(sx_.src, iff.test, "False"), expect="download_reference("))
    else:
        out.append(("c01-download-target-nul-test-dropped", "render_link_path has neither a NUL test nor a witness test before the download_reference"))
    # --- the RecursionError repair (6b9f5b4) reverted at its three yaml.safe_load sites ---
    for modname, q, tag in (("config.main", "read_topmatter", "topmatter"), ("mdit_to_docutils.base", "DocutilsRenderer.render_front_matter", "front-matter"), ("parsers.directives", "_parse_directive_options", "as-yaml")):
        m_ = corpus.mod(modname)
        f = m_.func(q)
        h = find_node(f, lambda n: isinstance(n, ast.ExceptHandler) and n.type is not None and "YAMLError" in unparse(n.type))
        if h is not None and isinstance(h.type, ast.Tuple) and any(unparse(e) == "RecursionError" for e in h.type.elts):
            kept = ", ".join(unparse(e) for e in h.type.elts if unparse(e) != "RecursionError")
            out.append(Mutant(f"c01-yaml-recursion-handler-reverted-{tag}", "C01.R1", m_.rel, splice(m_.src, h.type, f"({kept})"), expect="|RecursionError|"))
        else:
            out.append((f"c01-yaml-recursion-handler-reverted-{tag}", f"{q}: the YAML handler does not name RecursionError"))
    # --- the settings repair (8f3a656) reverted: a myst_* setting read without a default (R16) ---
    wm_ = corpus.mod("warnings_")
    f = wm_.func("create_warning")
    ga = find_node(f, lambda n: isinstance(n, ast.Call) and dotted(n.func) == "getattr" and len(n.args) == 3 and isinstance(n.args[1], ast.Constant) and str(n.args[1].value).startswith("myst_"))
    if ga is not None:
        out.append(Mutant("c01-suppress-setting-read-without-default", "C01.R16", wm_.rel, splice(wm_.src, ga, f"{unparse(ga.args[0])}.{ga.args[1].value}"), expect="create_warning|settings.", canary=False))
    else:
        out.append(("c01-suppress-setting-read-without-default", "create_warning does not read a myst_* setting through getattr"))
    tm2 = corpus.mod("mdit_to_docutils.transforms")
    f = base.func("DocutilsRenderer._render_finalise")
    stf = find_node(f, lambda n: isinstance(n, ast.Assign) and isinstance(n.targets[0], ast.Attribute) and n.targets[0].attr == "myst_footnote_sort" and _is_settings(n.targets[0].value))
    if stf is None:
        pass  # the footnote options are no longer kept on document.settings (they moved to the document itself: R9)
    elif stf is not None:
        out.append(Mutant("c01-footnote-sort-setting-no-longer-stored", "C01.R16", base.rel, splice(base.src, stf, "pass"), expect="settings.myst_footnote_sort"))
    else:
        out.append(("c01-footnote-sort-setting-no-longer-stored", "_render_finalise does not store myst_footnote_sort"))
    # --- configured rule names handed to MarkdownIt.disable() without ignoreInvalid (R11) ---
    mdm_ = corpus.mod("parsers.mdit")
    f = mdm_.func("create_md_parser")
    dcall = find_node(f, lambda n: isinstance(n, ast.Call) and isinstance(n.func, ast.Attribute) and n.func.attr == "disable" and len(n.args) == 2 and isinstance(n.args[1], ast.Constant) and n.args[1].value is True)
    if dcall is not None:
        out.append(Mutant("c01-disable-ignore-invalid-dropped", "C01.R11", mdm_.rel, splice(mdm_.src, dcall, f"{unparse(dcall.func)}({unparse(dcall.args[0])})"), expect="unknown names"))
        out.append(Mutant("c01-disable-ignore-invalid-false", "C01.R11", mdm_.rel, splice(mdm_.src, dcall.args[1], "False"), expect="unknown names"))
    else:
        out.append(("c01-disable-ignore-invalid-dropped", "create_md_parser does not call md.disable(x, True)"))
    # --- d4491dc weakened: a message found by a deep traversal is removed from the traversal root (R23) ---
    f = base.functions.get("DocutilsRenderer._messages_follow")
    rm = find_node(f, lambda n: isinstance(n, ast.Call) and isinstance(n.func, ast.Attribute) and n.func.attr == "remove" and unparse(n.func.value).endswith(".parent")) if f is not None else None
    ilp = next((a for a in ancestors(rm) if isinstance(a, ast.For)), None) if rm is not None else None
    if rm is not None and ilp is not None and isinstance(ilp.iter, ast.Call):
        it0 = ilp.iter.args[0] if dotted(ilp.iter.func) in ("list", "tuple") and ilp.iter.args else ilp.iter
        root_ = unparse(it0.func.args[0]) if isinstance(it0, ast.Call) and isinstance(it0.func, ast.Call) and it0.func.args else (unparse(it0.func.value) if isinstance(it0, ast.Call) and isinstance(it0.func, ast.Attribute) else None)
        if root_:
            out.append(Mutant("c01-message-removed-from-traversal-root", "C01.R23", base.rel, splice(base.src, rm.func.value, root_), expect="on the traversal root"))
    else:
        out.append(("c01-message-removed-from-traversal-root", "_messages_follow: `<msg>.parent.remove(<msg>)` inside a traversal loop not found"))
    # --- 74f6db6: a YAML key handed to nodes.Text without being made a str (R27) ---
    f = base.func("DocutilsRenderer.dict_to_fm_field_list")
    kif = find_node(f, lambda n: isinstance(n, ast.If) and isinstance(n.test, ast.UnaryOp) and "isinstance(key, str)" in unparse(n.test))
    if kif is not None:
        out.append(Mutant("c01-front-matter-key-not-made-str", "C01.R27", base.rel, splice(base.src, kif, "pass"), expect="key `key`"))
        out.append(Mutant("c01-front-matter-key-bytes-accepted", "C01.R27", base.rel, splice(base.src, kif.test, "not isinstance(key, (str, bytes))"), expect="key `key`"))
    else:
        out.append(("c01-front-matter-key-not-made-str", "dict_to_fm_field_list has no `if not isinstance(key, str)` normalisation"))
    # --- the raw clean-up takes all traversals up front as a list of lists (R23, second spelling) ---
    pmd = corpus.mod("parsers.docutils_")
    f = pmd.func("Parser.parse")
    outer = find_node(f, lambda n: isinstance(n, ast.For) and len(n.body) == 1 and isinstance(n.body[0], ast.For) and isinstance(n.target, ast.Name)
                      and any(isinstance(c, ast.Call) and isinstance(c.func, ast.Attribute) and c.func.attr == "remove" for c in ast.walk(n.body[0])))
    if outer is not None:
        inner = outer.body[0]
        src_ = splice(pmd.src, inner.iter, "found_")  # the inner loop comes later in the file: splice it first
        src_ = splice(src_, outer.iter, f"[{unparse(inner.iter)} for {unparse(outer.target)} in {unparse(outer.iter)}]")
        src_ = splice(src_, outer.target, "found_")
        out.append(Mutant("c01-raw-cleanup-traversals-up-front", "C01.R23", pmd.rel, src_, expect="in found_"))
    else:
        out.append(("c01-raw-cleanup-traversals-up-front", "Parser.parse: nested removal loops not found"))
    # --- round 14 (second hunt): repairs reverted and partially weakened ---
    # 7bb3517 HideEmptyBlockQuotes (R24)
    tmx = corpus.mod("mdit_to_docutils.transforms")
    hq = tmx.classes.get("HideEmptyBlockQuotes")
    spx = corpus.mod("parsers.sphinx_")
    if hq is not None:
        gt = spx.func("MystParser.get_transforms")
        nm_ = find_node(gt, lambda n: isinstance(n, ast.Name) and n.id == "HideEmptyBlockQuotes" and isinstance(parent(n), ast.List))
        if nm_ is not None:
            lst = parent(nm_)
            out.append(Mutant("c01-empty-block-quotes-not-hidden", "C01.R24", spx.rel, splice(spx.src, lst, "[" + ", ".join(unparse(e) for e in lst.elts if e is not nm_) + "]"), expect="childless block quotes"))
        pr = next((st for st in hq.node.body if isinstance(st, ast.Assign) and any(isinstance(t_, ast.Name) and t_.id == "default_priority" for t_ in st.targets)), None)
        if pr is not None:
            out.append(Mutant("c01-empty-block-quotes-hidden-too-late", "C01.R24", tmx.rel, splice(tmx.src, pr.value, "211"), expect="childless block quotes"))
        ap = hq.methods["apply"]
        anyc = find_node(ap, lambda n: isinstance(n, ast.Call) and dotted(n.func) == "any" and "basic_attributes" in unparse(n))
        if anyc is not None:
            v_ = unparse(anyc.args[0].elt.value) if isinstance(anyc.args[0], ast.GeneratorExp) and isinstance(anyc.args[0].elt, ast.Subscript) else "node"
            out.append(Mutant("c01-empty-block-quotes-only-ids-hidden", "C01.R24", tmx.rel, splice(tmx.src, anyc, f'bool({v_}["ids"])'), expect="childless block quotes"))
    else:
        out.append(("c01-empty-block-quotes-not-hidden", "no HideEmptyBlockQuotes transform"))
    # 9c0c38c newline-terminated top-level source (R25)
    for modname, q, tag in (("parsers.docutils_", "Parser.parse", "docutils"), ("parsers.sphinx_", "MystParser.parse", "sphinx")):
        pm = corpus.mod(modname)
        f = pm.func(q)
        nif = find_node(f, lambda n: isinstance(n, ast.If) and "endswith" in unparse(n.test) and any(isinstance(x, ast.AugAssign) for x in n.body))
        if nif is not None:
            out.append(Mutant(f"c01-source-not-newline-terminated-{tag}", "C01.R25", pm.rel, splice(pm.src, nif, "pass"), expect="render(inputstring)"))
        else:
            out.append((f"c01-source-not-newline-terminated-{tag}", f"{q} has no `if not x.endswith(..): x += ..`"))
    f = base.func("DocutilsRenderer.nested_render_text")
    pc = find_node(f, lambda n: isinstance(n, ast.Call) and unparse(n.func) == "self.md.parse" and isinstance(n.args[0], ast.BinOp))
    if pc is not None:
        out.append(Mutant("c01-nested-text-not-newline-terminated", "C01.R25", base.rel, splice(base.src, pc.args[0], unparse(pc.args[0].left)), expect="nested_render_text|self.md.parse"))
    # b7b74b6 RecursionError of the per-level walks over parsed HTML (R1 catalogue: structural self-recursion)
    h2n_ = corpus.mod("mdit_to_docutils.html_to_nodes")
    f = h2n_.func("html_to_nodes")
    tr_ = find_node(f, lambda n: isinstance(n, ast.Try) and any(h_.type is not None and "RecursionError" in unparse(h_.type) for h_ in n.handlers))
    if tr_ is not None:
        h_ = next(h_ for h_ in tr_.handlers if h_.type is not None and "RecursionError" in unparse(h_.type))
        out.append(Mutant("c01-html-recursion-handler-narrowed", "C01.R1", h2n_.rel, splice(h2n_.src, h_.type, "ValueError"), expect="|RecursionError|"))
        out.append(Mutant("c01-html-recursion-try-dropped", "C01.R1", h2n_.rel, unwrap_try(f, tr_), expect="|RecursionError|"))
    else:
        out.append(("c01-html-recursion-handler-narrowed", "html_to_nodes has no handler for RecursionError"))
    # 2ea1b0a+ HideNestedTransitions partially weakened: the climb also leaves topics / sidebars (any Structural) visible
    hider, _ = _transitions_hidden_by(corpus)
    if hider is not None:
        hci = tmx.classes[hider]
        wl = find_node(hci.methods["apply"], lambda n: isinstance(n, ast.While) and "isinstance" in unparse(n.test))
        if wl is not None and isinstance(wl.test, ast.Call):
            out.append(Mutant("c01-nested-transitions-climb-through-structural", "C01.R17", tmx.rel, splice(tmx.src, wl.test.args[1], "nodes.Structural"), expect="transition attached to"))
    # --- the escape digits are consumed before they are validated (catalogue: forward(N) before its validation loop) ---
    f = om.func("_scan_flow_scalar_non_spaces")
    vloop = find_node(f, lambda n: isinstance(n, ast.For) and isinstance(n.iter, ast.Call) and dotted(n.iter.func) == "range" and any(isinstance(x, ast.Raise) for x in ast.walk(n)))
    fwd = None
    if vloop is not None:
        blk_ = next((b for a_ in [parent(vloop)] for fld in ("body", "orelse") for b in [getattr(a_, fld, None)] if isinstance(b, list) and vloop in b), None)
        if blk_ is not None:
            fwd = next((x for x in blk_[blk_.index(vloop) + 1 :] if isinstance(x, ast.Expr) and isinstance(x.value, ast.Call) and unparse(x.value.func).endswith(".forward") and x.value.args and unparse(x.value.args[0]) == unparse(vloop.iter.args[0])), None)
    if vloop is not None and fwd is not None:
        ind = " " * vloop.col_offset
        src_ = splice(om.src, fwd, "pass")  # later statement first
        src_ = splice(src_, vloop, f"digits_ = {unparse(fwd.value.func.value)}.prefix({unparse(fwd.value.args[0])})\n{ind}{unparse(fwd)}\n{ind}for d_ in digits_:\n{ind}    if d_ not in '0123456789ABCDEFabcdef':\n{ind}        raise TokenizeError('bad escape', {unparse(fwd.value.func.value)}.get_position())")
        out.append(Mutant("c01-escape-digits-consumed-before-validation", "C01.R1", om.rel, src_, expect="|IndexError|"))
    else:
        out.append(("c01-escape-digits-consumed-before-validation", "_scan_flow_scalar_non_spaces: validation loop / forward(length) not found"))
    # --- the raw clean-up loops flattened over all roots before anything is removed (R23) ---
    for modname, q, tag in (("parsers.docutils_", "Parser.parse", "docutils"), ("parsers.sphinx_", "MystParser.parse", "sphinx")):
        pm = corpus.mod(modname)
        f = pm.func(q)
        outer = find_node(f, lambda n: isinstance(n, ast.For) and len(n.body) == 1 and isinstance(n.body[0], ast.For) and isinstance(n.target, ast.Name)
                          and any(isinstance(c, ast.Call) and isinstance(c.func, ast.Attribute) and c.func.attr == "remove" for c in ast.walk(n.body[0])))
        if outer is None:
            out.append((f"c01-raw-cleanup-flattened-{tag}", f"{q}: no nested `for root in ..: for node in root.findall(..)` removal loop"))
            continue
        inner = outer.body[0]
        lines = pm.src.splitlines(keepends=True)
        ind = " " * outer.col_offset
        body_lines = lines[inner.body[0].lineno - 1 : inner.body[-1].end_lineno]
        step = inner.body[0].col_offset - inner.col_offset
        dedented = "".join(l[step:] if l.startswith(" " * step) else l for l in body_lines)
        new_text = (
            f"flat_ = [n_ for {unparse(outer.target)} in {unparse(outer.iter)} for n_ in {unparse(inner.iter)}]\n"
            f"{ind}for {unparse(inner.target)} in flat_:\n{dedented.rstrip()}"
        )
        out.append(Mutant(f"c01-raw-cleanup-flattened-{tag}", "C01.R23", pm.rel, splice(pm.src, outer, new_text), expect="in flat_", canary=(tag == "docutils")))
    # --- a weakened sandbox subclass for substitutions (R18) ---
    f = base.func("DocutilsRenderer.render_substitution")
    envc = find_node(f, lambda n: isinstance(n, ast.Call) and "SandboxedEnvironment" in unparse(n.func))
    if envc is not None:
        cls_src = (
            "class _LaxSandbox(jinja2.sandbox.SandboxedEnvironment):\n"
            "    def is_safe_attribute(self, obj, attr, value):\n"
            "        return not attr.startswith('__')\n\n\n"
        )
        rcls = base.classes["DocutilsRenderer"].node
        first = rcls.decorator_list[0] if rcls.decorator_list else rcls
        src_ = splice(base.src, envc.func, "_LaxSandbox")  # later in the file: splice first
        marker = ast.Pass(lineno=first.lineno, col_offset=0, end_lineno=first.lineno, end_col_offset=0)
        src_ = splice(src_, marker, cls_src)
        out.append(Mutant("c01-substitution-sandbox-predicate-weakened", "C01.R18", base.rel, src_, expect="safety predicate overridden"))
    # --- round 10: repairs of the hunted defects, reverted ---
    # d6174ee: the catch-all around directive_instance.run()
    f = base.func("DocutilsRenderer.run_directive")
    tr_d = find_node(f, lambda n: isinstance(n, ast.Try) and any(isinstance(c, ast.Call) and unparse(c.func).endswith("directive_instance.run") for b in n.body for c in ast.walk(b)))
    h = next((h_ for h_ in (tr_d.handlers if tr_d is not None else []) if h_.type is not None and unparse(h_.type) == "Exception"), None)
    if h is not None:
        out.append(Mutant("c01-directive-run-catch-all-narrowed", "C01.R1", base.rel, splice(base.src, h.type, "(KeyError, TypeError)"), expect="directive_instance.run()", canary=True))
    else:
        out.append(("c01-directive-run-catch-all-narrowed", "run_directive has no `except Exception` around directive_instance.run()"))
    # 0a802ad: LookupError / AttributeError of PyYAML's constructors for tagged scalars
    for modname, q, tag in (("config.main", "read_topmatter", "topmatter"), ("mdit_to_docutils.base", "DocutilsRenderer.render_front_matter", "front-matter"), ("parsers.directives", "_parse_directive_options", "as-yaml")):
        m_ = corpus.mod(modname)
        f = m_.func(q)
        h = find_node(f, lambda n: isinstance(n, ast.ExceptHandler) and n.type is not None and "YAMLError" in unparse(n.type))
        if h is not None and isinstance(h.type, ast.Tuple) and any(unparse(e) == "LookupError" for e in h.type.elts):
            kept = ", ".join(unparse(e) for e in h.type.elts if unparse(e) not in ("LookupError", "AttributeError"))
            out.append(Mutant(f"c01-yaml-tagged-scalar-handler-reverted-{tag}", "C01.R1", m_.rel, splice(m_.src, h.type, f"({kept})"), expect="|KeyError|"))
        else:
            out.append((f"c01-yaml-tagged-scalar-handler-reverted-{tag}", f"{q}: the YAML handler does not name LookupError"))
    # 4dae2c7: global_only fields refused in the front matter; e6abf42: sandboxed substitution environment
    f = cm.func("merge_file_level")
    gif = find_node(f, lambda n: isinstance(n, ast.If) and "global_only" in unparse(n.test))
    if gif is not None:
        out.append(Mutant("c01-global-only-field-accepted-in-front-matter", "C01.R18", cm.rel, splice(cm.src, gif.test, "False"), expect="global_only fields refused"))
    else:
        out.append(("c01-global-only-field-accepted-in-front-matter", "merge_file_level has no global_only test"))
    f = base.func("DocutilsRenderer.render_substitution")
    envc = find_node(f, lambda n: isinstance(n, ast.Call) and "SandboxedEnvironment" in unparse(n.func))
    if envc is not None:
        out.append(Mutant("c01-substitution-environment-not-sandboxed", "C01.R18", base.rel, splice(base.src, envc.func, "jinja2.Environment"), expect="render_substitution|Environment"))
    else:
        out.append(("c01-substitution-environment-not-sandboxed", "render_substitution does not build a SandboxedEnvironment"))
    # c6e9713: __getstate__ of the pickled configuration
    gs = corpus.cls("config.main:MdParserConfig").methods.get("__getstate__")
    if gs is not None:
        name_tok = gs.node
        src_ = cm.src
        line = cm.lines[gs.node.lineno - 1]
        col = line.index("__getstate__")
        fake = ast.Name(id="x", lineno=gs.node.lineno, col_offset=col, end_lineno=gs.node.lineno, end_col_offset=col + len("__getstate__"))
        out.append(Mutant("c01-config-getstate-dropped", "C01.R19", cm.rel, splice(cm.src, fake, "_getstate_unused"), expect="pickled with the Sphinx environment"))
    else:
        out.append(("c01-config-getstate-dropped", "MdParserConfig has no __getstate__"))
    # 3496400: the guard against the second application of ResolveAnchorIds
    tmx = corpus.mod("mdit_to_docutils.transforms")
    f = tmx.func("ResolveAnchorIds.apply")
    gcmp = find_node(f, lambda n: isinstance(n, ast.Compare) and isinstance(n.ops[0], ast.NotIn) and isinstance(n.left, ast.Constant) and n.left.value == "refuri")
    if gcmp is not None:
        out.append(Mutant("c01-anchor-transform-reapplication-guard-dropped", "C01.R20", tmx.rel, splice(tmx.src, gcmp, "False"), expect="del refnode['refuri']"))
    else:
        out.append(("c01-anchor-transform-reapplication-guard-dropped", "ResolveAnchorIds.apply has no `'refuri' not in` test"))
    # b2365f8: queued transforms of detached pending nodes
    f = base.func("DocutilsRenderer._render_finalise")
    flt = find_node(f, lambda n: isinstance(n, ast.Assign) and isinstance(n.targets[0], ast.Attribute) and n.targets[0].attr == "transforms")
    if flt is not None:
        out.append(Mutant("c01-detached-pending-transforms-kept", "C01.R21", base.rel, splice(base.src, flt, "pass"), expect="queued transforms"))
    else:
        out.append(("c01-detached-pending-transforms-kept", "_render_finalise does not filter transformer.transforms"))
    # 0999667: readline as a recursion per read
    iv = corpus.mod("inventory")
    f = iv.func("InventoryFileReader.readline")
    w_ = find_node(f, lambda n: isinstance(n, ast.While))
    rb_ = next((x for x in (w_.body if w_ is not None else []) if isinstance(x, ast.Expr) and unparse(x) == "self.read_buffer()"), None)
    if rb_ is not None:
        ind = " " * rb_.col_offset
        out.append(Mutant("c01-readline-recurses-per-read", "C01.R5", iv.rel, splice(iv.src, rb_, f"self.read_buffer()\n{ind}return self.readline()"), expect="recursion instead of a loop"))
    else:
        out.append(("c01-readline-recurses-per-read", "readline has no `while ...: self.read_buffer()` loop"))
    # --- the repair of F9 (2ea1b0a, HideNestedTransitions) reverted in three ways (R17) ---
    hider, _ = _transitions_hidden_by(corpus)
    if hider is not None:
        tmx = corpus.mod("mdit_to_docutils.transforms")
        hci = tmx.classes[hider]
        for modname, q, tag in (("parsers.docutils_", "Parser.get_transforms", "docutils"), ("parsers.sphinx_", "MystParser.get_transforms", "sphinx")):
            pm = corpus.mod(modname)
            gt = pm.func(q)
            nm_ = find_node(gt, lambda n: isinstance(n, ast.Name) and n.id == hider and isinstance(parent(n), ast.List))
            if nm_ is not None:
                lst = parent(nm_)
                kept = ", ".join(unparse(e) for e in lst.elts if e is not nm_)
                out.append(Mutant(f"c01-nested-transitions-not-hidden-{tag}", "C01.R17", pm.rel, splice(pm.src, lst, f"[{kept}]"), expect="transition attached to", canary=(tag == "docutils")))
            else:
                out.append((f"c01-nested-transitions-not-hidden-{tag}", f"{q} does not list {hider} in a list display"))
        prio = next((st for st in hci.node.body if isinstance(st, ast.Assign) and any(isinstance(t_, ast.Name) and t_.id == "default_priority" for t_ in st.targets)), None)
        if prio is not None and isinstance(prio.value, ast.BinOp):
            out.append(Mutant("c01-nested-transitions-hidden-too-late", "C01.R17", tmx.rel, splice(tmx.src, prio.value, f"{unparse(prio.value.left)} + 1"), expect="transition attached to"))
        ap = hci.methods["apply"]
        tst = find_node(ap, lambda n: isinstance(n, ast.If) and isinstance(n.test, ast.UnaryOp) and "isinstance" in unparse(n.test))
        if tst is not None:
            out.append(Mutant("c01-nested-transitions-test-inverted", "C01.R17", tmx.rel, splice(tmx.src, tst.test, unparse(tst.test.operand)), expect="transition attached to"))
    else:
        out.append(("c01-nested-transitions-not-hidden-docutils", "no transform hides nested transitions on this tree"))
    # --- include cycle guard keyed by a path that is not normalised (R4) ---
    f = mk.func("MockIncludeDirective.run")
    npc = find_node(f, lambda n: isinstance(n, ast.Call) and (dotted(n.func) or "").endswith("normpath") and isinstance(parent(n), ast.Assign) and isinstance(parent(n).targets[0], ast.Name))
    if npc is not None and npc.args:
        out.append(Mutant("c01-include-key-not-normalised", "C01.R4", mk.rel, splice(mk.src, npc, f"str({unparse(npc.args[0])})"), expect="not a normalised path"))
        out.append(Mutant("c01-include-key-fspath", "C01.R4", mk.rel, splice(mk.src, npc, f"os.fspath({unparse(npc.args[0])})"), expect="not a normalised path"))
    else:
        out.append(("c01-include-key-not-normalised", "the include key is not computed by normpath(...) into a local"))
    # --- heading offset may become negative (R14) ---
    f = base.func("DocutilsRenderer.run_directive")
    conv = None
    for d_ in f.local_nodes():
        if isinstance(d_, ast.Dict):
            for k_, v_ in zip(d_.keys, d_.values):
                if isinstance(k_, ast.Constant) and k_.value == "heading-offset":
                    conv = v_
    if conv is not None:
        out.append(Mutant("c01-heading-offset-converter-int", "C01.R14", base.rel, splice(base.src, conv, "int"), expect="_heading_offset", canary=True))
        out.append(Mutant("c01-heading-offset-converter-lambda", "C01.R14", base.rel, splice(base.src, conv, "lambda v: int(v)"), expect="_heading_offset"))
    else:
        out.append(("c01-heading-offset-converter-int", "no 'heading-offset' entry in run_directive's option table"))
    f = mk.func("MockIncludeDirective.run")
    og = find_node(f, lambda n: isinstance(n, ast.Call) and isinstance(n.func, ast.Attribute) and n.func.attr == "get" and n.args and isinstance(n.args[0], ast.Constant) and n.args[0].value == "heading-offset" and len(n.args) == 2)
    if og is not None:
        out.append(Mutant("c01-heading-offset-default-negative", "C01.R14", mk.rel, splice(mk.src, og.args[1], "-1"), expect="_heading_offset"))
    else:
        out.append(("c01-heading-offset-default-negative", "the include mock does not read options.get('heading-offset', d)"))
    # --- registry value None used as a key of document.ids (R15) ---
    tm_ = corpus.mod("mdit_to_docutils.transforms")
    f = tm_.func("ResolveAnchorIds.apply")
    tests = [n for n in f.local_nodes() if isinstance(n, ast.If) and isinstance(n.test, ast.Compare) and isinstance(n.test.ops[0], ast.Is) and isinstance(n.test.comparators[0], ast.Constant) and n.test.comparators[0].value is None and isinstance(n.test.left, ast.Name)]
    sub_ = find_node(f, lambda n: isinstance(n, ast.Subscript) and isinstance(n.ctx, ast.Load) and unparse(n.value).endswith("document.ids"))
    if tests and sub_ is not None:
        src_ = tm_.src
        for t_ in sorted(tests, key=lambda n: -n.lineno):
            src_ = splice(src_, t_.test, "False")
        out.append(Mutant("c01-duplicate-name-skip-dropped", "C01.R15", tm_.rel, src_, expect="nameids"))
        src2 = splice(tm_.src, sub_, f"{unparse(sub_.value)}.get({unparse(sub_.slice)})")
        # (the subscript comes after the tests: splice the later node first)
        src2 = tm_.src
        for node_, text_ in sorted([(sub_, f"{unparse(sub_.value)}.get({unparse(sub_.slice)})")] + [(t_.test, "False") for t_ in tests], key=lambda p_: -p_[0].lineno):
            src2 = splice(src2, node_, text_)
        out.append(Mutant("c01-duplicate-name-lookup-by-get", "C01.R15", tm_.rel, src2, expect="nameids"))
    else:
        out.append(("c01-duplicate-name-skip-dropped", "ResolveAnchorIds.apply: None tests / ids[...] not found"))
    # --- attributes read from a caught exception (R12) ---
    f = base.func("DocutilsRenderer.get_inventory_matches")
    h = find_node(f, lambda n: isinstance(n, ast.ExceptHandler) and n.name and n.type is not None and unparse(n.type) == "Exception")
    fv = next((x for b in h.body for x in ast.walk(b) if isinstance(x, ast.FormattedValue) and isinstance(x.value, ast.Name) and x.value.id == h.name), None) if h is not None else None
    if fv is not None:
        out.append(Mutant("c01-inventory-warning-reads-strerror", "C01.R12", base.rel, splice(base.src, fv.value, f"{h.name}.strerror or {h.name}"), expect=".strerror", canary=True))
    else:
        out.append(("c01-inventory-warning-reads-strerror", "the inventory handler does not format its exception"))
    f = base.func("DocutilsRenderer.render_substitution")
    h = find_node(f, lambda n: isinstance(n, ast.ExceptHandler) and n.name and n.type is not None and unparse(n.type) == "Exception")
    at = next((x for b in h.body for x in ast.walk(b) if isinstance(x, ast.Attribute) and unparse(x) == f"{h.name}.__class__.__name__"), None) if h is not None else None
    if at is not None:
        out.append(Mutant("c01-substitution-warning-reads-lineno", "C01.R12", base.rel, splice(base.src, at, f"{h.name}.lineno"), expect=".lineno"))
    else:
        out.append(("c01-substitution-warning-reads-lineno", "render_substitution's handler does not name the exception class"))
    # --- the copy_attributes repair (61fd1fa) reverted: the mapping subscripted with the aliased key (R13) ---
    f = base.func("DocutilsRenderer.copy_attributes")
    js = find_node(f, lambda n: isinstance(n, ast.JoinedStr) and any(isinstance(v, ast.Constant) and "attribute value" in str(v.value) for v in n.values))
    lp = find_node(f, lambda n: isinstance(n, ast.For) and isinstance(n.iter, ast.Call) and unparse(n.iter.func).endswith(".items"))
    if js is not None and lp is not None and isinstance(lp.target, ast.Tuple):
        fvs = [v for v in js.values if isinstance(v, ast.FormattedValue)]
        kname = unparse(lp.target.elts[0])
        out.append(Mutant("c01-aliased-key-looked-up-in-attrs", "C01.R13", base.rel, splice(base.src, fvs[-1].value, f"{unparse(lp.iter.func.value)}[{kname}]"), expect="copy_attributes|for"))
    else:
        out.append(("c01-aliased-key-looked-up-in-attrs", "copy_attributes: invalid-attribute warning not found"))
    # once the heading double registration is repaired by isolating the implicit name: the repair reverted
    f = base.func("DocutilsRenderer.generate_heading_target")
    iso = find_node(
        f,
        lambda n: isinstance(n, ast.Assign) and len(n.targets) == 1 and isinstance(n.targets[0], ast.Subscript) and isinstance(n.targets[0].slice, ast.Constant)
        and n.targets[0].slice.value == "names" and isinstance(n.value, ast.List) and len(n.value.elts) == 1,
    )
    if iso is not None:
        out.append(Mutant("c01-heading-implicit-name-isolation-reverted", "C01.R7", base.rel, splice(base.src, iso, f"{unparse(iso.targets[0])}.append({unparse(iso.value.elts[0])})"), expect="render_heading|"))
    # --- R28: the traversal predicate of the title refresh only asks for the attribute, not for its registration (seed j/c01-2) ---
    tm = corpus.mod("mdit_to_docutils.transforms")
    f = tm.func("ResolveAnchorIds.apply")
    lam_cmp = None
    for lp in f.local_nodes():
        if isinstance(lp, ast.For) and isinstance(lp.iter, ast.Call):
            for a in lp.iter.args:
                if isinstance(a, ast.Lambda) and len(a.args.args) == 1:
                    for c_ in ast.walk(a.body):
                        if isinstance(c_, ast.Compare) and len(c_.ops) == 1 and isinstance(c_.ops[0], ast.In) and _attr_read(c_.left) is not None and _attr_read(c_.left)[0] == a.args.args[0].arg:
                            lam_cmp = (c_, a.args.args[0].arg, _attr_read(c_.left)[1])
    if lam_cmp is not None:
        out.append(Mutant("c01-slug-refresh-predicate-weakened", "C01.R28", tm.rel, splice(tm.src, lam_cmp[0], f"{lam_cmp[2]!r} in {lam_cmp[1]}"), expect="ResolveAnchorIds.apply|"))
    else:
        out.append(("c01-slug-refresh-predicate-weakened", "ResolveAnchorIds.apply: no traversal lambda with a registry membership test"))
    sc = find_node(
        f,
        lambda n: isinstance(n, ast.Compare) and len(n.ops) == 1 and isinstance(n.ops[0], ast.In) and isinstance(n.left, ast.Name) and isinstance(parent(n), ast.BoolOp)
        and isinstance(n.comparators[0], ast.Name) and _is_slug_registry(_only_binding(f, n.comparators[0])),
    )
    if sc is not None:
        out.append(Mutant("c01-slug-lookup-membership-dropped", "C01.R28", tm.rel, splice(tm.src, sc, f"{unparse(sc.left)} is not None"), expect="ResolveAnchorIds.apply|"))
    else:
        out.append(("c01-slug-lookup-membership-dropped", "ResolveAnchorIds.apply: no short-circuit membership test of the slug registry"))
    # --- R29: the length test of check_inventories weakened AND the merge handler narrowed (seed j/c01-1 is the same pair) ---
    f = cm.func("merge_file_level")
    h = find_node(f, lambda n: isinstance(n, ast.ExceptHandler) and n.type is not None and unparse(n.type) == "Exception")
    ci_ = cm.functions.get("check_inventories")
    lt = find_node(
        ci_,
        lambda n: isinstance(n, ast.Compare) and len(n.ops) == 1 and isinstance(n.ops[0], ast.NotEq) and isinstance(n.left, ast.Call) and dotted(n.left.func) == "len"
        and isinstance(n.comparators[0], ast.Constant),
    ) if ci_ is not None else None
    if h is not None and lt is not None and h.lineno > lt.end_lineno:
        src1 = splice(cm.src, h.type, "(TypeError, ValueError)")
        out.append(Mutant("c01-validator-length-test-weakened-and-merge-handler-narrowed", "C01.R29", cm.rel, splice(src1, lt, f"{unparse(lt.left)} > {unparse(lt.comparators[0])}"), expect="check_inventories|"))
    else:
        out.append(("c01-validator-length-test-weakened-and-merge-handler-narrowed", "check_inventories' length test / merge_file_level's `except Exception` not found"))
    return out


def segment_(src: str, node: ast.AST) -> str:
    return ast.get_source_segment(src, node) or ""
